//! The clean Cypher AST of the reference semantics `Cy` (mirror of lean/SgModel/Model/Cy*.lean),
//! its unparser to Cypher text (what the real engine parses) and its s-expression printer
//! (what the Lean driver parses).
#![allow(dead_code)]

#[derive(Clone, Debug, PartialEq)]
pub enum V {
    Null,
    Bool(bool),
    Int(i64),
    Flt(f64),
    Str(String),
    List(Vec<V>),
    Node(usize),
    Rel(usize),
    /// something the value language of the model cannot express (map, path, nested list, NaN…)
    Other(String),
}

/// finite f64 -> exact dyadic rational num / 2^k (None: not finite or absurdly large/small)
pub fn dyadic(f: f64) -> Option<(i128, u32)> {
    if !f.is_finite() {
        return None;
    }
    if f == 0.0 {
        return Some((0, 0)); // -0.0 and 0.0 are the same value
    }
    let bits = f.to_bits();
    let sign: i128 = if bits >> 63 == 1 { -1 } else { 1 };
    let exp = ((bits >> 52) & 0x7ff) as i32;
    let frac = bits & ((1u64 << 52) - 1);
    let (mant, mut e) = if exp == 0 { (frac, -1074) } else { (frac | (1u64 << 52), exp - 1075) };
    let mut m = mant as i128;
    while m % 2 == 0 && e < 0 {
        m /= 2;
        e += 1;
    }
    if e >= 0 {
        if e > 60 {
            return None;
        }
        Some((sign * (m << e), 0))
    } else {
        if -e > 1000 {
            return None;
        }
        Some((sign * m, (-e) as u32))
    }
}

fn hex(s: &str) -> String {
    s.as_bytes().iter().map(|b| format!("{:02x}", b)).collect()
}

impl V {
    pub fn representable(&self) -> bool {
        match self {
            V::Flt(f) => dyadic(*f).is_some(),
            V::List(l) => l.iter().all(|x| !matches!(x, V::List(_)) && x.representable()),
            V::Other(_) => false,
            _ => true,
        }
    }
    pub fn sexp(&self) -> String {
        match self {
            V::Null => "N".into(),
            V::Bool(true) => "T".into(),
            V::Bool(false) => "F".into(),
            V::Int(i) => format!("I{}", i),
            V::Flt(f) => match dyadic(*f) {
                Some((n, k)) => format!("D{}_{}", n, k),
                None => "X".into(),
            },
            V::Str(s) => format!("S{}", hex(s)),
            V::List(l) => format!("(L{})", l.iter().map(|x| format!(" {}", x.sexp())).collect::<String>()),
            V::Node(i) => format!("n{}", i),
            V::Rel(i) => format!("r{}", i),
            V::Other(_) => "X".into(),
        }
    }
    /// Cypher literal
    pub fn cypher(&self) -> String {
        match self {
            V::Null => "null".into(),
            V::Bool(b) => format!("{}", b),
            V::Int(i) => format!("{}", i),
            V::Flt(f) => format!("{:?}", f),
            V::Str(s) => format!("'{}'", s),
            V::List(l) => format!("[{}]", l.iter().map(|x| x.cypher()).collect::<Vec<_>>().join(", ")),
            V::Node(_) | V::Rel(_) | V::Other(_) => "null".into(),
        }
    }
}

#[derive(Clone, Copy, Debug, PartialEq)]
pub enum CmpOp { Eq, Ne, Lt, Le, Gt, Ge }
#[derive(Clone, Copy, Debug, PartialEq)]
pub enum StrOp { Starts, Ends, Contains }
#[derive(Clone, Copy, Debug, PartialEq)]
pub enum ArOp { Add, Sub, Mul, Div, Mod }
#[derive(Clone, Copy, Debug, PartialEq)]
pub enum F1 { Size, Abs, ToString, Head, Last, Id }

#[derive(Clone, Debug, PartialEq)]
pub enum E {
    Lit(V),
    Var(String),
    Prop(Box<E>, String),
    Not(Box<E>),
    And(Box<E>, Box<E>),
    Or(Box<E>, Box<E>),
    Xor(Box<E>, Box<E>),
    Cmp(CmpOp, Box<E>, Box<E>),
    IsNull(Box<E>),
    NotNull(Box<E>),
    In(Box<E>, Box<E>),
    Str(StrOp, Box<E>, Box<E>),
    Ar(ArOp, Box<E>, Box<E>),
    Neg(Box<E>),
    Fn(F1, Box<E>),
    Coalesce(Box<E>, Box<E>),
}

impl E {
    pub fn prop(var: &str, key: &str) -> E {
        E::Prop(Box::new(E::Var(var.into())), key.into())
    }
    pub fn sexp(&self) -> String {
        match self {
            E::Lit(v) => format!("(lit {})", v.sexp()),
            E::Var(x) => format!("(var {})", x),
            E::Prop(e, k) => format!("(prop {} {})", e.sexp(), k),
            E::Not(e) => format!("(not {})", e.sexp()),
            E::And(a, b) => format!("(and {} {})", a.sexp(), b.sexp()),
            E::Or(a, b) => format!("(or {} {})", a.sexp(), b.sexp()),
            E::Xor(a, b) => format!("(xor {} {})", a.sexp(), b.sexp()),
            E::Cmp(op, a, b) => format!(
                "(cmp {} {} {})",
                match op { CmpOp::Eq => "eq", CmpOp::Ne => "ne", CmpOp::Lt => "lt", CmpOp::Le => "le", CmpOp::Gt => "gt", CmpOp::Ge => "ge" },
                a.sexp(),
                b.sexp()
            ),
            E::IsNull(e) => format!("(isnull {})", e.sexp()),
            E::NotNull(e) => format!("(notnull {})", e.sexp()),
            E::In(a, b) => format!("(in {} {})", a.sexp(), b.sexp()),
            E::Str(op, a, b) => format!(
                "(str {} {} {})",
                match op { StrOp::Starts => "starts", StrOp::Ends => "ends", StrOp::Contains => "contains" },
                a.sexp(),
                b.sexp()
            ),
            E::Ar(op, a, b) => format!(
                "(ar {} {} {})",
                match op { ArOp::Add => "add", ArOp::Sub => "sub", ArOp::Mul => "mul", ArOp::Div => "div", ArOp::Mod => "mod" },
                a.sexp(),
                b.sexp()
            ),
            E::Neg(e) => format!("(neg {})", e.sexp()),
            E::Fn(f, e) => format!(
                "(fn {} {})",
                match f { F1::Size => "size", F1::Abs => "abs", F1::ToString => "tostring", F1::Head => "head", F1::Last => "last", F1::Id => "id" },
                e.sexp()
            ),
            E::Coalesce(a, b) => format!("(coalesce {} {})", a.sexp(), b.sexp()),
        }
    }
    /// fully parenthesised Cypher text
    pub fn cypher(&self) -> String {
        match self {
            E::Lit(v) => v.cypher(),
            E::Var(x) => x.clone(),
            E::Prop(e, k) => format!("{}.{}", e.cypher(), k),
            E::Not(e) => format!("(NOT {})", e.cypher()),
            E::And(a, b) => format!("({} AND {})", a.cypher(), b.cypher()),
            E::Or(a, b) => format!("({} OR {})", a.cypher(), b.cypher()),
            E::Xor(a, b) => format!("({} XOR {})", a.cypher(), b.cypher()),
            E::Cmp(op, a, b) => format!(
                "({} {} {})",
                a.cypher(),
                match op { CmpOp::Eq => "=", CmpOp::Ne => "<>", CmpOp::Lt => "<", CmpOp::Le => "<=", CmpOp::Gt => ">", CmpOp::Ge => ">=" },
                b.cypher()
            ),
            E::IsNull(e) => format!("({} IS NULL)", e.cypher()),
            E::NotNull(e) => format!("({} IS NOT NULL)", e.cypher()),
            E::In(a, b) => format!("({} IN {})", a.cypher(), b.cypher()),
            E::Str(op, a, b) => format!(
                "({} {} {})",
                a.cypher(),
                match op { StrOp::Starts => "STARTS WITH", StrOp::Ends => "ENDS WITH", StrOp::Contains => "CONTAINS" },
                b.cypher()
            ),
            E::Ar(op, a, b) => format!(
                "({} {} {})",
                a.cypher(),
                match op { ArOp::Add => "+", ArOp::Sub => "-", ArOp::Mul => "*", ArOp::Div => "/", ArOp::Mod => "%" },
                b.cypher()
            ),
            E::Neg(e) => format!("(-({}))", e.cypher()),
            E::Fn(f, e) => format!(
                "{}({})",
                match f { F1::Size => "size", F1::Abs => "abs", F1::ToString => "toString", F1::Head => "head", F1::Last => "last", F1::Id => "id" },
                e.cypher()
            ),
            E::Coalesce(a, b) => format!("coalesce({}, {})", a.cypher(), b.cypher()),
        }
    }
    pub fn size(&self) -> usize {
        match self {
            E::Lit(_) | E::Var(_) => 1,
            E::Prop(e, _) | E::Not(e) | E::IsNull(e) | E::NotNull(e) | E::Neg(e) | E::Fn(_, e) => 1 + e.size(),
            E::And(a, b) | E::Or(a, b) | E::Xor(a, b) | E::Cmp(_, a, b) | E::In(a, b) | E::Str(_, a, b) | E::Ar(_, a, b) | E::Coalesce(a, b) => {
                1 + a.size() + b.size()
            }
        }
    }
}

#[derive(Clone, Copy, Debug, PartialEq)]
pub enum Dir { Out, In, Both }

#[derive(Clone, Debug, PartialEq, Default)]
pub struct NP {
    pub var: Option<String>,
    pub labels: Vec<String>,
    pub props: Vec<(String, V)>,
}

#[derive(Clone, Debug, PartialEq)]
pub struct RP {
    pub var: Option<String>,
    pub types: Vec<String>,
    pub dir: Dir,
    pub props: Vec<(String, V)>,
    pub range: Option<(u32, Option<u32>)>,
}

#[derive(Clone, Debug, PartialEq)]
pub struct Path {
    pub start: NP,
    pub steps: Vec<(RP, NP)>,
}

fn props_sexp(ps: &[(String, V)]) -> String {
    format!("({})", ps.iter().map(|(k, v)| format!("({} {})", k, v.sexp())).collect::<Vec<_>>().join(" "))
}
fn props_cypher(ps: &[(String, V)]) -> String {
    if ps.is_empty() {
        String::new()
    } else {
        format!(" {{{}}}", ps.iter().map(|(k, v)| format!("{}: {}", k, v.cypher())).collect::<Vec<_>>().join(", "))
    }
}

impl NP {
    pub fn sexp(&self) -> String {
        format!("(np {} ({}) {})", self.var.as_deref().unwrap_or("_"), self.labels.join(" "), props_sexp(&self.props))
    }
    pub fn cypher(&self) -> String {
        format!(
            "({}{}{})",
            self.var.as_deref().unwrap_or(""),
            self.labels.iter().map(|l| format!(":{}", l)).collect::<String>(),
            props_cypher(&self.props)
        )
    }
}

impl RP {
    pub fn sexp(&self) -> String {
        format!(
            "(rp {} ({}) {} {} {})",
            self.var.as_deref().unwrap_or("_"),
            self.types.join(" "),
            match self.dir { Dir::Out => "out", Dir::In => "in", Dir::Both => "both" },
            props_sexp(&self.props),
            match self.range {
                None => "_".to_string(),
                Some((lo, hi)) => format!("({} {})", lo, hi.map(|h| h.to_string()).unwrap_or("_".into())),
            }
        )
    }
    pub fn cypher(&self) -> String {
        let types = if self.types.is_empty() { String::new() } else { format!(":{}", self.types.join("|")) };
        let range = match self.range {
            None => String::new(),
            Some((lo, Some(hi))) => format!("*{}..{}", lo, hi),
            Some((lo, None)) => format!("*{}..", lo),
        };
        let inner = format!("{}{}{}{}", self.var.as_deref().unwrap_or(""), types, range, props_cypher(&self.props));
        let body = if inner.is_empty() { String::new() } else { format!("[{}]", inner) };
        match self.dir {
            Dir::Out => format!("-{}->", body),
            Dir::In => format!("<-{}-", body),
            Dir::Both => format!("-{}-", body),
        }
    }
}

impl Path {
    pub fn sexp(&self) -> String {
        let mut s = format!("(path {}", self.start.sexp());
        for (r, n) in &self.steps {
            s.push_str(&format!(" {} {}", r.sexp(), n.sexp()));
        }
        s.push(')');
        s
    }
    pub fn cypher(&self) -> String {
        let mut s = self.start.cypher();
        for (r, n) in &self.steps {
            s.push_str(&r.cypher());
            s.push_str(&n.cypher());
        }
        s
    }
    pub fn vars(&self) -> Vec<(String, bool)> {
        // (name, is_node)
        let mut out = vec![];
        if let Some(v) = &self.start.var {
            out.push((v.clone(), true));
        }
        for (r, n) in &self.steps {
            if let Some(v) = &r.var {
                out.push((v.clone(), false));
            }
            if let Some(v) = &n.var {
                out.push((v.clone(), true));
            }
        }
        out
    }
}

#[derive(Clone, Copy, Debug, PartialEq)]
pub enum AggKind { CountStar, Count, Sum, Avg, Min, Max, Collect }

#[derive(Clone, Debug, PartialEq)]
pub enum Item {
    /// expression, column name, whether `AS name` is written (otherwise the name *is* the text)
    E(E, String, bool),
    Agg(AggKind, bool, E, String),
}

impl Item {
    pub fn alias(&self) -> &str {
        match self {
            Item::E(_, a, _) => a,
            Item::Agg(_, _, _, a) => a,
        }
    }
    pub fn sexp(&self) -> String {
        match self {
            Item::E(e, a, _) => format!("(e {} {})", e.sexp(), a),
            Item::Agg(k, d, e, a) => format!(
                "(agg {} {} {} {})",
                match k {
                    AggKind::CountStar => "countstar",
                    AggKind::Count => "count",
                    AggKind::Sum => "sum",
                    AggKind::Avg => "avg",
                    AggKind::Min => "min",
                    AggKind::Max => "max",
                    AggKind::Collect => "collect",
                },
                if *d { "T" } else { "F" },
                e.sexp(),
                a
            ),
        }
    }
    pub fn cypher(&self) -> String {
        match self {
            Item::E(e, a, true) => format!("{} AS {}", e.cypher(), a),
            Item::E(e, _, false) => e.cypher(),
            Item::Agg(k, d, e, a) => {
                let dd = if *d { "DISTINCT " } else { "" };
                let f = match k {
                    AggKind::CountStar => return format!("count(*) AS {}", a),
                    AggKind::Count => "count",
                    AggKind::Sum => "sum",
                    AggKind::Avg => "avg",
                    AggKind::Min => "min",
                    AggKind::Max => "max",
                    AggKind::Collect => "collect",
                };
                format!("{}({}{}) AS {}", f, dd, e.cypher(), a)
            }
        }
    }
}

#[derive(Clone, Debug, PartialEq, Default)]
pub struct Proj {
    pub distinct: bool,
    pub items: Vec<Item>,
    pub order: Vec<(E, bool)>,
    pub skip: Option<u32>,
    pub limit: Option<u32>,
    pub where_: Option<E>,
}

fn opt_e(e: &Option<E>) -> String {
    e.as_ref().map(|e| e.sexp()).unwrap_or("_".into())
}
fn opt_n(n: &Option<u32>) -> String {
    n.map(|n| n.to_string()).unwrap_or("_".into())
}

impl Proj {
    pub fn sexp(&self) -> String {
        format!(
            "(proj {} ({}) ({}) {} {} {})",
            if self.distinct { "T" } else { "F" },
            self.items.iter().map(|i| i.sexp()).collect::<Vec<_>>().join(" "),
            self.order.iter().map(|(e, d)| format!("(k {} {})", e.sexp(), if *d { "T" } else { "F" })).collect::<Vec<_>>().join(" "),
            opt_n(&self.skip),
            opt_n(&self.limit),
            opt_e(&self.where_)
        )
    }
    pub fn cypher(&self, kw: &str) -> String {
        let mut s = format!(
            "{} {}{}",
            kw,
            if self.distinct { "DISTINCT " } else { "" },
            self.items.iter().map(|i| i.cypher()).collect::<Vec<_>>().join(", ")
        );
        if !self.order.is_empty() {
            s.push_str(" ORDER BY ");
            s.push_str(&self.order.iter().map(|(e, d)| format!("{}{}", e.cypher(), if *d { " DESC" } else { "" })).collect::<Vec<_>>().join(", "));
        }
        if let Some(k) = self.skip {
            s.push_str(&format!(" SKIP {}", k));
        }
        if let Some(k) = self.limit {
            s.push_str(&format!(" LIMIT {}", k));
        }
        if let Some(w) = &self.where_ {
            s.push_str(&format!(" WHERE {}", w.cypher()));
        }
        s
    }
    pub fn has_agg(&self) -> bool {
        self.items.iter().any(|i| matches!(i, Item::Agg(..)))
    }
}

#[derive(Clone, Debug, PartialEq)]
pub enum Clause {
    Match(bool, Vec<Path>, Option<E>),
    Unwind(E, String),
    With(Proj),
}

impl Clause {
    pub fn sexp(&self) -> String {
        match self {
            Clause::Match(o, ps, w) => format!(
                "(match {} ({}) {})",
                if *o { "T" } else { "F" },
                ps.iter().map(|p| p.sexp()).collect::<Vec<_>>().join(" "),
                opt_e(w)
            ),
            Clause::Unwind(e, x) => format!("(unwind {} {})", e.sexp(), x),
            Clause::With(p) => format!("(with {})", p.sexp()),
        }
    }
    pub fn cypher(&self) -> String {
        match self {
            Clause::Match(o, ps, w) => format!(
                "{}MATCH {}{}",
                if *o { "OPTIONAL " } else { "" },
                ps.iter().map(|p| p.cypher()).collect::<Vec<_>>().join(", "),
                w.as_ref().map(|w| format!(" WHERE {}", w.cypher())).unwrap_or_default()
            ),
            Clause::Unwind(e, x) => format!("UNWIND {} AS {}", e.cypher(), x),
            Clause::With(p) => p.cypher("WITH"),
        }
    }
}

#[derive(Clone, Debug, PartialEq)]
pub struct Query {
    pub clauses: Vec<Clause>,
    pub ret: Proj,
}

impl Query {
    pub fn sexp(&self) -> String {
        format!("(q ({}) {})", self.clauses.iter().map(|c| c.sexp()).collect::<Vec<_>>().join(" "), self.ret.sexp())
    }
    pub fn cypher(&self) -> String {
        let mut parts: Vec<String> = self.clauses.iter().map(|c| c.cypher()).collect();
        parts.push(self.ret.cypher("RETURN"));
        parts.join(" ")
    }
}

/// the logical graph handed to both sides
#[derive(Clone, Debug, PartialEq, Default)]
pub struct GNode {
    pub labels: Vec<String>,
    pub props: Vec<(String, V)>,
}
#[derive(Clone, Debug, PartialEq)]
pub struct GRel {
    pub src: usize,
    pub tgt: usize,
    pub ty: String,
    pub props: Vec<(String, V)>,
}
#[derive(Clone, Debug, PartialEq, Default)]
pub struct G {
    pub nodes: Vec<GNode>,
    pub rels: Vec<GRel>,
}

impl G {
    pub fn sexp(&self) -> String {
        format!(
            "(g ({}) ({}))",
            self.nodes.iter().map(|n| format!("(n ({}) {})", n.labels.join(" "), props_sexp(&n.props))).collect::<Vec<_>>().join(" "),
            self.rels.iter().map(|r| format!("(r {} {} {} {})", r.src, r.tgt, r.ty, props_sexp(&r.props))).collect::<Vec<_>>().join(" ")
        )
    }
}

// ---- a tiny s-expression reader (for corpus / replay files: graphs and values only) ----

#[derive(Clone, Debug)]
pub enum Sx {
    A(String),
    L(Vec<Sx>),
}

pub fn sx_parse(s: &str) -> Option<Sx> {
    let mut toks: Vec<String> = vec![];
    let mut cur = String::new();
    for c in s.chars() {
        if c == '(' || c == ')' {
            if !cur.is_empty() {
                toks.push(std::mem::take(&mut cur));
            }
            toks.push(c.to_string());
        } else if c.is_whitespace() {
            if !cur.is_empty() {
                toks.push(std::mem::take(&mut cur));
            }
        } else {
            cur.push(c);
        }
    }
    if !cur.is_empty() {
        toks.push(cur);
    }
    let mut pos = 0;
    let r = sx_one(&toks, &mut pos)?;
    if pos == toks.len() { Some(r) } else { None }
}

fn sx_one(t: &[String], pos: &mut usize) -> Option<Sx> {
    let tok = t.get(*pos)?;
    *pos += 1;
    if tok == "(" {
        let mut xs = vec![];
        loop {
            if t.get(*pos)? == ")" {
                *pos += 1;
                return Some(Sx::L(xs));
            }
            xs.push(sx_one(t, pos)?);
        }
    } else if tok == ")" {
        None
    } else {
        Some(Sx::A(tok.clone()))
    }
}

fn unhex_str(s: &str) -> Option<String> {
    if s.len() % 2 != 0 {
        return None;
    }
    let b: Option<Vec<u8>> = (0..s.len()).step_by(2).map(|i| u8::from_str_radix(&s[i..i + 2], 16).ok()).collect();
    String::from_utf8(b?).ok()
}

pub fn v_of_sx(x: &Sx) -> Option<V> {
    match x {
        Sx::A(s) => {
            if s == "N" {
                Some(V::Null)
            } else if s == "T" {
                Some(V::Bool(true))
            } else if s == "F" {
                Some(V::Bool(false))
            } else if let Some(r) = s.strip_prefix('I') {
                r.parse().ok().map(V::Int)
            } else if let Some(r) = s.strip_prefix('D') {
                let (n, k) = r.split_once('_')?;
                let n: i128 = n.parse().ok()?;
                let k: i32 = k.parse().ok()?;
                Some(V::Flt(n as f64 / 2f64.powi(k)))
            } else if let Some(r) = s.strip_prefix('S') {
                unhex_str(r).map(V::Str)
            } else {
                None
            }
        }
        Sx::L(xs) => match xs.split_first() {
            Some((Sx::A(h), rest)) if h == "L" => rest.iter().map(v_of_sx).collect::<Option<Vec<_>>>().map(V::List),
            _ => None,
        },
    }
}

fn props_of_sx(x: &Sx) -> Option<Vec<(String, V)>> {
    match x {
        Sx::L(kvs) => kvs
            .iter()
            .map(|kv| match kv {
                Sx::L(p) if p.len() == 2 => match &p[0] {
                    Sx::A(k) => Some((k.clone(), v_of_sx(&p[1])?)),
                    _ => None,
                },
                _ => None,
            })
            .collect(),
        _ => None,
    }
}

fn names_of_sx(x: &Sx) -> Option<Vec<String>> {
    match x {
        Sx::L(xs) => xs.iter().map(|a| match a { Sx::A(s) => Some(s.clone()), _ => None }).collect(),
        _ => None,
    }
}

pub fn g_of_sexp(s: &str) -> Option<G> {
    let Sx::L(top) = sx_parse(s)? else { return None };
    if top.len() != 3 {
        return None;
    }
    let (Sx::L(ns), Sx::L(rs)) = (&top[1], &top[2]) else { return None };
    let mut g = G::default();
    for n in ns {
        let Sx::L(f) = n else { return None };
        if f.len() != 3 {
            return None;
        }
        g.nodes.push(GNode { labels: names_of_sx(&f[1])?, props: props_of_sx(&f[2])? });
    }
    for r in rs {
        let Sx::L(f) = r else { return None };
        if f.len() != 5 {
            return None;
        }
        let (Sx::A(s), Sx::A(t), Sx::A(ty)) = (&f[1], &f[2], &f[3]) else { return None };
        g.rels.push(GRel { src: s.parse().ok()?, tgt: t.parse().ok()?, ty: ty.clone(), props: props_of_sx(&f[4])? });
    }
    Some(g)
}
