//! C11 — unique constraints reject exactly the duplicates.
//! Real engine (Cypher through `QueryEngine::execute_mut` / `execute`) vs the Lean model
//! `SgModel.Uniq`, and the executable specification evaluated on the engine's observations.
use samyama::graph::{GraphStore, PropertyValue};
use samyama::query::executor::record::Value;
use samyama::query::QueryEngine;
use serde_json::json;
use std::collections::HashSet;
use vharness::{driver, Args, Known, Report, Rng};

#[derive(Clone, Debug, PartialEq)]
enum V {
    I(i64),
    F(i64),
    S(u32),
    N,
}
impl V {
    fn txt(&self) -> String {
        match self {
            V::I(i) => format!("i{}", i),
            V::F(i) => format!("f{}", i),
            V::S(n) => format!("s{}", n),
            V::N => "n".into(),
        }
    }
    fn cypher(&self) -> String {
        match self {
            V::I(i) => format!("{}", i),
            V::F(i) => format!("{}.0", i),
            // tags >= 1000 are strings that *look like* the integer tag-1000 ('1' vs 1)
            V::S(n) if *n >= 1000 => format!("'{}'", n - 1000),
            V::S(n) => format!("'t{}'", n),
            V::N => "null".into(),
        }
    }
    fn pv(&self) -> PropertyValue {
        match self {
            V::I(i) => PropertyValue::Integer(*i),
            V::F(i) => PropertyValue::Float(*i as f64),
            V::S(n) if *n >= 1000 => PropertyValue::String(format!("{}", n - 1000)),
            V::S(n) => PropertyValue::String(format!("t{}", n)),
            V::N => PropertyValue::Null,
        }
    }
    fn parse(s: &str) -> Option<V> {
        if s == "n" {
            return Some(V::N);
        }
        let (k, b) = s.split_at(1);
        match k {
            "i" => b.parse().ok().map(V::I),
            "f" => b.parse().ok().map(V::F),
            "s" => b.parse().ok().map(V::S),
            _ => None,
        }
    }
}

#[derive(Clone, Debug)]
enum Op {
    Cons(u8, u8),
    Create(Vec<u8>, Vec<(u8, V)>),
    Set(usize, u8, V),
    /// the same write spelled `SET n += {key: value}` (the whole-entity path of the SET operator)
    SetMap(usize, u8, V),
    Remove(usize, u8),
    Delete(usize),
    AddL(usize, u8),
    RemL(usize, u8),
    /// a statement that must leave constraints alone: 0 = DROP INDEX ON :L(k), 1 = CREATE INDEX ON :L(k),
    /// 2 = DROP INDEX ON :M(k), 3 = DROP INDEX ON :L(j)
    Noise(u8),
}

#[derive(Clone, Debug)]
struct Seed {
    labels: Vec<u8>,
    props: Vec<(u8, V)>,
    stub: bool,
}

#[derive(Clone, Debug)]
struct Case {
    pop: Vec<Seed>,
    ops: Vec<Op>,
}

const LABELS: [&str; 2] = ["L", "M"];
const KEYS: [&str; 2] = ["k", "j"];

fn labels_txt(l: &[u8]) -> String {
    if l.is_empty() {
        "_".into()
    } else {
        l.iter().map(|x| x.to_string()).collect()
    }
}
fn props_txt(p: &[(u8, V)]) -> String {
    if p.is_empty() {
        "_".into()
    } else {
        p.iter().map(|(k, v)| format!("{}={}", k, v.txt())).collect::<Vec<_>>().join("+")
    }
}
fn op_txt(op: &Op) -> String {
    match op {
        Op::Cons(l, k) => format!("c:{}.{}", l, k),
        Op::Create(ls, ps) => format!("n:{}:{}", labels_txt(ls), props_txt(ps)),
        Op::Set(h, k, v) => format!("s:{}.{}.{}", h, k, v.txt()),
        Op::SetMap(h, k, v) => format!("m:{}.{}.{}", h, k, v.txt()),
        Op::Remove(h, k) => format!("r:{}.{}", h, k),
        Op::Delete(h) => format!("d:{}", h),
        Op::AddL(h, l) => format!("a:{}.{}", h, l),
        Op::RemL(h, l) => format!("u:{}.{}", h, l),
        Op::Noise(t) => format!("z:{}", t),
    }
}
fn op_kind(op: &Op) -> &'static str {
    match op {
        Op::Cons(..) => "constraint",
        Op::Create(..) => "create",
        Op::Set(..) => "set",
        Op::SetMap(..) => "set-map",
        Op::Remove(..) => "remove",
        Op::Delete(..) => "delete",
        Op::AddL(..) => "addlabel",
        Op::RemL(..) => "removelabel",
        Op::Noise(..) => "index-ddl",
    }
}
fn render(c: &Case) -> (String, String) {
    let pop = if c.pop.is_empty() {
        "-".to_string()
    } else {
        c.pop
            .iter()
            .map(|s| format!("{}:{}:{}", labels_txt(&s.labels), props_txt(&s.props), if s.stub { 1 } else { 0 }))
            .collect::<Vec<_>>()
            .join(";")
    };
    let ops = c.ops.iter().map(op_txt).collect::<Vec<_>>().join(";");
    (pop, ops)
}

fn parse_labels(s: &str) -> Option<Vec<u8>> {
    if s == "_" {
        return Some(vec![]);
    }
    s.chars().map(|c| c.to_digit(10).map(|d| d as u8)).collect()
}
fn parse_props(s: &str) -> Option<Vec<(u8, V)>> {
    if s == "_" {
        return Some(vec![]);
    }
    s.split('+')
        .map(|kv| {
            let (k, v) = kv.split_once('=')?;
            Some((k.parse().ok()?, V::parse(v)?))
        })
        .collect()
}
fn parse_op(s: &str) -> Option<Op> {
    let f: Vec<&str> = s.split(':').collect();
    let dots = |x: &str| -> Vec<String> { x.split('.').map(|y| y.to_string()).collect() };
    match f.as_slice() {
        ["c", a] => {
            let d = dots(a);
            Some(Op::Cons(d.first()?.parse().ok()?, d.get(1)?.parse().ok()?))
        }
        ["n", ls, ps] => Some(Op::Create(parse_labels(ls)?, parse_props(ps)?)),
        ["s", a] => {
            let d = dots(a);
            Some(Op::Set(d.first()?.parse().ok()?, d.get(1)?.parse().ok()?, V::parse(d.get(2)?)?))
        }
        ["m", a] => {
            let d = dots(a);
            Some(Op::SetMap(d.first()?.parse().ok()?, d.get(1)?.parse().ok()?, V::parse(d.get(2)?)?))
        }
        ["r", a] => {
            let d = dots(a);
            Some(Op::Remove(d.first()?.parse().ok()?, d.get(1)?.parse().ok()?))
        }
        ["d", h] => Some(Op::Delete(h.parse().ok()?)),
        ["a", a] => {
            let d = dots(a);
            Some(Op::AddL(d.first()?.parse().ok()?, d.get(1)?.parse().ok()?))
        }
        ["u", a] => {
            let d = dots(a);
            Some(Op::RemL(d.first()?.parse().ok()?, d.get(1)?.parse().ok()?))
        }
        ["z", t] => Some(Op::Noise(t.parse().ok()?)),
        _ => None,
    }
}
fn parse_case(pop: &str, ops: &str) -> Option<Case> {
    let mut p = vec![];
    if pop != "-" {
        for s in pop.split(';') {
            let f: Vec<&str> = s.split(':').collect();
            if f.len() != 3 {
                return None;
            }
            p.push(Seed { labels: parse_labels(f[0])?, props: parse_props(f[1])?, stub: f[2] == "1" });
        }
    }
    let o: Option<Vec<Op>> = ops.split(';').map(parse_op).collect();
    Some(Case { pop: p, ops: o? })
}

fn labels_cypher(ls: &[u8]) -> String {
    ls.iter().map(|l| format!(":{}", LABELS[*l as usize])).collect()
}
fn create_cypher(h: usize, ls: &[u8], ps: &[(u8, V)]) -> String {
    let mut items = vec![format!("h: {}", h)];
    for (k, v) in ps {
        items.push(format!("{}: {}", KEYS[*k as usize], v.cypher()));
    }
    format!("CREATE ({} {{{}}})", labels_cypher(ls), items.join(", "))
}

/// one observed node: handle, labels, (key, value) with nulls dropped
#[derive(Clone, Debug, PartialEq)]
struct ONode {
    h: usize,
    labels: Vec<u8>,
    props: Vec<(u8, String)>,
}
#[derive(Clone, Debug)]
struct Obs {
    ok: String, // "1", "0" or an error class
    nodes: Vec<ONode>,
    cons: Vec<(u8, u8)>,
    next: usize,
}
impl Obs {
    fn txt(&self) -> String {
        let nodes = if self.nodes.is_empty() {
            "-".to_string()
        } else {
            self.nodes
                .iter()
                .map(|n| {
                    format!(
                        "{}:{}:{}",
                        n.h,
                        labels_txt(&n.labels),
                        if n.props.is_empty() {
                            "_".to_string()
                        } else {
                            n.props.iter().map(|(k, v)| format!("{}={}", k, v)).collect::<Vec<_>>().join("+")
                        }
                    )
                })
                .collect::<Vec<_>>()
                .join(",")
        };
        let cons = if self.cons.is_empty() {
            "-".to_string()
        } else {
            self.cons.iter().map(|(l, k)| format!("{}.{}", l, k)).collect::<Vec<_>>().join("+")
        };
        format!("{}|{}|{}|{}", self.ok, nodes, cons, self.next)
    }
}

fn pv_txt(p: &PropertyValue) -> Option<String> {
    match p {
        PropertyValue::Null => None,
        PropertyValue::Integer(i) => Some(format!("i{}", i)),
        PropertyValue::Float(f) if f.fract() == 0.0 && f.abs() < 1e15 => Some(format!("f{}", *f as i64)),
        PropertyValue::String(s) => match (s.parse::<u32>().ok(), s.strip_prefix('t').and_then(|x| x.parse::<u32>().ok())) {
            (Some(i), _) => Some(format!("s{}", 1000 + i)),
            (_, Some(n)) => Some(format!("s{}", n)),
            _ => Some(format!("?{:?}", s)),
        },
        other => Some(format!("?{:?}", other)),
    }
}

fn observe(eng: &QueryEngine, store: &GraphStore, ok: &str, next: usize) -> Obs {
    let mut nodes = vec![];
    match eng.execute("MATCH (n) RETURN n.h, labels(n), n.k, n.j", store) {
        Ok(b) => {
            for rec in &b.records {
                let get = |c: &str| -> PropertyValue {
                    match rec.get(c) {
                        Some(Value::Property(p)) => p.clone(),
                        _ => PropertyValue::Null,
                    }
                };
                let h = match get("n.h") {
                    PropertyValue::Integer(i) => i as usize,
                    _ => usize::MAX,
                };
                let mut labels = vec![];
                if let PropertyValue::Array(a) = get("labels(n)") {
                    for l in a {
                        if let PropertyValue::String(s) = l {
                            labels.push(LABELS.iter().position(|x| *x == s).map(|x| x as u8).unwrap_or(9));
                        }
                    }
                }
                labels.sort();
                let mut props = vec![];
                for (i, k) in ["n.k", "n.j"].iter().enumerate() {
                    if let Some(t) = pv_txt(&get(k)) {
                        props.push((i as u8, t));
                    }
                }
                nodes.push(ONode { h, labels, props });
            }
        }
        Err(e) => {
            return Obs { ok: format!("E-observe:{}", e).replace([' ', '|', ';'], "_"), nodes, cons: vec![], next };
        }
    }
    nodes.sort_by_key(|n| n.h);
    let mut cons: Vec<(u8, u8)> = store
        .property_index
        .list_constraints()
        .iter()
        .map(|(l, k)| {
            (
                LABELS.iter().position(|x| *x == l.as_str()).map(|x| x as u8).unwrap_or(9),
                KEYS.iter().position(|x| *x == k.as_str()).map(|x| x as u8).unwrap_or(9),
            )
        })
        .collect();
    cons.sort();
    Obs { ok: ok.to_string(), nodes, cons, next }
}

/// run one case on the real engine: the initial observation, then one per statement
fn run_real(c: &Case) -> Vec<Obs> {
    let eng = QueryEngine::new();
    let mut store = GraphStore::new();
    let mut next = 0usize;
    for s in &c.pop {
        if s.stub {
            // bulk path: values live in the column store only
            let label = LABELS[*s.labels.first().unwrap_or(&0) as usize];
            let id = store.create_node_stub(label);
            store.set_column_property(id, "h", PropertyValue::Integer(next as i64));
            for (k, v) in &s.props {
                if *v != V::N {
                    store.set_column_property(id, KEYS[*k as usize], v.pv());
                }
            }
        } else {
            let q = create_cypher(next, &s.labels, &s.props);
            eng.execute_mut(&q, &mut store, "default").expect("seed create");
        }
        next += 1;
    }
    let mut out = vec![observe(&eng, &store, "1", next)];
    for op in &c.ops {
        let q = match op {
            Op::Cons(l, k) => format!(
                "CREATE CONSTRAINT FOR (n:{}) REQUIRE n.{} IS UNIQUE",
                LABELS[*l as usize], KEYS[*k as usize]
            ),
            Op::Create(ls, ps) => {
                let q = create_cypher(next, ls, ps);
                next += 1;
                q
            }
            Op::Set(h, k, v) => format!("MATCH (n {{h: {}}}) SET n.{} = {}", h, KEYS[*k as usize], v.cypher()),
            Op::SetMap(h, k, v) => format!("MATCH (n {{h: {}}}) SET n += {{{}: {}}}", h, KEYS[*k as usize], v.cypher()),
            Op::Remove(h, k) => format!("MATCH (n {{h: {}}}) REMOVE n.{}", h, KEYS[*k as usize]),
            Op::Delete(h) => format!("MATCH (n {{h: {}}}) DELETE n", h),
            Op::AddL(h, l) => format!("MATCH (n {{h: {}}}) SET n:{}", h, LABELS[*l as usize]),
            Op::RemL(h, l) => format!("MATCH (n {{h: {}}}) REMOVE n:{}", h, LABELS[*l as usize]),
            Op::Noise(0) => "DROP INDEX ON :L(k)".to_string(),
            Op::Noise(1) => "CREATE INDEX ON :L(k)".to_string(),
            Op::Noise(2) => "DROP INDEX ON :M(k)".to_string(),
            Op::Noise(_) => "DROP INDEX ON :L(j)".to_string(),
        };
        let r = std::panic::catch_unwind(std::panic::AssertUnwindSafe(|| {
            eng.execute_mut(&q, &mut store, "default").map(|_| ()).map_err(|e| e.to_string())
        }));
        let ok = match r {
            // index DDL may legitimately fail (DROP INDEX of an index that does not exist); the
            // property is about what it does *not* do to the constraints, which the observation shows
            Ok(_) if matches!(op, Op::Noise(_)) => "1".to_string(),
            Ok(Ok(())) => "1".to_string(),
            Ok(Err(e)) => {
                if e.contains("onstraint") {
                    "0".to_string()
                } else {
                    format!("E:{}", e).replace([' ', '|', ';'], "_")
                }
            }
            Err(_) => "E:panic".to_string(),
        };
        out.push(observe(&eng, &store, &ok, next));
    }
    out
}

/// Appendix B: a value is released (changed / removed / deleted / unlabelled) by a node under
/// a declared constraint and later taken (by an accepted write) under that constraint
fn nontrivial(obs: &[Obs]) -> bool {
    let mut released: HashSet<(u8, u8, String)> = HashSet::new();
    let holds = |o: &Obs, l: u8, k: u8| -> Vec<(usize, String)> {
        o.nodes
            .iter()
            .filter(|n| n.labels.contains(&l))
            .filter_map(|n| n.props.iter().find(|(kk, _)| *kk == k).map(|(_, v)| (n.h, v.clone())))
            .collect()
    };
    for w in obs.windows(2) {
        let (pre, post) = (&w[0], &w[1]);
        for (l, k) in &pre.cons {
            let a = holds(pre, *l, *k);
            let b = holds(post, *l, *k);
            for (h, v) in &b {
                if !a.contains(&(*h, v.clone())) && released.contains(&(*l, *k, v.clone())) {
                    return true;
                }
            }
            for (h, v) in &a {
                if !b.contains(&(*h, v.clone())) {
                    released.insert((*l, *k, v.clone()));
                }
            }
        }
    }
    false
}

/// exhaustive histories by DFS; a handle is addressed only once it has been handed out
fn exhaustive(
    max_len: usize,
    max_handles: usize,
    letters: &dyn Fn(usize) -> Vec<Op>,
    pop: &[Seed],
    prefix: &[Op],
    out: &mut Vec<Case>,
) {
    fn go(
        cur: &mut Vec<Op>,
        created: usize,
        max_len: usize,
        max_handles: usize,
        letters: &dyn Fn(usize) -> Vec<Op>,
        pop: &[Seed],
        plen: usize,
        out: &mut Vec<Case>,
    ) {
        if cur.len() > plen {
            out.push(Case { pop: pop.to_vec(), ops: cur.clone() });
        }
        if cur.len() == max_len + plen {
            return;
        }
        for op in letters(created.min(max_handles)) {
            let c2 = created + matches!(op, Op::Create(..)) as usize;
            cur.push(op);
            go(cur, c2, max_len, max_handles, letters, pop, plen, out);
            cur.pop();
        }
    }
    let created = pop.len() + prefix.iter().filter(|o| matches!(o, Op::Create(..))).count();
    go(&mut prefix.to_vec(), created, max_len, max_handles, letters, pop, prefix.len(), out);
}

fn letters_a(handles: usize) -> Vec<Op> {
    let vals = [V::I(1), V::F(1), V::N];
    let mut a = vec![Op::Cons(0, 0), Op::Create(vec![1], vec![(0, V::I(1))])];
    for v in &vals {
        a.push(Op::Create(vec![0], vec![(0, v.clone())]));
    }
    for h in 0..handles {
        for v in &vals {
            a.push(Op::Set(h, 0, v.clone()));
        }
        a.push(Op::Remove(h, 0));
        a.push(Op::Delete(h));
        a.push(Op::AddL(h, 0));
        a.push(Op::RemL(h, 0));
    }
    a
}

/// two constrained keys: refused multi-property CREATEs
fn letters_b(handles: usize) -> Vec<Op> {
    let mut a = vec![Op::Cons(0, 0), Op::Cons(0, 1)];
    for x in [1, 2] {
        for y in [1, 2] {
            a.push(Op::Create(vec![0], vec![(0, V::I(x)), (1, V::I(y))]));
        }
    }
    a.push(Op::Create(vec![0], vec![(0, V::I(9)), (1, V::I(9))]));
    for h in 0..handles {
        a.push(Op::Delete(h));
        a.push(Op::Set(h, 1, V::I(2)));
        a.push(Op::Set(h, 0, V::I(2)));
        a.push(Op::Remove(h, 1));
    }
    a
}

/// two constrained labels on one key, nodes carrying one or both of them
fn letters_d(handles: usize) -> Vec<Op> {
    let mut a = vec![
        Op::Create(vec![0, 1], vec![(0, V::I(1))]),
        Op::Create(vec![0], vec![(0, V::I(1))]),
        Op::Create(vec![1], vec![(0, V::I(1))]),
        Op::Create(vec![0, 1], vec![(0, V::I(2))]),
    ];
    for h in 0..handles {
        a.push(Op::Set(h, 0, V::I(1)));
        a.push(Op::Set(h, 0, V::I(2)));
        a.push(Op::Remove(h, 0));
        a.push(Op::AddL(h, 0));
        a.push(Op::AddL(h, 1));
        a.push(Op::RemL(h, 0));
        a.push(Op::RemL(h, 1));
        a.push(Op::Delete(h));
    }
    a
}

/// values of different types that print alike (1, 1.0, '1'), and index DDL on the constrained pair
fn letters_e(handles: usize) -> Vec<Op> {
    let mut a = vec![Op::Noise(0), Op::Noise(1)];
    for v in [V::I(1), V::S(1001), V::F(1)] {
        a.push(Op::Create(vec![0], vec![(0, v)]));
    }
    for h in 0..handles {
        a.push(Op::Set(h, 0, V::S(1001)));
        a.push(Op::Set(h, 0, V::I(1)));
        a.push(Op::Remove(h, 0));
        a.push(Op::Delete(h));
    }
    a
}

/// pre-existing data, then the constraint
fn letters_c(handles: usize) -> Vec<Op> {
    let mut a = vec![Op::Cons(0, 0), Op::Create(vec![0], vec![(0, V::I(1))]), Op::Create(vec![0], vec![(0, V::F(1))])];
    for h in 0..handles {
        a.push(Op::Set(h, 0, V::I(2)));
        a.push(Op::Set(h, 0, V::I(1)));
        a.push(Op::Delete(h));
        a.push(Op::RemL(h, 0));
        a.push(Op::AddL(h, 0));
    }
    a
}

fn random_case(rng: &mut Rng) -> Case {
    let vals = [V::I(1), V::I(2), V::F(1), V::F(2), V::S(0), V::S(1001), V::S(1002), V::N, V::I(1), V::I(2)];
    let label_sets: [&[u8]; 5] = [&[0], &[0], &[1], &[0, 1], &[]];
    let mut pop = vec![];
    for _ in 0..rng.usize(4) {
        let stub = rng.chance(1, 2);
        let labels: Vec<u8> = if stub { vec![rng.usize(2) as u8] } else { rng.pick(&label_sets).to_vec() };
        let mut props = vec![];
        for k in 0..2u8 {
            if rng.chance(2, 3) {
                props.push((k, rng.pick(&vals).clone()));
            }
        }
        pop.push(Seed { labels, props, stub });
    }
    let mut ops = vec![];
    let mut next = pop.len();
    let n = 6 + rng.usize(10);
    // the constraints are declared early (most of the time) so that the rest of the
    // history runs under them
    let early = rng.chance(3, 4);
    for i in 0..n {
        let r = if early && i < 2 { 0 } else { rng.usize(21) };
        let h = if next == 0 { 0 } else { rng.usize(next) };
        let k = rng.usize(2) as u8;
        let op = match r {
            0 | 1 => Op::Cons(rng.chance(1, 4) as u8, if early && i < 2 { i as u8 } else { k }),
            2..=7 => {
                let labels = rng.pick(&label_sets).to_vec();
                let mut props = vec![];
                for kk in 0..2u8 {
                    if rng.chance(3, 4) {
                        props.push((kk, rng.pick(&vals).clone()));
                    }
                }
                if rng.chance(1, 2) {
                    props.reverse();
                }
                next += 1;
                Op::Create(labels, props)
            }
            8..=12 => {
                let v = rng.pick(&vals).clone();
                if v != V::N && rng.chance(1, 4) {
                    Op::SetMap(h, k, v)
                } else {
                    Op::Set(h, k, v)
                }
            }
            13 | 14 => Op::Remove(h, k),
            15 | 16 => Op::Delete(h),
            17 | 18 => Op::AddL(h, rng.chance(1, 3) as u8),
            19 => Op::RemL(h, rng.chance(1, 3) as u8),
            _ => Op::Noise(rng.usize(4) as u8),
        };
        ops.push(op);
    }
    Case { pop, ops }
}

fn main() {
    let args = Args::parse();
    let known = Known::load(&args.known, "C11");
    let mut rep = Report::new(
        "C11",
        "histories of CREATE CONSTRAINT / CREATE / SET / REMOVE / DELETE / SET n:L / REMOVE n:L statements through \
         QueryEngine::execute_mut over pre-loaded (row or column-only) data; exhaustive small scopes, then PRNG \
         histories; non-trivial = under a declared constraint a value is released (overwritten, removed, nulled, \
         unlabelled or deleted) and later taken by an accepted write; distinct = distinct rendered case",
        &args.replays,
        args.seed,
    );
    let exe = args.driver_exe("drv_uniq");

    // 1. corpus / replay
    let mut cases: Vec<Case> = vec![];
    let mut files: Vec<std::path::PathBuf> = vec![];
    if let Some(r) = &args.replay {
        files.push(r.clone());
    } else if let Ok(rd) = std::fs::read_dir(args.corpus.join("C11")) {
        files = rd.filter_map(|e| e.ok().map(|e| e.path())).collect();
        files.sort();
    }
    let mut n_corpus = 0;
    for f in &files {
        for line in std::fs::read_to_string(f).unwrap_or_default().lines() {
            let t: Vec<&str> = line.split_whitespace().collect();
            if t.len() == 3 && t[0] == "case" {
                if let Some(c) = parse_case(t[1], t[2]) {
                    cases.push(c);
                    n_corpus += 1;
                }
            }
        }
    }
    rep.count_n("corpus_cases", n_corpus);

    if args.replay.is_none() {
        // 2. exhaustive small scopes
        let (la, lb, lc) = if args.thorough() { (4, 4, 4) } else { (4, 4, 3) };
        let (ld, le) = if args.thorough() { (4, 4) } else { (3, 4) };
        exhaustive(la, 2, &letters_a, &[], &[], &mut cases);
        exhaustive(lb, 2, &letters_b, &[], &[], &mut cases);
        // the constraints are declared up front so that short histories run under them, and a
        // bystander node exists so that a stale entry shows even when the freed id is recycled
        let bystander = Op::Create(vec![0, 1], vec![(0, V::I(7))]);
        exhaustive(ld, 2, &letters_d, &[], &[Op::Cons(0, 0), Op::Cons(1, 0), bystander.clone()], &mut cases);
        exhaustive(le, 2, &letters_e, &[], &[Op::Cons(0, 0), bystander], &mut cases);
        let seeds = [
            Seed { labels: vec![0], props: vec![(0, V::I(1))], stub: true },
            Seed { labels: vec![0], props: vec![(0, V::I(1))], stub: false },
            Seed { labels: vec![0], props: vec![(0, V::F(1))], stub: true },
            Seed { labels: vec![1], props: vec![(0, V::I(1))], stub: true },
        ];
        for a in &seeds {
            exhaustive(lc, 2, &letters_c, &[a.clone()], &[], &mut cases);
            for b in &seeds {
                exhaustive(lc, 2, &letters_c, &[a.clone(), b.clone()], &[], &mut cases);
            }
        }
        rep.exhaustive = true;
        rep.exhaustive_note = format!(
            "all histories (handles addressed only once handed out) of length <= {} over one constrained key, values 1 / 1.0 / null, \
             labels L/M, 2 handles (19 letters); of length <= {} over two constrained keys with multi-property CREATE (15 letters); \
             of length <= {} over every 1- and 2-node pre-loaded population from 4 seeds (row / column-only) (13 letters); \
             of length <= {} after declaring constraints on two labels, with nodes carrying one or both (20 letters); of length <= {} after \
             declaring the constraint, over values 1 / 1.0 / '1' with DROP INDEX / CREATE INDEX on the constrained pair (13 letters); plus PRNG histories (not exhaustive)",
            la, lb, lc, ld, le
        );
        // 3. random histories
        // `fork`: Rng::new(s) and Rng::new(s+1) are the same SplitMix stream shifted by one draw
        let mut rng = Rng::new(args.seed).fork();
        let n_rand = if args.thorough() { 150_000 } else { 30_000 };
        for _ in 0..n_rand {
            cases.push(random_case(&mut rng));
        }
    }

    let mut first_break: Option<String> = None;
    let threads = 12usize;
    for chunk in cases.chunks(120_000) {
        // real engine, in parallel
        let mut real: Vec<Vec<Obs>> = Vec::with_capacity(chunk.len());
        let per = chunk.len().div_ceil(threads).max(1);
        std::thread::scope(|sc| {
            let hs: Vec<_> = chunk
                .chunks(per)
                .map(|part| sc.spawn(move || part.iter().map(run_real).collect::<Vec<_>>()))
                .collect();
            for h in hs {
                real.extend(h.join().expect("worker"));
            }
        });
        let rendered: Vec<(String, String)> = chunk.iter().map(render).collect();
        let real_txt: Vec<String> =
            real.iter().map(|os| os.iter().map(|o| o.txt()).collect::<Vec<_>>().join(";")).collect();
        let mut lines = Vec::with_capacity(chunk.len() * 2);
        for (k, (pop, ops)) in rendered.iter().enumerate() {
            // for the model `SET n += {k: v}` (m:) is the write `SET n.k = v` (s:)
            let ops = format!(";{}", ops).replace(";m:", ";s:");
            let ops = &ops[1..];
            lines.push(format!("run {} {}", pop, ops));
            lines.push(format!("spec {} {}", ops, real_txt[k]));
        }
        let replies = driver::par_batch(&exe, &lines, 12);
        for (k, c) in chunk.iter().enumerate() {
            let m = &replies[2 * k];
            let s = &replies[2 * k + 1];
            let canon = format!("{} {}", rendered[k].0, rendered[k].1);
            let nt = nontrivial(&real[k]);
            rep.case(&canon, nt);
            for (i, op) in c.ops.iter().enumerate() {
                rep.count(&format!("op:{}", op_kind(op)));
                if real[k][i + 1].ok != "1" {
                    rep.count(&format!("refused:{}", op_kind(op)));
                }
            }
            if c.pop.iter().any(|s| s.stub) {
                rep.count("case:column-only-seed");
            }
            if nt && rep.samples.len() < 3 {
                rep.sample(json!({"case": canon, "impl_obs": real_txt[k]}));
            }
            let body = format!("case {}\nimpl  {}\nmodel {}\nspec  {}", canon, real_txt[k], m, s);
            let unexpected = real[k].iter().find(|o| o.ok.starts_with('E'));
            if let Some(o) = unexpected {
                rep.count("unexpected_error");
                rep.spec_violation(&known, "unexpected-error", &format!("statement failed with {} on `{}`", o.ok, canon), &body);
            } else if s != "ok" {
                // S ⊭ R: classify by the statement at the violating step and the direction
                let f: Vec<&str> = s.split_whitespace().collect();
                let sig = match (f.first(), f.get(1).and_then(|x| x.parse::<usize>().ok()), f.get(2)) {
                    (Some(&"viol"), Some(i), Some(e)) if i < c.ops.len() => {
                        let got = &real[k][i + 1].ok;
                        let dir = if *e == "1" && got == "0" {
                            "wrongly-refused"
                        } else if *e == "0" && got == "1" {
                            "wrongly-accepted"
                        } else {
                            "wrong-effect"
                        };
                        format!("{}-{}", dir, op_kind(&c.ops[i]))
                    }
                    _ => "driver-rejected".to_string(),
                };
                rep.count(&format!("spec_violation:{}", sig));
                rep.spec_violation(&known, &sig, &format!("specification violated ({}) on `{}`", s, canon), &body);
            } else if *m != format!("ok {}", real_txt[k]) {
                rep.count("model_mismatch");
                if first_break.is_none() {
                    first_break = Some(body);
                }
            }
        }
    }
    if let Some(body) = first_break {
        if rep.spec_violations.is_empty() {
            rep.correspondence_break(
                "SgModel.Uniq.step = QueryEngine::execute_mut on constraint/CREATE/SET/REMOVE/DELETE/label statements (verdict + observation)",
                "model and implementation observations differ but the specification holds on all explored cases",
                &body,
            );
        }
    }
    if let Some(c) = cases.last() {
        let r = render(c);
        rep.sample(json!({"case": format!("{} {}", r.0, r.1)}));
    }
    rep.write(&args.out);
}
