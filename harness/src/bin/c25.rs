//! C25 — the Cypher parser never panics and never silently changes numbers.
//!
//! (a) numeral fidelity: grammar-generated valid statements with a boundary / random numeral
//!     in every numeral site (variable-length lower/upper/exact bound, SKIP and LIMIT in every
//!     statement shape, integer literals in several contexts, float literals).  The real
//!     `parse_query` runs under `catch_unwind`; the outcome at the site (`ok:<v>`, `absent`,
//!     `err`, `panic`) is compared with the Lean model (`drv_numeral site`) and the
//!     executable specification is evaluated on it (`drv_numeral spec`).
//! (b) panic-freedom on arbitrary strings (NOT a theorem): character-level mutants of valid
//!     statements through `parse_query` under `catch_unwind`; outcome must be Ok or Err.
use samyama::graph::{GraphStore, PropertyValue};
use samyama::query::ast::Query;
use samyama::query::executor::Value;
use samyama::query::{parse_query, MutQueryExecutor};
use serde_json::json;
use std::panic::{catch_unwind, AssertUnwindSafe};
use std::sync::{Arc, Mutex};
use vharness::{driver, Args, Known, Report, Rng};

#[derive(Clone, Copy, Debug, PartialEq)]
enum Site {
    Min,
    Max,
    Exact,
    Skip,
    Limit,
    Int,
    Float,
}

impl Site {
    fn model_name(self) -> &'static str {
        match self {
            Site::Min => "min",
            Site::Max => "max",
            Site::Exact => "exact",
            Site::Skip => "skip",
            Site::Limit => "limit",
            Site::Int => "int",
            Site::Float => "float",
        }
    }
    fn group(self) -> &'static str {
        match self {
            Site::Min => "varlen-min",
            Site::Max => "varlen-max",
            Site::Exact => "varlen-exact",
            Site::Skip | Site::Limit => "skip-limit",
            Site::Int => "int-literal",
            Site::Float => "float-literal",
        }
    }
}

#[derive(Clone, Copy)]
enum Where {
    Top,       // query.skip / query.limit
    WithInner, // query.with_clause.skip / limit
    Union,     // query.union_queries[0].0.skip / limit
}

struct Tpl {
    name: &'static str,
    site: Site,
    /// `{}` is replaced by the numeral text
    text: &'static str,
    at: Where,
}

const TPLS: &[Tpl] = &[
    Tpl { name: "min-open", site: Site::Min, text: "MATCH (a)-[*{}..]->(b) RETURN a", at: Where::Top },
    Tpl { name: "min-closed", site: Site::Min, text: "MATCH (a)-[*{}..3]->(b) RETURN a", at: Where::Top },
    Tpl { name: "min-typed", site: Site::Min, text: "MATCH (a)-[r:T*{}..]->(b) RETURN a", at: Where::Top },
    Tpl { name: "min-spaced", site: Site::Min, text: "MATCH (a)<-[*{} .. 3]-(b) RETURN a", at: Where::Top },
    Tpl { name: "max-open", site: Site::Max, text: "MATCH (a)-[*..{}]->(b) RETURN a", at: Where::Top },
    Tpl { name: "max-closed", site: Site::Max, text: "MATCH (a)-[*1..{}]->(b) RETURN a", at: Where::Top },
    Tpl { name: "max-spaced", site: Site::Max, text: "MATCH (a)-[:T*1 .. {}]-(b) RETURN a", at: Where::Top },
    Tpl { name: "exact", site: Site::Exact, text: "MATCH (a)-[*{}]->(b) RETURN a", at: Where::Top },
    Tpl { name: "exact-typed", site: Site::Exact, text: "MATCH (a)-[r:T|U*{}]->(b) RETURN a", at: Where::Top },
    Tpl { name: "exact-props", site: Site::Exact, text: "MATCH (a)-[*{} {k: 1}]->(b) RETURN a", at: Where::Top },
    // the same sites in other places of a statement
    Tpl { name: "min-second-segment", site: Site::Min, text: "MATCH (a)-[:T]->(b)-[*{}..3]->(c) RETURN a", at: Where::Top },
    Tpl { name: "min-undirected", site: Site::Min, text: "MATCH (a)-[*{}..]-(b) RETURN a", at: Where::Top },
    Tpl { name: "min-second-match", site: Site::Min, text: "MATCH (x) MATCH (a)-[*{}..3]->(b) RETURN a", at: Where::Top },
    Tpl { name: "max-optional", site: Site::Max, text: "OPTIONAL MATCH (a)-[*..{}]->(b) RETURN a", at: Where::Top },
    Tpl { name: "max-left", site: Site::Max, text: "MATCH (a)<-[r:T|U*2..{}]-(b) RETURN a", at: Where::Top },
    Tpl { name: "max-second-path", site: Site::Max, text: "MATCH (x)-->(y), (a)-[*1..{}]->(b) RETURN a", at: Where::Top },
    Tpl { name: "max-shortest", site: Site::Max, text: "MATCH p = shortestPath((a)-[*..{}]-(b)) RETURN p", at: Where::Top },
    Tpl { name: "exact-second-segment", site: Site::Exact, text: "MATCH (a)-->(b)<-[*{}]-(c) RETURN a", at: Where::Top },
    Tpl { name: "exact-both-bounds", site: Site::Exact, text: "MATCH (a)-[*{}..{}]->(b) RETURN a", at: Where::Top },
    Tpl { name: "exact-lowercase", site: Site::Exact, text: "match (a)-[*{}]->(b) return a", at: Where::Top },
    Tpl { name: "exact-create-after", site: Site::Exact, text: "MATCH (a)-[*{}]->(b) CREATE (a)-[:N]->(b)", at: Where::Top },
    Tpl { name: "limit-after-skip", site: Site::Limit, text: "RETURN 1 AS x SKIP 1 LIMIT {}", at: Where::Top },
    Tpl { name: "limit-after-order", site: Site::Limit, text: "MATCH (n) RETURN n ORDER BY n.k DESC LIMIT {}", at: Where::Top },
    Tpl { name: "skip-after-order", site: Site::Skip, text: "MATCH (n) RETURN n.k AS k ORDER BY k SKIP {} LIMIT 3", at: Where::Top },
    Tpl { name: "skip-unwind", site: Site::Skip, text: "UNWIND [1,2] AS x RETURN x SKIP {}", at: Where::Top },
    Tpl { name: "limit-union-first", site: Site::Limit, text: "RETURN 1 AS x LIMIT {} UNION RETURN 2 AS x", at: Where::Top },
    Tpl { name: "skip-union", site: Site::Skip, text: "MATCH (n) RETURN n.k AS x UNION ALL MATCH (n) RETURN n.k AS x SKIP {}", at: Where::Union },
    Tpl { name: "limit-with-where", site: Site::Limit, text: "MATCH (n) WITH n ORDER BY n.k LIMIT {} WHERE n.k > 0 RETURN n", at: Where::WithInner },
    Tpl { name: "limit-with-skip", site: Site::Limit, text: "WITH 1 AS x SKIP 0 LIMIT {} RETURN x", at: Where::WithInner },
    Tpl { name: "limit-explain", site: Site::Limit, text: "EXPLAIN MATCH (n) RETURN n LIMIT {}", at: Where::Top },
    Tpl { name: "limit-semicolon", site: Site::Limit, text: "RETURN 1 AS x LIMIT {};", at: Where::Top },
    Tpl { name: "limit-lowercase", site: Site::Limit, text: "return 1 as x limit {}", at: Where::Top },
    Tpl { name: "limit-newline", site: Site::Limit, text: "RETURN 1 AS x\nLIMIT\n{}", at: Where::Top },
    Tpl { name: "limit-comment", site: Site::Limit, text: "RETURN 1 AS x LIMIT /* c */ {} // end", at: Where::Top },
    Tpl { name: "limit-distinct", site: Site::Limit, text: "MATCH (n) RETURN DISTINCT n.k AS k LIMIT {}", at: Where::Top },
    Tpl { name: "limit-call-where", site: Site::Limit, text: "CALL db.labels() YIELD label WHERE label <> 'x' RETURN label ORDER BY label LIMIT {}", at: Where::Top },
    Tpl { name: "limit-match-create", site: Site::Limit, text: "MATCH (n) CREATE (m:L) RETURN m LIMIT {}", at: Where::Top },
    Tpl { name: "limit-return", site: Site::Limit, text: "RETURN 1 AS x LIMIT {}", at: Where::Top },
    Tpl { name: "skip-return", site: Site::Skip, text: "RETURN 1 AS x SKIP {}", at: Where::Top },
    Tpl { name: "skip-return-limit", site: Site::Skip, text: "RETURN 1 AS x SKIP {} LIMIT 2", at: Where::Top },
    Tpl { name: "limit-with-return", site: Site::Limit, text: "WITH 1 AS x RETURN x LIMIT {}", at: Where::Top },
    Tpl { name: "skip-with-return", site: Site::Skip, text: "WITH 1 AS x RETURN x SKIP {}", at: Where::Top },
    Tpl { name: "limit-match", site: Site::Limit, text: "MATCH (n) RETURN n LIMIT {}", at: Where::Top },
    Tpl { name: "skip-match", site: Site::Skip, text: "MATCH (n) RETURN n SKIP {}", at: Where::Top },
    Tpl { name: "limit-unwind", site: Site::Limit, text: "UNWIND [1,2] AS x RETURN x LIMIT {}", at: Where::Top },
    Tpl { name: "limit-call", site: Site::Limit, text: "CALL db.labels() YIELD label RETURN label LIMIT {}", at: Where::Top },
    Tpl { name: "skip-call", site: Site::Skip, text: "CALL db.labels() YIELD label RETURN label SKIP {}", at: Where::Top },
    Tpl { name: "limit-create", site: Site::Limit, text: "CREATE (n) RETURN n LIMIT {}", at: Where::Top },
    Tpl { name: "skip-create", site: Site::Skip, text: "CREATE (n) RETURN n SKIP {}", at: Where::Top },
    Tpl { name: "limit-pipeline", site: Site::Limit, text: "MATCH (n) WITH n CREATE (m) WITH m RETURN m LIMIT {}", at: Where::Top },
    Tpl { name: "skip-pipeline", site: Site::Skip, text: "MATCH (n) WITH n CREATE (m) WITH m RETURN m SKIP {}", at: Where::Top },
    Tpl { name: "limit-with-inner", site: Site::Limit, text: "WITH 1 AS x LIMIT {} RETURN x", at: Where::WithInner },
    Tpl { name: "skip-with-inner", site: Site::Skip, text: "MATCH (n) WITH n SKIP {} RETURN n", at: Where::WithInner },
    Tpl { name: "limit-union", site: Site::Limit, text: "RETURN 1 AS x UNION RETURN 2 AS x LIMIT {}", at: Where::Union },
    Tpl { name: "int-return", site: Site::Int, text: "RETURN {} AS x", at: Where::Top },
    Tpl { name: "int-list", site: Site::Int, text: "RETURN [{}, 1][0] AS x", at: Where::Top },
    Tpl { name: "int-map", site: Site::Int, text: "WITH {k: {}} AS m RETURN m.k AS x", at: Where::Top },
    Tpl { name: "int-unwind", site: Site::Int, text: "UNWIND [{}] AS v RETURN v AS x", at: Where::Top },
    Tpl { name: "int-create-prop", site: Site::Int, text: "CREATE (n:L {k: {}}) RETURN n.k AS x", at: Where::Top },
    Tpl { name: "int-binary", site: Site::Int, text: "RETURN 0 + {} AS x", at: Where::Top },
    Tpl { name: "int-paren", site: Site::Int, text: "RETURN ({}) AS x", at: Where::Top },
    Tpl { name: "int-first-operand", site: Site::Int, text: "RETURN {} + 0 AS x", at: Where::Top },
    Tpl { name: "int-case", site: Site::Int, text: "RETURN CASE WHEN true THEN {} ELSE 0 END AS x", at: Where::Top },
    Tpl { name: "int-coalesce", site: Site::Int, text: "RETURN coalesce(null, {}) AS x", at: Where::Top },
    Tpl { name: "int-comprehension", site: Site::Int, text: "RETURN [v IN [{}] | v][0] AS x", at: Where::Top },
    Tpl { name: "int-with", site: Site::Int, text: "WITH {} AS v RETURN v AS x", at: Where::Top },
    Tpl { name: "int-set", site: Site::Int, text: "CREATE (n:L) SET n.k = {} RETURN n.k AS x", at: Where::Top },
    Tpl { name: "int-merge-prop", site: Site::Int, text: "MERGE (n:L {k: {}}) RETURN n.k AS x", at: Where::Top },
    Tpl { name: "int-nested-map", site: Site::Int, text: "WITH {a: {b: [0, {}]}} AS m RETURN m.a.b[1] AS x", at: Where::Top },
    Tpl { name: "int-lowercase", site: Site::Int, text: "return {} as x", at: Where::Top },
    Tpl { name: "int-union", site: Site::Int, text: "RETURN {} AS x UNION RETURN {} AS x", at: Where::Top },
    Tpl { name: "float-binary", site: Site::Float, text: "RETURN 0.0 + {} AS x", at: Where::Top },
    Tpl { name: "float-map", site: Site::Float, text: "WITH {k: {}} AS m RETURN m.k AS x", at: Where::Top },
    Tpl { name: "float-set", site: Site::Float, text: "CREATE (n:L) SET n.k = {} RETURN n.k AS x", at: Where::Top },
    Tpl { name: "float-unwind", site: Site::Float, text: "UNWIND [{}] AS v RETURN v AS x", at: Where::Top },
    Tpl { name: "float-case", site: Site::Float, text: "RETURN CASE WHEN true THEN {} ELSE 0.0 END AS x", at: Where::Top },
    Tpl { name: "float-return", site: Site::Float, text: "RETURN {} AS x", at: Where::Top },
    Tpl { name: "float-list", site: Site::Float, text: "RETURN [{}, 1.5][0] AS x", at: Where::Top },
    Tpl { name: "float-create-prop", site: Site::Float, text: "CREATE (n:L {k: {}}) RETURN n.k AS x", at: Where::Top },
];

fn render(t: &Tpl, num: &str) -> String {
    t.text.replace("\\n", "\n").replace("{}", num)
}

/// the outcome at the site, in the driver's vocabulary
fn observe(t: &Tpl, q: &str) -> String {
    let r = catch_unwind(AssertUnwindSafe(|| parse_query(q)));
    let ast: Query = match r {
        Err(_) => return "panic".into(),
        Ok(Err(_)) => return "err".into(),
        Ok(Ok(a)) => a,
    };
    let opt = |o: Option<usize>| match o {
        Some(v) => format!("ok:{}", v),
        None => "absent".into(),
    };
    match t.site {
        Site::Min | Site::Max | Site::Exact => {
            let len = ast
                .match_clauses
                .iter()
                .flat_map(|m| m.pattern.paths.iter())
                .flat_map(|p| p.segments.iter())
                .find_map(|s| s.edge.length.clone());
            match (t.site, len) {
                (Site::Min, Some(l)) => opt(l.min),
                (Site::Max, Some(l)) => opt(l.max),
                (Site::Exact, Some(l)) => {
                    if l.min == l.max {
                        opt(l.min)
                    } else {
                        format!("shape:{:?}", l)
                    }
                }
                _ => "shape:no-length".into(),
            }
        }
        Site::Skip | Site::Limit => {
            let (s, l) = match t.at {
                Where::Top => (ast.skip, ast.limit),
                Where::WithInner => match &ast.with_clause {
                    Some(w) => (w.skip, w.limit),
                    None => return "shape:no-with".into(),
                },
                Where::Union => match ast.union_queries.first() {
                    Some((u, _)) => (u.skip, u.limit),
                    None => return "shape:no-union".into(),
                },
            };
            opt(if t.site == Site::Skip { s } else { l })
        }
        Site::Int | Site::Float => {
            // what the literal means to the engine: execute on a scratch store
            let r = catch_unwind(AssertUnwindSafe(|| {
                let mut store = GraphStore::new();
                MutQueryExecutor::new(&mut store, "default".to_string()).execute(&ast)
            }));
            match r {
                Err(_) => "exec-panic".into(),
                Ok(Err(e)) => format!("exec-error:{}", e.to_string().replace(' ', "_")),
                Ok(Ok(b)) => match b.records.first().and_then(|r| r.get("x")) {
                    Some(Value::Property(PropertyValue::Integer(v))) if t.site == Site::Int => format!("ok:{}", v),
                    Some(Value::Property(PropertyValue::Float(f))) if t.site == Site::Float => {
                        if f.is_finite() { "finite".into() } else { "inf".into() }
                    }
                    other => format!("shape:{:?}", other).replace(' ', "_"),
                },
            }
        }
    }
}

// ------------------------------------------------------------------ numerals

fn boundary_ints() -> Vec<String> {
    let mut v: Vec<String> = vec![];
    let pows: &[u32] = &[0, 1, 7, 8, 15, 16, 31, 32, 53, 62, 63, 64, 65, 126, 127, 128];
    for p in pows {
        // 2^p - 1, 2^p, 2^p + 1 as decimal strings (u128 is enough up to 2^127; 2^128 by hand)
        if *p < 128 {
            let x: u128 = 1u128 << p;
            v.push((x - 1).to_string());
            v.push(x.to_string());
            v.push((x.wrapping_add(1)).to_string());
            v.push(format!("0x{:x}", x - 1));
            v.push(format!("0x{:X}", x));
            v.push(format!("0o{:o}", x - 1));
            v.push(format!("0O{:o}", x));
        } else {
            v.push("340282366920938463463374607431768211455".into());
            v.push("340282366920938463463374607431768211456".into());
            v.push("0xffffffffffffffffffffffffffffffff".into());
            v.push("0x100000000000000000000000000000000".into());
        }
    }
    for s in [
        "0", "00", "007", "0000000000000000000000000000000000000000000012", "10", "99", "1000000000000000000000000000000",
        "99999999999999999999999", "0x0", "0x10", "0X1f", "0o17", "0o0", "0x00000000000000000000000000000000007",
        "9223372036854775807", "9223372036854775808", "18446744073709551615", "18446744073709551616",
        "170141183460469231731687303715884105727", "170141183460469231731687303715884105728",
    ] {
        v.push(s.to_string());
    }
    let mut out = vec![];
    for s in v {
        out.push(format!("-{}", s));
        out.push(s);
    }
    out.sort();
    out.dedup();
    out
}

fn random_int(rng: &mut Rng) -> String {
    let neg = rng.chance(1, 4);
    let radix = *rng.pick(&[10u32, 10, 10, 16, 8]);
    let max_len = if rng.chance(1, 5) { 45 } else { 22 };
    let len = 1 + rng.usize(max_len);
    let mut s = String::new();
    if neg {
        s.push('-');
    }
    match radix {
        16 => s.push_str(if rng.chance(1, 2) { "0x" } else { "0X" }),
        8 => s.push_str(if rng.chance(1, 2) { "0o" } else { "0O" }),
        _ => {}
    }
    for i in 0..len {
        let d = if i == 0 && rng.chance(1, 6) { 0 } else { rng.below(radix as u64) as u32 };
        let c = std::char::from_digit(d, radix).unwrap();
        s.push(if rng.chance(1, 2) { c.to_ascii_uppercase() } else { c });
    }
    s
}

const T_MINUS_1: &str = "179769313486231580793728971405303415079934132710037826936173778980444968292764750946649017977587207096330286416692887910946555547851940402630657488671505820681908902000708383676273854845817711531764475730270069855571366959622842914819860834936475292719074168444365510704342711559699508093042880177904174497791";
const T_EXACT: &str = "179769313486231580793728971405303415079934132710037826936173778980444968292764750946649017977587207096330286416692887910946555547851940402630657488671505820681908902000708383676273854845817711531764475730270069855571366959622842914819860834936475292719074168444365510704342711559699508093042880177904174497792";

fn boundary_floats() -> Vec<String> {
    let mut v: Vec<String> = [
        "0.0", "1.0", "1.5", ".5", "1e0", "1e308", "1e309", "1.0e-400", "1e-400", "1.7976931348623157e308", "1.7976931348623158e308",
        "1.7976931348623159e308", "1.797693134862315807e308", "1.797693134862315808e308", "17976931348623157e292", "17976931348623159e292",
        "0.17976931348623157e309", "0.17976931348623159e309", "179769313486231570000e288", "2e308", "9e999", "1E+308", "1E+309", "1e+0308",
        "0.0e999", "0e999", ".0e999", "4.9e-324", "2.4e-324", "123456789012345678901234567890.5", "0.000001e314", "0.000001e315",
        "1.0e0000000000000000000000308",
    ]
    .iter()
    .map(|s| s.to_string())
    .collect();
    v.push(format!("{}.0", T_MINUS_1));
    v.push(format!("{}.0", T_EXACT));
    v.push(format!("{}.5", T_MINUS_1));
    v.push(format!("0.{}e309", T_EXACT));
    v.push(format!("0.{}e309", T_MINUS_1));
    let mut out = vec![];
    for s in v {
        out.push(format!("-{}", s));
        out.push(s);
    }
    out
}

fn random_float(rng: &mut Rng) -> String {
    let digs = |rng: &mut Rng, n: usize| -> String { (0..n).map(|_| std::char::from_digit(rng.below(10) as u32, 10).unwrap()).collect() };
    let neg = if rng.chance(1, 4) { "-" } else { "" };
    let exp = |rng: &mut Rng| -> String {
        let e = if rng.chance(1, 2) { 290 + rng.usize(30) } else { rng.usize(400) };
        let sign = *rng.pick(&["", "+", "-"]);
        let sign = if e >= 290 && sign == "-" && rng.chance(1, 2) { "" } else { sign };
        format!("{}{}{}", if rng.chance(1, 2) { "e" } else { "E" }, sign, e)
    };
    match rng.usize(3) {
        0 => {
            let a = 1 + rng.usize(20);
            let b = 1 + rng.usize(20);
            let e = if rng.chance(2, 3) { exp(rng) } else { String::new() };
            format!("{}{}.{}{}", neg, digs(rng, a), digs(rng, b), e)
        }
        1 => {
            let a = 1 + rng.usize(20);
            format!("{}{}{}", neg, digs(rng, a), exp(rng))
        }
        _ => {
            let b = 1 + rng.usize(20);
            let e = if rng.chance(2, 3) { exp(rng) } else { String::new() };
            format!("{}.{}{}", neg, digs(rng, b), e)
        }
    }
}

/// (mantissa digits, exp10) of a float literal text (sign dropped)
fn float_parts(text: &str) -> (String, i64) {
    let t = text.trim_start_matches('-');
    let (m, e) = match t.find(|c| c == 'e' || c == 'E') {
        Some(i) => (&t[..i], t[i + 1..].parse::<i64>().unwrap_or(0)),
        None => (t, 0),
    };
    let (ip, fp) = match m.split_once('.') {
        Some((a, b)) => (a, b),
        None => (m, ""),
    };
    let mut digits = format!("{}{}", ip, fp);
    let trimmed = digits.trim_start_matches('0').to_string();
    digits = if trimmed.is_empty() { "0".into() } else { trimmed };
    (digits, e - fp.len() as i64)
}

// ------------------------------------------------------------------ mutation

const RICH: &[&str] = &[
    "MATCH (a:Person {name: 'Al', age: 30})-[r:KNOWS|LIKES*1..3 {w: 1.5}]->(b) WHERE a.age >= 18 AND NOT b.name STARTS WITH 'x' RETURN DISTINCT a.name AS n, count(*) ORDER BY n DESC SKIP 1 LIMIT 10",
    "UNWIND [1, 2.5, 'x', null, true, [1,2], {k: 0x1F}] AS v WITH v WHERE v IS NOT NULL RETURN CASE WHEN v = 1 THEN 'one' ELSE 'other' END AS c",
    "MATCH p = shortestPath((a)-[*..5]-(b)) RETURN [x IN nodes(p) WHERE x.k > 1 | x.k] AS ks, reduce(s = 0, y IN [1,2,3] | s + y) AS t",
    "MERGE (n:L {id: $id}) ON CREATE SET n.c = 1, n:New ON MATCH SET n.c = n.c + 1 RETURN n",
    "MATCH (n) WHERE EXISTS { MATCH (n)-[:T]->(m) WHERE m.k = 1 } AND n.k IN [1, 2, 3] AND all(x IN [1] WHERE x > 0) RETURN n.k[0..2], n:L",
    "CREATE (a:A {k: -1})-[:R {w: .5e-3}]->(b:B) WITH a, b SET a.k = b.k REMOVE b.k DETACH DELETE a",
    "CALL db.labels() YIELD label AS l WHERE l <> 'x' RETURN l ORDER BY l LIMIT 0o17",
    "EXPLAIN MATCH (a)-->(b)<--(c)--(d) RETURN * UNION ALL MATCH (a) RETURN *;",
    "FOREACH (x IN [1,2] | CREATE (:N {v: x}) SET x.k = 1)",
    "CREATE INDEX ON :Person(name, age)",
    "CREATE CONSTRAINT c1 IF NOT EXISTS FOR (n:P) REQUIRE n.id IS UNIQUE",
    "CREATE VECTOR INDEX vi FOR (n:Doc) ON (n.emb) OPTIONS {dimensions: 3, similarity: 'cosine'}",
    "CREATE HIERARCHY INDEX h ON ()-[:IS_A|PART_OF]->() MEASURE d.units AGGREGATE sum, max",
    "RETURN 'it\\'s \\u0041 \\n' + \"q\" AS s, -9223372036854775808 AS m, 1 // c\n + 2 /* d */ AS t",
    "MATCH (n:P) WITH n ORDER BY n.k SKIP 1 LIMIT 2 WHERE n.k <> 0 MATCH (n)-[*2]-(m) RETURN m.a.b.c, startNode(m).id, [(n)-->(q) | q.k]",
];

const FRAGS: &[&str] = &[
    "*", "..", "-", "0x", "0o", "99999999999999999999999", "[", "]", "(", ")", "{", "}", "'", "\"", "\\", "//", "/*", "*/", "$", ".", ",",
    ":", "|", "é", "\u{1F600}", "\u{0}", " ", "\n", "e", "E", "+", "=", "<", ">", "!", "NULL", "CASE", "WHEN", "END", "IN", "AS", "*1..",
    "LIMIT ", "SKIP ", "\\u", "\\uD800", "\\u00", "1e", ".5", "-[", "]->", "<-", "`", ";", "%", "^", "=~", "<>", "$p", "0x", "1..", "..1",
    "*-1", "*0x10", "COUNT(", "DISTINCT ", "NOT ", "IS NULL", "\u{a0}", "\t",
];

fn mutate(rng: &mut Rng, base: &str) -> String {
    let mut cs: Vec<char> = base.chars().collect();
    let n_ops = 1 + rng.usize(3);
    for _ in 0..n_ops {
        if cs.is_empty() {
            break;
        }
        let pos = rng.usize(cs.len());
        match rng.usize(5) {
            0 => {
                let k = (1 + rng.usize(3)).min(cs.len() - pos);
                cs.drain(pos..pos + k);
            }
            1 => {
                let k = (1 + rng.usize(8)).min(cs.len() - pos);
                let seg: Vec<char> = cs[pos..pos + k].to_vec();
                let times = 1 + rng.usize(2);
                for _ in 0..times {
                    for (i, c) in seg.iter().enumerate() {
                        cs.insert(pos + i, *c);
                    }
                }
            }
            2 => {
                let c = char::from_u32(32 + rng.below(95) as u32).unwrap();
                cs[pos] = c;
            }
            3 => {
                let f: Vec<char> = rng.pick(FRAGS).chars().collect();
                for (i, c) in f.iter().enumerate() {
                    cs.insert(pos + i, *c);
                }
            }
            _ => {
                // splice a piece of another statement
                let other: Vec<char> = rng.pick(RICH).chars().collect();
                let a = rng.usize(other.len());
                let k = (1 + rng.usize(12)).min(other.len() - a);
                for (i, c) in other[a..a + k].iter().enumerate() {
                    cs.insert(pos + i, *c);
                }
            }
        }
    }
    cs.into_iter().collect()
}

fn main() {
    let args = Args::parse();
    let known = Known::load(&args.known, "C25");
    let mut rep = Report::new(
        "C25",
        "(a) valid statements with a boundary/random numeral (decimal, hex, octal, signed, up to 45 digits; floats around the f64 overflow \
         threshold) in each numeral site x statement shape; (b) character-level mutants of valid statements; non-trivial = the numeral \
         does not fit the type of its site; distinct = distinct statement text",
        &args.replays,
        args.seed,
    );
    let exe = args.driver_exe("drv_numeral");
    let last_panic: Arc<Mutex<String>> = Arc::new(Mutex::new(String::new()));
    {
        let lp = last_panic.clone();
        std::panic::set_hook(Box::new(move |info| {
            let loc = info.location().map(|l| format!("{}:{}", l.file().rsplit('/').next().unwrap_or(""), l.line())).unwrap_or_default();
            *lp.lock().unwrap() = loc;
        }));
    }

    // ---------------- (a) numeral sites
    struct Case {
        tpl: usize,
        num: String,
        query: String,
    }
    let mut cases: Vec<Case> = vec![];
    let mut replay_mutants: Vec<String> = vec![];
    let mut files: Vec<std::path::PathBuf> = vec![];
    if let Some(r) = &args.replay {
        files.push(r.clone());
    } else if let Ok(rd) = std::fs::read_dir(args.corpus.join("C25")) {
        files = rd.filter_map(|e| e.ok().map(|e| e.path())).collect();
        files.sort();
    }
    let mut n_corpus = 0;
    for f in &files {
        for line in std::fs::read_to_string(f).unwrap_or_default().lines() {
            let line = line.trim_end();
            if let Some(rest) = line.strip_prefix("site ") {
                // site <template name> <numeral>
                if let Some((name, num)) = rest.split_once(' ') {
                    if let Some(i) = TPLS.iter().position(|t| t.name == name) {
                        cases.push(Case { tpl: i, num: num.to_string(), query: render(&TPLS[i], num) });
                        n_corpus += 1;
                    }
                }
            } else if let Some(rest) = line.strip_prefix("text ") {
                // text <json string>: an arbitrary input for the no-panic run
                if let Ok(s) = serde_json::from_str::<String>(rest) {
                    replay_mutants.push(s);
                    n_corpus += 1;
                }
            }
        }
    }
    rep.count_n("corpus_cases", n_corpus);
    let mut rng = Rng::new(args.seed.wrapping_mul(0xD1B5_4A32_D192_ED03));
    if args.replay.is_none() {
        let ints = boundary_ints();
        let floats = boundary_floats();
        for (i, t) in TPLS.iter().enumerate() {
            let pool = if t.site == Site::Float { &floats } else { &ints };
            for n in pool {
                cases.push(Case { tpl: i, num: n.clone(), query: render(t, n) });
            }
        }
        rep.exhaustive = true;
        rep.exhaustive_note = format!(
            "every one of {} statement shapes x every boundary numeral ({} integers incl. hex/octal/signed/leading zeros, {} floats); plus PRNG numerals (not exhaustive)",
            TPLS.len(), ints.len(), floats.len()
        );
        let n_rand = if args.thorough() { 1_000_000 } else { 100_000 };
        for _ in 0..n_rand {
            let i = rng.usize(TPLS.len());
            let t = &TPLS[i];
            let n = if t.site == Site::Float { random_float(&mut rng) } else { random_int(&mut rng) };
            let q = render(t, &n);
            cases.push(Case { tpl: i, num: n, query: q });
        }
    }

    let observed: Vec<String> = cases.iter().map(|c| observe(&TPLS[c.tpl], &c.query)).collect();
    let mut lines = Vec::with_capacity(cases.len() * 3);
    for (c, o) in cases.iter().zip(observed.iter()) {
        let t = &TPLS[c.tpl];
        if t.site == Site::Float {
            let (m, e) = float_parts(&c.num);
            lines.push(format!("float {} {}", m, e));
            lines.push(format!("fspec {} {} {}", m, e, o));
            lines.push(format!("float {} {}", m, e));
        } else {
            lines.push(format!("site {} {}", t.site.model_name(), c.num));
            lines.push(format!("spec {} {} {}", t.site.model_name(), c.num, o));
            lines.push(format!("fits {} {}", t.site.model_name(), c.num));
        }
    }
    let replies = driver::par_batch(&exe, &lines, 12);
    let mut first_break: Option<String> = None;
    for (k, (c, o)) in cases.iter().zip(observed.iter()).enumerate() {
        let t = &TPLS[c.tpl];
        let m = &replies[3 * k];
        let s = &replies[3 * k + 1];
        let fits = if t.site == Site::Float { replies[3 * k + 2] == "finite" } else { replies[3 * k + 2] == "1" };
        rep.case(&c.query, !fits);
        rep.count(&format!("site:{}:{}", t.site.group(), if fits { "fits" } else { "does-not-fit" }));
        rep.count(&format!("outcome:{}", o.split(':').next().unwrap_or("")));
        if !fits && rep.samples.len() < 4 {
            rep.sample(json!({"statement": c.query, "site": t.name, "observed": o, "model": m}));
        }
        let body = format!("site {} {}\n# statement {}\n# observed {}\n# model    {}\n# spec     {}", t.name, c.num, c.query, o, m, s);
        if s == "ok" {
            if m != o {
                rep.count("model_mismatch");
                if first_break.is_none() {
                    first_break = Some(body);
                }
            }
            continue;
        }
        let class = if o == "panic" || o == "exec-panic" {
            "panic"
        } else if o == "absent" {
            "dropped"
        } else if o == "err" {
            "spurious-error"
        } else if o.starts_with("ok:") || o == "inf" || o == "finite" {
            "other-value"
        } else {
            "unobservable"
        };
        if class == "unobservable" || s == "bad-op" {
            // the harness could not read the site (unexpected AST shape / execution error)
            rep.count(&format!("unobservable:{}", t.name));
            if first_break.is_none() {
                first_break = Some(body);
            }
            continue;
        }
        let sig = format!("{}:{}", t.site.group(), class);
        rep.count(&format!("spec_violation:{}", sig));
        rep.spec_violation(
            &known,
            &sig,
            &format!("`{}`: numeral `{}` at site {} gave {} (model: {})", c.query, c.num, t.name, o, m),
            &body,
        );
    }

    // ---------------- (b) mutants: Ok | Err, never an unwind
    let n_mut = if args.replay.is_some() { 0 } else if args.thorough() { 6_000_000 } else { 500_000 };
    let mut bases: Vec<String> = RICH.iter().map(|s| s.to_string()).collect();
    for t in TPLS {
        bases.push(render(t, if t.site == Site::Float { "1.5e3" } else { "2" }));
    }
    let mut mutants: Vec<String> = replay_mutants;
    for _ in 0..n_mut {
        let b = rng.pick(&bases).clone();
        mutants.push(mutate(&mut rng, &b));
    }
    let n_threads = 8;
    let chunk = (mutants.len() + n_threads - 1) / n_threads.max(1);
    let results: Mutex<Vec<(String, String)>> = Mutex::new(vec![]); // (input, panic location)
    let tally: Mutex<(u64, u64)> = Mutex::new((0, 0));
    if !mutants.is_empty() {
        std::thread::scope(|sc| {
            for part in mutants.chunks(chunk.max(1)) {
                let results = &results;
                let tally = &tally;
                let lp = last_panic.clone();
                std::thread::Builder::new()
                    .stack_size(256 << 20)
                    .spawn_scoped(sc, move || {
                        let (mut ok, mut err) = (0u64, 0u64);
                        for q in part {
                            match catch_unwind(AssertUnwindSafe(|| parse_query(q))) {
                                Ok(Ok(_)) => ok += 1,
                                Ok(Err(_)) => err += 1,
                                Err(_) => {
                                    let loc = lp.lock().unwrap().clone();
                                    results.lock().unwrap().push((q.clone(), loc));
                                }
                            }
                        }
                        let mut t = tally.lock().unwrap();
                        t.0 += ok;
                        t.1 += err;
                    })
                    .expect("spawn");
            }
        });
    }
    let (ok, err) = *tally.lock().unwrap();
    rep.evaluations += mutants.len() as u64;
    rep.count_n("mutants", mutants.len() as u64);
    rep.count_n("mutants_parse_ok", ok);
    rep.count_n("mutants_parse_err", err);
    let mut panics = results.into_inner().unwrap();
    panics.sort();
    rep.count_n("mutants_panic", panics.len() as u64);
    let mut seen_loc = std::collections::BTreeSet::new();
    for (q, loc) in &panics {
        // re-run single-threaded to attribute the location reliably
        let _ = catch_unwind(AssertUnwindSafe(|| parse_query(q)));
        let loc2 = last_panic.lock().unwrap().clone();
        let loc = if loc2.is_empty() { loc.clone() } else { loc2 };
        if !seen_loc.insert(loc.clone()) {
            continue;
        }
        let sig = format!("parser-panic:{}", loc);
        rep.count(&format!("spec_violation:{}", sig));
        rep.spec_violation(
            &known,
            &sig,
            &format!("parse_query panicked at {} on {:?}", loc, q),
            &format!("text {}\n# panic at {}", serde_json::to_string(q).unwrap(), loc),
        );
    }
    rep.extra.insert(
        "panic_freedom".into(),
        json!({"claim": "exploration only (not a theorem)", "mutants": mutants.len(), "parse_ok": ok, "parse_err": err, "panics": panics.len()}),
    );

    if let Some(body) = first_break {
        if rep.spec_violations.is_empty() {
            rep.correspondence_break(
                "SgModel.Numeral.parseSite = outcome of parse_query at the numeral site",
                "model and implementation outcomes differ (or the site could not be observed) although the specification holds on all explored cases",
                &body,
            );
        }
    }
    rep.write(&args.out);
}
