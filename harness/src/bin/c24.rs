//! C24 — natural-language translation never returns a mutating statement.
//!
//! The real `NLQPipeline::text_to_cypher` runs end to end against a scripted "LLM" on
//! 127.0.0.1 (Ollama provider + `api_base_url`; no hook): prompt -> reqwest client ->
//! `extract_cypher` -> `is_safe_query`.  Per generated model response:
//!   R  the pipeline's verdict (Ok(statement) | ValidationError) and, for an accepted
//!      statement, the ground truth: execute it with `MutQueryExecutor` on a prepared store and
//!      compare full dumps + index / constraint / vector-index / hierarchy-index lists;
//!   M  the Lean model: `extract` of the response, `isReadOnly` of the summary of what the real
//!      parser says about the extracted text -> accept(statement) | reject;
//!   S  accepted => not mutated.
#[path = "c24/loopback.rs"]
mod loopback;

use samyama::graph::GraphStore;
use samyama::nlq::{NLQError, NLQPipeline};
use samyama::persistence::tenant::{LLMProvider, NLQConfig};
use samyama::query::ast::{Clause, Query};
use samyama::query::{parse_query, MutQueryExecutor};
use serde_json::json;
use std::panic::{catch_unwind, AssertUnwindSafe};
use vharness::util::hex;
use vharness::{driver, Args, Known, Report, Rng};

// ------------------------------------------------------------------ store + ground truth

const SETUP: &[&str] = &[
    "CREATE (a:P {name: 'a', k: 1})-[:R {w: 1}]->(b:P {name: 'b', k: 2}), (c:Q {k: 3})",
    "CREATE INDEX ON :P(name)",
    "CREATE CONSTRAINT ON (n:Q) ASSERT n.k IS UNIQUE",
    "CREATE HIERARCHY INDEX h ON ()-[:R]->()",
];

fn build_store() -> GraphStore {
    let mut store = GraphStore::new();
    for s in SETUP {
        let q = parse_query(s).unwrap_or_else(|e| panic!("setup `{}` does not parse: {}", s, e));
        MutQueryExecutor::new(&mut store, "default".to_string())
            .execute(&q)
            .unwrap_or_else(|e| panic!("setup `{}` fails: {}", s, e));
    }
    store
}

fn dump(store: &GraphStore) -> String {
    let mut nodes: Vec<String> = store
        .all_nodes()
        .iter()
        .map(|n| {
            let mut labels: Vec<String> = n.labels.iter().map(|l| l.as_str().to_string()).collect();
            labels.sort();
            let mut props: Vec<String> = store.node_properties_full(n.id).iter().map(|(k, v)| format!("{}={:?}", k, v)).collect();
            props.sort();
            format!("N{:?}{:?}{:?}", n.id, labels, props)
        })
        .collect();
    nodes.sort();
    let mut edges: Vec<String> = store
        .all_edges()
        .iter()
        .map(|e| {
            let mut props: Vec<String> = e.properties.iter().map(|(k, v)| format!("{}={:?}", k, v)).collect();
            props.sort();
            format!("E{:?}:{:?}->{:?}:{:?}{:?}", e.id, e.source, e.target, e.edge_type, props)
        })
        .collect();
    edges.sort();
    let mut idx: Vec<String> = store.property_index.list_indexes().iter().map(|(l, p)| format!("{}.{}", l.as_str(), p)).collect();
    idx.sort();
    let mut cons: Vec<String> = store.property_index.list_constraints().iter().map(|(l, p)| format!("{}.{}", l.as_str(), p)).collect();
    cons.sort();
    let mut vec: Vec<String> = store.vector_index.list_indices().iter().map(|k| format!("{}.{}", k.label, k.property_key)).collect();
    vec.sort();
    let mut hier: Vec<String> = store
        .hierarchy_index
        .list()
        .iter()
        .map(|h| format!("{}:{:?}:{:?}:{}:{}:{:?}:{}", h.name, h.edge_types, h.encoding, h.nodes, h.edges, h.measure, h.stale))
        .collect();
    hier.sort();
    format!("nodes={:?}\nedges={:?}\nindexes={:?}\nconstraints={:?}\nvector={:?}\nhierarchy={:?}", nodes, edges, idx, cons, vec, hier)
}

// ------------------------------------------------------------------ statement summary (public AST)

fn summarize_level(q: &Query, out: &mut Vec<String>) {
    let mut items: Vec<String> = vec![];
    let hexs = |s: &str| hex(s.as_bytes());
    if !q.match_clauses.is_empty() || q.return_clause.is_some() || q.with_clause.is_some() || q.unwind_clause.is_some() {
        items.push("r".into());
    }
    if q.show_indexes || q.show_constraints || q.show_hierarchy_indexes {
        items.push("r".into());
    }
    if q.create_clause.is_some() { items.push("w:create".into()); }
    if q.merge_clause.is_some() { items.push("w:merge".into()); }
    if q.delete_clause.is_some() { items.push("w:delete".into()); }
    if !q.set_clauses.is_empty() { items.push("w:set".into()); }
    if !q.remove_clauses.is_empty() { items.push("w:remove".into()); }
    if q.foreach_clause.is_some() { items.push("w:foreach".into()); }
    for c in &q.clauses {
        items.push(match c {
            Clause::Create(_) => "w:create".into(),
            Clause::Merge(_) => "w:merge".into(),
            Clause::Set(_) => "w:set".into(),
            Clause::Remove(_) => "w:remove".into(),
            Clause::Delete(_) => "w:delete".into(),
            Clause::Foreach(_) => "w:foreach".into(),
            Clause::Call(c) => format!("c:{}", hexs(&c.procedure_name)),
            _ => "r".into(),
        });
    }
    if q.create_index_clause.is_some() { items.push("d:ci".into()); }
    if q.drop_index_clause.is_some() { items.push("d:di".into()); }
    if q.create_constraint_clause.is_some() { items.push("d:cc".into()); }
    if q.create_vector_index_clause.is_some() { items.push("d:cvi".into()); }
    if q.create_hierarchy_index_clause.is_some() { items.push("d:chi".into()); }
    if q.drop_hierarchy_index.is_some() { items.push("d:dhi".into()); }
    if q.rebuild_hierarchy_index.is_some() { items.push("d:rhi".into()); }
    if let Some(c) = &q.call_clause {
        items.push(format!("c:{}", hexs(&c.procedure_name)));
    }
    out.push(if items.is_empty() { "-".into() } else { items.join(",") });
    if let Some(sub) = &q.call_subquery {
        summarize_level(sub, out);
    }
    for (u, _) in &q.union_queries {
        summarize_level(u, out);
    }
}

fn summarize(text: &str) -> (String, Option<Query>) {
    match catch_unwind(AssertUnwindSafe(|| parse_query(text))) {
        Ok(Ok(q)) => {
            let mut levels = vec![];
            summarize_level(&q, &mut levels);
            (levels.join("/"), Some(q))
        }
        _ => ("none".into(), None),
    }
}

fn write_kinds(summary: &str) -> Vec<String> {
    let mut v: Vec<String> = summary
        .split(|c| c == '/' || c == ',')
        .filter(|i| i.starts_with("w:") || i.starts_with("d:") || i.starts_with("c:"))
        .map(|i| if let Some(h) = i.strip_prefix("c:") { format!("call:{}", String::from_utf8_lossy(&vharness::util::unhex(h).unwrap_or_default())) } else { i.to_string() })
        .collect();
    v.sort();
    v.dedup();
    v
}

// ------------------------------------------------------------------ generator

const PREFIXES: &[&str] = &[
    "", "MATCH (n:P)", "MATCH (n:P) WHERE n.k = 1", "OPTIONAL MATCH (n:P)", "MATCH (n:P) WITH n", "UNWIND [1,2] AS x", "WITH 1 AS x",
    "CALL db.labels() YIELD label", "MATCH (n:P)-[r:R]->(m)", "MATCH (n:P) WITH n MATCH (m:Q)", "UNWIND [1] AS x MATCH (n:P)",
];
const WRITES: &[&str] = &[
    "CREATE (z:Z {k: 9})", "MERGE (z:Z {k: 9})", "MERGE (z:Z {k: 9}) ON CREATE SET z.c = 1", "SET n.k = 99", "SET n:Extra", "SET n += {k2: 1}",
    "REMOVE n.k", "REMOVE n:P", "DELETE n", "DETACH DELETE n", "DELETE r", "FOREACH (i IN [1] | CREATE (:F))", "CALL algo.or.solve({})",
    "CREATE (n)-[:NEW]->(z:Z)", "SET n.k = 99, n.name = 'zz'",
];
const TAILS: &[&str] = &["", "RETURN n", "RETURN count(*) AS c", "RETURN 1 AS one"];
const STANDALONE: &[&str] = &[
    // DDL and other whole statements (some mutate, some only read)
    "CREATE INDEX ON :P(k)", "DROP INDEX ON :P(name)", "CREATE CONSTRAINT ON (n:P) ASSERT n.k IS UNIQUE",
    "CREATE CONSTRAINT c FOR (n:P) REQUIRE n.k IS UNIQUE",
    "CREATE VECTOR INDEX vi FOR (n:P) ON (n.emb) OPTIONS {dimensions: 3, similarity: 'cosine'}",
    "CREATE HIERARCHY INDEX h2 ON ()-[:R]->()", "DROP HIERARCHY INDEX h", "REBUILD HIERARCHY INDEX h", "SHOW INDEXES", "SHOW CONSTRAINTS",
    "SHOW HIERARCHY INDEXES", "CALL { MATCH (n:P) DETACH DELETE n }", "CALL { MATCH (n:P) RETURN n } RETURN n",
    "RETURN 1 AS x UNION MATCH (n:P) DETACH DELETE n", "RETURN 1 AS x UNION CREATE (z:Z) RETURN 1 AS x", "RETURN 1 AS x UNION RETURN 2 AS x",
    "MATCH (n:P) RETURN n.k AS x UNION ALL MATCH (n:P) SET n.k = 5 RETURN n.k AS x",
    "EXPLAIN MATCH (n:P) DETACH DELETE n", "PROFILE MATCH (n:P) DETACH DELETE n", "EXPLAIN MATCH (n:P) RETURN n", "PROFILE MATCH (n:P) RETURN n",
    "CALL algo.pageRank({}) YIELD node", "CALL algo.wcc() YIELD node RETURN node", "CALL samyama.or.solve({}) YIELD x RETURN x",
    "CALL gds.OR.Solve({})", "CALL or.solve({})", "CALL apoc.create.node(['Z'], {})", "CALL db.labels()", "CALL db.propertyKeys() YIELD propertyKey RETURN propertyKey",
    "CREATE (a:Z) WITH a CREATE (b:Z)", "MATCH (n:P) WITH n CREATE (m:Z) WITH m RETURN m", "MATCH (n:P) CALL db.labels() YIELD label RETURN n, label",
    // writes hidden deeper: nested subqueries / UNION branches / pipeline CALL / several statements
    "CALL { CALL { MATCH (n:P) DETACH DELETE n } }", "CALL { MATCH (n:P) RETURN n UNION MATCH (n:P) DETACH DELETE n RETURN n } RETURN n",
    "RETURN 1 AS x UNION CALL { MATCH (n:P) SET n.k = 7 } RETURN 1 AS x", "RETURN 1 AS x UNION RETURN 2 AS x UNION MATCH (n:P) REMOVE n.k RETURN 1 AS x",
    "MATCH (n:P) CALL { CREATE (z:Z) } RETURN n", "MATCH (n:P) CALL { WITH n SET n.k = 5 } RETURN n",
    "MATCH (n:P) CALL algo.or.solve({}) YIELD x RETURN x", "RETURN 1 AS x UNION CALL algo.or.solve({}) YIELD x RETURN x",
    "CALL { CALL algo.or.solve({}) YIELD x RETURN x } RETURN x", "CALL algo.OR.SOLVE({})", "CALL ALGO.or.solve({})",
    "MATCH (n:P) RETURN n; MATCH (n:P) DETACH DELETE n", "MATCH (n:P) RETURN n;", "MATCH (n:P) DETACH DELETE n;", "MATCH (n:P) RETURN n ; ",
    "MATCH (n:Nope) DETACH DELETE n", "MATCH (n:P) WHERE false SET n.k = 1", "MERGE (n:P {name: 'a'})", "MATCH (n:P) SET n.k = n.k",
    "OPTIONAL MATCH (n:P) DETACH DELETE n", "MATCH (n:P) WITH n LIMIT 1 DETACH DELETE n", "MATCH (n:P) WITH n ORDER BY n.k DELETE n",
    "UNWIND [1] AS x WITH x MATCH (n:P) SET n.k = x", "MATCH (a:P), (b:Q) CREATE (a)-[:NEW]->(b)", "MATCH (a:P)-[r:R]->(b) SET r.w = 2", "MATCH (a:P)-[r:R]->(b) DELETE r",
    "PROFILE CALL algo.or.solve({})", "EXPLAIN CREATE (z:Z)", "PROFILE CREATE INDEX ON :P(k)",
    // reads that only *mention* write keywords
    "MATCH (n:P) WHERE n.name = 'DETACH DELETE n' RETURN n", "MATCH (n:P) /* DELETE n */ RETURN n", "MATCH (n:P) // SET n.k = 1\nRETURN n",
    "MATCH (n:P) RETURN 'CREATE (x)' AS s", "MATCH (delete:P) RETURN delete", "MATCH (n:P) RETURN n.set AS create",
    "MATCH (n:P) RETURN n", "MATCH (n:P) RETURN n.name ORDER BY n.name LIMIT 1", "RETURN 1", "UNWIND [1,2,3] AS x RETURN x", "WITH 1 AS x RETURN x",
    "MATCH (a)-[:R*1..2]->(b) RETURN count(*) AS c", "RETURN datetime()", "MATCH (n) RETURN n LIMIT 10",
    // texts that do not parse
    "DELETE n", "SET n.k = 1", "DROP INDEX my_index", "REMOVE n.k", "I think you should look at the data.", "", "MATCH (n:P) DETACH DELETE", "MATCH (n:P RETURN n",
    "W\u{131}TH 1 AS x CREATE (z:Z)", "w\u{131}th 1 as x return x", "MATCH (n:P) \u{17f}ET n.k = 1",
];
const SEPS: &[&str] = &[" ", " ", " ", "\n", "\t", "  ", " /* c */ ", " // c\n", "\r\n", "\n  "];

fn recase(rng: &mut Rng, s: &str) -> String {
    match rng.usize(6) {
        0 => s.to_lowercase(),
        1 => s.chars().enumerate().map(|(i, c)| if i % 2 == 0 { c.to_ascii_lowercase() } else { c.to_ascii_uppercase() }).collect(),
        _ => s.to_string(),
    }
}

fn statement(rng: &mut Rng) -> String {
    if rng.chance(1, 4) {
        let s = rng.pick(STANDALONE).to_string();
        return if rng.chance(1, 3) { s.replace(' ', *rng.pick(SEPS)) } else { s };
    }
    let p = rng.pick(PREFIXES).to_string();
    let w = if rng.chance(1, 6) { String::new() } else { rng.pick(WRITES).to_string() };
    let t = rng.pick(TAILS).to_string();
    let mut parts: Vec<String> = vec![];
    for x in [p, w, t] {
        if !x.is_empty() {
            parts.push(if rng.chance(1, 4) { recase(rng, &x) } else { x });
        }
    }
    let mut out = String::new();
    for (i, x) in parts.iter().enumerate() {
        if i > 0 {
            out.push_str(*rng.pick(SEPS));
        }
        out.push_str(x);
    }
    out
}

fn wrap(rng: &mut Rng, kind: usize, stmt: &str, other: &str) -> String {
    match kind {
        0 => stmt.to_string(),
        1 => format!("```cypher\n{}\n```", stmt),
        2 => format!("```\n{}\n```", stmt),
        3 => format!("Here is the query:\n```cypher\n{}\n```\nHope this helps!", stmt),
        4 => format!("Sure! You can use:\n{}\nThis answers the question.", stmt),
        5 => format!("```cypher\n{}\n```\nor alternatively\n```cypher\n{}\n```", stmt, other),
        6 => format!("```cypher\n{}\n```\nor alternatively\n```cypher\n{}\n```", other, stmt),
        7 => format!("Here:\n```cypher\n{}", stmt),
        8 => format!("  \n {}  \n", stmt),
        9 => format!("```cypher {}```", stmt),
        10 => format!("Use `{}` or:\n```\n{}\n```", other, stmt),
        11 => stmt.replace(" RETURN", "\nRETURN").replace(" SET", "\nSET").replace(" DETACH", "\nDETACH").replace(" WITH", "\nWITH").replace(" UNION", "\nUNION"),
        12 => format!("Here is the query:\r\n```cypher\r\n{}\r\n```\r\nHope this helps!\r\n", stmt),
        13 => format!("```Cypher \n{}\n```\nThis returns the rows. Use ``` to quote it.", stmt),
        14 => format!("```sql\n{}\n```\n\nMATCH is the read clause; RETURN gives the rows.", stmt),
        15 => format!("The query is ```{}``` as requested.", stmt),
        16 => format!("Answer: ```cypher\n{}\n``` (read-only)", stmt),
        17 => format!("~~~cypher\n{}\n~~~", stmt),
        18 => format!("````cypher\n{}\n````", stmt),
        19 => format!("```\n```\n{}\n```\n", stmt),
        20 => format!("Match all the nodes you need:\n{}\nReturn to me if it fails.", stmt),
        21 => format!("With pleasure. Call it like this:\n\n    {}\n\nLimit the result if needed.", stmt),
        22 => format!("\u{feff}{}", stmt),
        23 => format!("\t{}\t\n\n", stmt.replace(' ', "\t")),
        24 => format!("{}\r\n-- {}\r\n", stmt, other),
        25 => format!("```cypher\n{}\n```\n```cypher\n{}\n", stmt, other),
        26 => format!("{}\n```cypher\n{}\n```", other, stmt),
        27 => format!("```cypher\n// {}\n{}\n```", other, stmt),
        28 => format!("1. {}\n2. {}", stmt, other),
        29 => format!("> {}", stmt),
        30 => stmt.replace(' ', "\u{a0}"),
        _ => {
            // every clause on its own line (the line filter keeps only lines starting with a read keyword)
            let mut s = stmt.replace(" RETURN", "\nRETURN").replace(" SET", "\nSET").replace(" DETACH", "\nDETACH");
            if rng.chance(1, 2) {
                s = s.replace(" CREATE", "\nCREATE").replace(" DELETE", "\nDELETE").replace(" MERGE", "\nMERGE");
            }
            s
        }
    }
}
const N_WRAP: usize = 32;

/// the one procedure of the engine that writes (AlgorithmOperator: `or.solve` under any namespace)
fn call_writes(name: &str) -> bool {
    let bare = name.strip_prefix("algo.").or_else(|| name.strip_prefix("samyama.")).or_else(|| name.strip_prefix("gds.")).unwrap_or(name);
    bare.eq_ignore_ascii_case("or.solve")
}

fn leading_is_write(stmt: &str) -> bool {
    let first: String = stmt.trim().chars().take_while(|c| c.is_ascii_alphabetic()).collect::<String>().to_ascii_uppercase();
    matches!(first.as_str(), "CREATE" | "MERGE" | "SET" | "REMOVE" | "DELETE" | "DETACH" | "FOREACH" | "DROP" | "REBUILD")
}

fn main() {
    let args = Args::parse();
    let known = Known::load(&args.known, "C24");
    let mut rep = Report::new(
        "C24",
        "scripted model responses: read prefix x write/DDL clause x tail (and whole statements: DDL, subqueries, UNION branches, write \
         procedures, decoys, unparsable text) x separators x keyword case x 32 wrappings (fences, language tags, CRLF, prose before/after, inline and tilde fences, two blocks, \
         unterminated fence, prose lines starting with a keyword, BOM, NBSP, one clause per line); non-trivial = the extracted statement writes and its leading clause is not a write \
         keyword or it uses a non-space separator; distinct = distinct response text",
        &args.replays,
        args.seed,
    );
    let exe = args.driver_exe("drv_nlq");
    std::env::set_var("NO_PROXY", "127.0.0.1,localhost");
    std::env::set_var("no_proxy", "127.0.0.1,localhost");
    let lb = match loopback::Loopback::start() {
        Ok(l) => l,
        Err(e) => {
            rep.correspondence_break("loopback", &format!("cannot bind 127.0.0.1: {}", e), "loopback HTTP responder unavailable");
            rep.write(&args.out);
            return;
        }
    };
    let pipe = NLQPipeline::new(NLQConfig {
        enabled: true,
        provider: LLMProvider::Ollama,
        model: "scripted".into(),
        api_key: None,
        api_base_url: Some(lb.url.clone()),
        system_prompt: None,
    })
    .expect("pipeline");
    let rt = tokio::runtime::Builder::new_current_thread().enable_all().build().unwrap();
    std::panic::set_hook(Box::new(|_| {}));

    // ---------------- cases
    let mut responses: Vec<String> = vec![];
    let mut files: Vec<std::path::PathBuf> = vec![];
    if let Some(r) = &args.replay {
        files.push(r.clone());
    } else if let Ok(rd) = std::fs::read_dir(args.corpus.join("C24")) {
        files = rd.filter_map(|e| e.ok().map(|e| e.path())).collect();
        files.sort();
    }
    let mut n_corpus = 0;
    for f in &files {
        for line in std::fs::read_to_string(f).unwrap_or_default().lines() {
            if let Some(rest) = line.trim().strip_prefix("response ") {
                if let Ok(s) = serde_json::from_str::<String>(rest) {
                    responses.push(s);
                    n_corpus += 1;
                }
            }
        }
    }
    rep.count_n("corpus_responses", n_corpus);
    let mut rng = Rng::new(args.seed.wrapping_mul(0xD1B5_4A32_D192_ED03));
    if args.replay.is_none() {
        // exhaustive: every prefix x write x tail, and every standalone statement, under every wrapping
        let mut stmts: Vec<String> = vec![];
        for p in PREFIXES {
            for w in WRITES {
                for t in TAILS {
                    let parts: Vec<&str> = [*p, *w, *t].into_iter().filter(|x| !x.is_empty()).collect();
                    stmts.push(parts.join(" "));
                }
            }
        }
        for s in STANDALONE {
            stmts.push(s.to_string());
        }
        let wraps: Vec<usize> = if args.thorough() { (0..N_WRAP).collect() } else { vec![0, 3, 11, 12, 20, 31] };
        for s in &stmts {
            for k in &wraps {
                responses.push(wrap(&mut rng, *k, s, "MATCH (n:P) RETURN n"));
            }
        }
        rep.exhaustive = true;
        rep.exhaustive_note = format!(
            "every read prefix ({}) x write clause ({}) x tail ({}) and every whole statement ({}) under {} wrappings; plus PRNG responses with random separators, keyword case and wrappings (not exhaustive)",
            PREFIXES.len(), WRITES.len(), TAILS.len(), STANDALONE.len(), wraps.len()
        );
        let n = if args.thorough() { 250_000 } else { 25_000 };
        for _ in 0..n {
            let s = statement(&mut rng);
            let o = statement(&mut rng);
            let k = rng.usize(N_WRAP);
            responses.push(wrap(&mut rng, k, &s, &o));
        }
    }

    // ---------------- R: the real pipeline, and ground truth for what it hands back
    enum Verdict {
        Accept(String),
        Reject,
        Other(String),
    }
    let mut store = build_store();
    let base_dump = dump(&store);
    assert_eq!(base_dump, dump(&build_store()), "store setup is not deterministic");
    let mut verdicts: Vec<Verdict> = vec![];
    let mut mutated: Vec<Option<(bool, String)>> = vec![];
    for r in &responses {
        lb.script(r);
        let v = match rt.block_on(pipe.text_to_cypher("question", "schema")) {
            Ok(q) => Verdict::Accept(q),
            Err(NLQError::ValidationError(_)) => Verdict::Reject,
            Err(e) => Verdict::Other(e.to_string()),
        };
        let m = match &v {
            Verdict::Accept(q) => match catch_unwind(AssertUnwindSafe(|| parse_query(q))) {
                Ok(Ok(ast)) => {
                    let res = catch_unwind(AssertUnwindSafe(|| {
                        MutQueryExecutor::new(&mut store, "default".to_string()).execute(&ast).map(|b| b.records.len()).map_err(|e| e.to_string())
                    }));
                    let after = dump(&store);
                    let changed = after != base_dump;
                    if changed || res.is_err() {
                        store = build_store();
                    }
                    Some((changed, format!("{:?}", res.unwrap_or_else(|_| Err("PANIC".into())))))
                }
                _ => Some((false, "does-not-parse".into())),
            },
            _ => None,
        };
        verdicts.push(v);
        mutated.push(m);
    }

    // ---------------- M: extract, then accept/reject on the real parser's summary of the extracted text
    let lines_a: Vec<String> = responses.iter().map(|r| format!("extract {}", hex(r.as_bytes()))).collect();
    let rep_a = driver::par_batch(&exe, &lines_a, 12);
    let mut extracted: Vec<String> = vec![];
    for (r, a) in responses.iter().zip(rep_a.iter()) {
        let h = a.strip_prefix("ok ").unwrap_or_else(|| panic!("driver extract reply `{}` for {:?}", a, r));
        extracted.push(String::from_utf8(vharness::util::unhex(h).expect("hex")).expect("utf8"));
    }
    let summaries: Vec<(String, Option<Query>)> = extracted.iter().map(|q| summarize(q)).collect();
    let mut lines_b: Vec<String> = vec![];
    for (i, r) in responses.iter().enumerate() {
        lines_b.push(format!("t2c {} {}", hex(r.as_bytes()), summaries[i].0));
        lines_b.push(format!("t2cl {}", hex(r.as_bytes())));
        let acc = matches!(verdicts[i], Verdict::Accept(_));
        let mutd = mutated[i].as_ref().map(|m| m.0).unwrap_or(false);
        lines_b.push(format!("spec {} {}", acc as u8, mutd as u8));
    }
    let rep_b = driver::par_batch(&exe, &lines_b, 12);

    let mut first_break: Option<(String, String)> = None;
    // what a rejected mutating statement would have done: evidence that rejections are not vacuous
    let mut probe_store = build_store();
    for (i, r) in responses.iter().enumerate() {
        let m = &rep_b[3 * i];
        let ml = &rep_b[3 * i + 1];
        let s = &rep_b[3 * i + 2];
        let (summary, ast) = &summaries[i];
        let q_m = &extracted[i];
        let kinds = write_kinds(summary);
        let is_write = summary.split(|c| c == '/' || c == ',').any(|it| it.starts_with("w:") || it.starts_with("d:"))
            || kinds.iter().any(|k| k.starts_with("call:") && call_writes(&k[5..]));
        let nonspace = q_m.contains('\n') || q_m.contains('\t') || q_m.contains("/*") || q_m.contains("//");
        let nt = is_write && (!leading_is_write(q_m) || nonspace);
        rep.case(r, nt);
        let real = match &verdicts[i] {
            Verdict::Accept(q) => format!("accept {}", hex(q.as_bytes())),
            Verdict::Reject => "reject".to_string(),
            Verdict::Other(e) => format!("other {}", e),
        };
        rep.count(&format!("verdict:{}", real.split(' ').next().unwrap()));
        rep.count(&format!("legacy_model:{}", ml.split(' ').next().unwrap()));
        if summary == "none" {
            rep.count("extracted_text_does_not_parse");
        } else if is_write {
            rep.count("extracted_statement_writes");
            for k in &kinds {
                rep.count(&format!("write_kind:{}", k.split(':').take(2).collect::<Vec<_>>().join(":")));
            }
        } else {
            rep.count("extracted_statement_reads");
        }
        if real == "reject" && is_write && i % 7 == 0 {
            if let Some(ast) = ast {
                let _ = catch_unwind(AssertUnwindSafe(|| {
                    let _ = MutQueryExecutor::new(&mut probe_store, "default".to_string()).execute(ast);
                }));
                if dump(&probe_store) != base_dump {
                    rep.count("rejected_statement_would_have_mutated");
                    probe_store = build_store();
                } else {
                    rep.count("rejected_write_statement_harmless_on_this_store");
                }
            }
        }
        if let Some((true, _)) = &mutated[i] {
            rep.count("accepted_and_mutated");
        } else if mutated[i].is_some() {
            rep.count("accepted_and_unchanged");
        }
        let body = format!(
            "response {}\n# extracted (model) {:?}\n# parser summary     {}\n# real pipeline      {}\n# executed           {:?}\n# model              {}\n# model (legacy)     {}\n# spec               {}",
            serde_json::to_string(r).unwrap(), q_m, summary, real, mutated[i], m, ml, s
        );
        if nt && rep.samples.len() < 4 {
            rep.sample(json!({"response": r, "extracted": q_m, "summary": summary, "real": real.split(' ').next(), "model": m.split(' ').next()}));
        }
        if s != "ok" {
            let sig = format!("accepted-mutating:{}", if kinds.is_empty() { "unclassified".to_string() } else { kinds.join("+") });
            rep.count(&format!("spec_violation:{}", sig));
            rep.spec_violation(
                &known,
                &sig,
                &format!("text_to_cypher handed back {:?}, which modifies the store when executed", q_m),
                &body,
            );
            continue;
        }
        if let Verdict::Other(e) = &verdicts[i] {
            rep.count("pipeline_error");
            if first_break.is_none() {
                first_break = Some((format!("pipeline error {}", e), body));
            }
            continue;
        }
        if *m != real {
            rep.count("model_mismatch");
            if first_break.is_none() {
                first_break = Some(("verdict or returned text differs".into(), body));
            }
        }
    }
    if let Some((w, body)) = first_break {
        if rep.spec_violations.is_empty() {
            rep.correspondence_break(
                "SgModel.Nlq.textToCypher (extract + isReadOnly on the real parser's summary) = NLQPipeline::text_to_cypher",
                &format!("model and implementation disagree ({}) although no accepted statement mutated the store", w),
                &body,
            );
        }
    }
    rep.write(&args.out);
}
