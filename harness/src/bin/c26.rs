//! C26 — graph algorithms vs their reference definitions.
//!
//! Real code: `samyama_graph_algorithms::{weakly_connected_components, strongly_connected_components,
//! bfs, dijkstra, edmonds_karp, prim_mst, count_triangles, local_clustering_coefficient}` on
//! `GraphView`s built here, and the same through `samyama::algo::build_view` + `CALL algo.*`.
//! Lean side (`drv_algo`): reference answers (`run`) and the specification evaluated on the
//! implementation's answers (`spec`: reference partitions, potentials certificate for paths,
//! flow/cut certificate for max-flow, spanning-tree certificate + reference minimum for MST,
//! definitions for triangles / LCC).
use samyama::graph::{EdgeType, GraphStore, Label, PropertyValue};
use samyama::query::executor::QueryExecutor;
use samyama::query::parser::parse_query;
use samyama_graph_algorithms::{
    bfs, count_triangles, dijkstra, edmonds_karp, local_clustering_coefficient, prim_mst,
    strongly_connected_components, weakly_connected_components, GraphView,
};
use serde_json::json;
use std::collections::{BTreeMap, HashMap};
use std::sync::atomic::{AtomicUsize, Ordering};
use std::sync::{mpsc, Arc};
use std::time::Duration;
use vharness::{driver, Args, Known, Report, Rng};

#[derive(Clone, Debug)]
struct G {
    n: usize,
    edges: Vec<(usize, usize, u64)>,
}

impl G {
    fn text(&self) -> String {
        if self.edges.is_empty() {
            format!("{}:-", self.n)
        } else {
            format!(
                "{}:{}",
                self.n,
                self.edges.iter().map(|(u, v, w)| format!("{}.{}.{}", u, v, w)).collect::<Vec<_>>().join(",")
            )
        }
    }
    fn parse(s: &str) -> Option<G> {
        let (n, es) = s.split_once(':')?;
        let n: usize = n.parse().ok()?;
        let mut edges = vec![];
        if es != "-" {
            for e in es.split(',') {
                let f: Vec<&str> = e.split('.').collect();
                if f.len() != 3 {
                    return None;
                }
                let (u, v, w) = (f[0].parse().ok()?, f[1].parse().ok()?, f[2].parse().ok()?);
                if u >= n || v >= n {
                    return None;
                }
                edges.push((u, v, w));
            }
        }
        Some(G { n, edges })
    }
    fn has_parallel(&self) -> bool {
        let mut seen = std::collections::HashSet::new();
        for (u, v, _) in &self.edges {
            let k = if u <= v { (*u, *v) } else { (*v, *u) };
            if u != v && !seen.insert(k) {
                return true;
            }
        }
        false
    }
    /// Appendix B: a cycle, a parallel edge or a self-loop, and n >= 3
    fn nontrivial(&self) -> bool {
        if self.n < 3 {
            return false;
        }
        if self.has_parallel() || self.edges.iter().any(|(u, v, _)| u == v) {
            return true;
        }
        // undirected cycle <=> more (distinct, non-loop) edges than a forest allows
        let mut parent: Vec<usize> = (0..self.n).collect();
        fn find(p: &mut Vec<usize>, x: usize) -> usize {
            if p[x] != x {
                let r = find(p, p[x]);
                p[x] = r;
            }
            p[x]
        }
        for (u, v, _) in &self.edges {
            let (a, b) = (find(&mut parent, *u), find(&mut parent, *v));
            if a == b {
                return true;
            }
            parent[a] = b;
        }
        false
    }
}

/// node id of dense index `i` (not the identity, so that id/index confusion shows)
fn nid(i: usize) -> u64 {
    3 * i as u64 + 7
}

fn make_view(g: &G, weighted: bool) -> GraphView {
    let n = g.n;
    let index_to_node: Vec<u64> = (0..n).map(nid).collect();
    let node_to_index: HashMap<u64, usize> = (0..n).map(|i| (nid(i), i)).collect();
    let mut out = vec![vec![]; n];
    let mut wts = vec![vec![]; n];
    for (u, v, w) in &g.edges {
        out[*u].push(*v);
        wts[*u].push(*w as f64);
    }
    // as build_view: in-lists filled while walking the sources upwards
    let mut inc = vec![vec![]; n];
    for u in 0..n {
        for v in &out[u] {
            inc[*v].push(u);
        }
    }
    GraphView::from_adjacency_list(n, index_to_node, node_to_index, out, inc, if weighted { Some(wts) } else { None })
}

fn int_of(x: f64) -> Option<u64> {
    if x.is_finite() && x >= 0.0 && x.fract() == 0.0 && x < 9.0e15 {
        Some(x as u64)
    } else {
        None
    }
}

fn show_partition(classes: &mut Vec<Vec<usize>>) -> String {
    for c in classes.iter_mut() {
        c.sort();
    }
    classes.sort();
    if classes.is_empty() {
        "-".into()
    } else {
        classes.iter().map(|c| c.iter().map(|x| x.to_string()).collect::<Vec<_>>().join(",")).collect::<Vec<_>>().join("|")
    }
}

fn canon_partition_text(s: &str) -> String {
    if s == "-" {
        return s.into();
    }
    let mut cl: Vec<Vec<usize>> = s.split('|').map(|c| c.split(',').filter_map(|x| x.parse().ok()).collect()).collect();
    show_partition(&mut cl)
}

const STAGES: [&str; 8] = ["wcc", "scc", "bfs", "dij", "flow", "mst", "tri", "lcc"];

/// all crate-level observations of one case; `Err(what)` for a value outside the protocol
fn observe(g: &G, s: usize, t: usize, with_flow: bool, stage: &AtomicUsize) -> Result<BTreeMap<String, String>, String> {
    let mut o = BTreeMap::new();
    let idx = |id: u64| -> usize { ((id - 7) / 3) as usize };
    let vw = make_view(g, true);
    let vu = make_view(g, false);
    stage.store(0, Ordering::SeqCst);
    let r = weakly_connected_components(&vu);
    let mut cl: Vec<Vec<usize>> = r.components.values().map(|c| c.iter().map(|x| idx(*x)).collect()).collect();
    o.insert("wcc".into(), show_partition(&mut cl));
    stage.store(1, Ordering::SeqCst);
    let r = strongly_connected_components(&vu);
    let mut cl: Vec<Vec<usize>> = r.components.values().map(|c| c.iter().map(|x| idx(*x)).collect()).collect();
    o.insert("scc".into(), show_partition(&mut cl));
    if g.n > 0 {
        let path_txt = |r: Option<samyama_graph_algorithms::PathResult>| -> Result<String, String> {
            match r {
                None => Ok("none".into()),
                Some(p) => {
                    let c = int_of(p.cost).ok_or(format!("non-integer cost {}", p.cost))?;
                    Ok(format!("{}:{}", c, p.path.iter().map(|x| idx(*x).to_string()).collect::<Vec<_>>().join("-")))
                }
            }
        };
        stage.store(2, Ordering::SeqCst);
        o.insert("bfs".into(), path_txt(bfs(&vu, nid(s), nid(t)))?);
        stage.store(3, Ordering::SeqCst);
        o.insert("dij".into(), path_txt(dijkstra(&vw, nid(s), nid(t)))?);
        if with_flow {
            stage.store(4, Ordering::SeqCst);
            let f = edmonds_karp(&vw, nid(s), nid(t)).ok_or("edmonds_karp returned None for existing nodes")?;
            o.insert("flow".into(), int_of(f.max_flow).ok_or(format!("non-integer flow {}", f.max_flow))?.to_string());
        }
    }
    stage.store(5, Ordering::SeqCst);
    let m = prim_mst(&vw);
    let tot = int_of(m.total_weight).ok_or(format!("non-integer mst weight {}", m.total_weight))?;
    let mut es = vec![];
    for (a, b, w) in &m.edges {
        es.push(format!("{}-{}-{}", idx(*a), idx(*b), int_of(*w).ok_or("non-integer mst edge weight")?));
    }
    o.insert("mst".into(), format!("{}:{}", tot, if es.is_empty() { "-".into() } else { es.join(",") }));
    stage.store(6, Ordering::SeqCst);
    o.insert("tri".into(), count_triangles(&vu).to_string());
    stage.store(7, Ordering::SeqCst);
    let l = local_clustering_coefficient(&vu);
    let hx: Vec<String> = (0..g.n).map(|i| format!("{:016x}", l.coefficients.get(&nid(i)).copied().unwrap_or(f64::NAN).to_bits())).collect();
    o.insert("lcc".into(), if hx.is_empty() { "-".into() } else { hx.join(",") });
    Ok(o)
}

enum Outcome {
    Obs(BTreeMap<String, String>),
    Bad(String),
    Panic(String),
    Hang(&'static str),
}

/// every call runs in a worker thread with a wall-clock bound: a non-terminating call is
/// reported (the worker is abandoned and a fresh one takes over), not waited for.  One worker
/// handles a run of cases (a thread hand-off per case costs a scheduler quantum on a busy box).
fn observe_all(cases: &[Case], hang_seen: &mut bool, bound: Duration) -> Vec<Outcome> {
    let mut outs: Vec<Outcome> = Vec::with_capacity(cases.len());
    while outs.len() < cases.len() {
        let (tx, rx) = mpsc::channel();
        let stage = Arc::new(AtomicUsize::new(0));
        let rest: Vec<Case> = cases[outs.len()..].to_vec();
        let (st2, skip_self_flow) = (stage.clone(), *hang_seen);
        std::thread::spawn(move || {
            for c in rest {
                let with_flow = !(c.s == c.t && skip_self_flow);
                let r = std::panic::catch_unwind(std::panic::AssertUnwindSafe(|| observe(&c.g, c.s, c.t, with_flow, &st2)));
                if tx.send(r).is_err() {
                    return;
                }
            }
        });
        loop {
            if outs.len() == cases.len() {
                break;
            }
            match rx.recv_timeout(bound) {
                Ok(Ok(Ok(o))) => outs.push(Outcome::Obs(o)),
                Ok(Ok(Err(e))) => outs.push(Outcome::Bad(e)),
                Ok(Err(p)) => outs.push(Outcome::Panic(
                    p.downcast_ref::<String>().cloned().or_else(|| p.downcast_ref::<&str>().map(|s| s.to_string())).unwrap_or_else(|| "panic".into()),
                )),
                Err(mpsc::RecvTimeoutError::Timeout) => {
                    outs.push(Outcome::Hang(STAGES[stage.load(Ordering::SeqCst).min(7)]));
                    *hang_seen = true;
                    break; // abandon this worker
                }
                Err(mpsc::RecvTimeoutError::Disconnected) => break,
            }
        }
    }
    outs
}

fn parse_fields(reply: &str) -> Option<BTreeMap<String, String>> {
    let rest = reply.strip_prefix("ok ")?;
    let mut m = BTreeMap::new();
    for tok in rest.split(' ') {
        let (k, v) = tok.split_once('=')?;
        m.insert(k.to_string(), v.to_string());
    }
    Some(m)
}

/// brute force (search, not proof): minimum weight of a spanning tree of node 0's component
fn brute_mst(g: &G) -> Option<u64> {
    if g.n == 0 {
        return Some(0);
    }
    let m = g.edges.len();
    if m > 12 {
        return None;
    }
    let comp = |mask: u32| -> Vec<bool> {
        let mut seen = vec![false; g.n];
        seen[0] = true;
        loop {
            let mut ch = false;
            for (i, (u, v, _)) in g.edges.iter().enumerate() {
                if mask >> i & 1 == 1 && seen[*u] != seen[*v] {
                    seen[*u] = true;
                    seen[*v] = true;
                    ch = true;
                }
            }
            if !ch {
                return seen;
            }
        }
    };
    let full = comp((1u32 << m) - 1);
    let k = full.iter().filter(|x| **x).count();
    let mut best: Option<u64> = None;
    for mask in 0u32..(1u32 << m) {
        if mask.count_ones() as usize != k - 1 {
            continue;
        }
        if comp(mask) == full {
            let w: u64 = g.edges.iter().enumerate().filter(|(i, _)| mask >> i & 1 == 1).map(|(_, e)| e.2).sum();
            best = Some(best.map_or(w, |b| b.min(w)));
        }
    }
    best
}

fn lcc_bits(frac: &str) -> Option<u64> {
    let (a, b) = frac.split_once('/')?;
    let (a, b): (u64, u64) = (a.parse().ok()?, b.parse().ok()?);
    Some((a as f64 / b as f64).to_bits())
}

struct Ctx {
    rep: Report,
    known: Known,
    hang_seen: bool,
    first_break: Option<String>,
}

#[derive(Clone)]
struct Case {
    g: G,
    s: usize,
    t: usize,
    origin: &'static str,
    /// large graphs: only these fields go to the driver (the rest of the reference
    /// algorithms is too slow there); no model comparison
    only: Option<&'static [&'static str]>,
}

fn signature(g: &G, s: usize, t: usize, field: &str) -> String {
    match field {
        "mst" if g.has_parallel() => "mst-parallel-edge".into(),
        "flow" if s == t => "flow-source-equals-sink".into(),
        f => format!("{}-answer", f),
    }
}

fn trace(msg: &str) {
    if std::env::var("VERIF_TRACE").is_ok() {
        eprintln!("[c26 {:?}] {}", std::time::SystemTime::now().duration_since(std::time::UNIX_EPOCH).map(|d| d.as_secs()).unwrap_or(0), msg);
    }
}

fn eval_cases(cx: &mut Ctx, exe: &std::path::Path, cases: &[Case], bound: Duration) {
    trace(&format!("eval_cases {} start", cases.len()));
    // 1. implementation
    let raw = observe_all(cases, &mut cx.hang_seen, bound);
    let mut outs: Vec<Option<BTreeMap<String, String>>> = vec![];
    for (c, r) in cases.iter().zip(raw.into_iter()) {
        let body = format!("case {} {} {}", c.g.text(), c.s, c.t);
        match r {
            Outcome::Obs(o) => {
                if c.s == c.t && c.g.n > 0 && !o.contains_key("flow") {
                    cx.rep.count("flow_s_eq_t_skipped_after_hang");
                }
                outs.push(Some(o))
            }
            Outcome::Bad(e) => {
                cx.rep.spec_violation(&cx.known, "value-outside-integers", &format!("{} on `{}`", e, body), &body);
                outs.push(None);
            }
            Outcome::Panic(p) => {
                cx.rep.spec_violation(&cx.known, "panic", &format!("panic `{}` on `{}`", p, body), &body);
                outs.push(None);
            }
            Outcome::Hang(stage) => {
                let sig = if stage == "flow" && c.s == c.t { "flow-source-equals-sink".to_string() } else { format!("hang-{}", stage) };
                cx.rep.count(&format!("hang:{}", stage));
                cx.rep.spec_violation(
                    &cx.known,
                    &sig,
                    &format!("{} did not return within {:?} on `{}` (source = sink: the augmenting-path loop never ends)", stage, bound, body),
                    &body,
                );
                outs.push(None);
            }
        }
    }
    trace("implementation done");
    // 2. model and specification
    let mut lines = vec![];
    for (c, o) in cases.iter().zip(outs.iter()) {
        if let Some(o) = o {
            let obs: Vec<String> = o.iter().filter(|(k, _)| c.only.map_or(true, |f| f.contains(&k.as_str()))).map(|(k, v)| format!("{}={}", k, v)).collect();
            if c.only.is_none() {
                lines.push(format!("run {} {} {}", c.g.text(), c.s, c.t));
            } else {
                lines.push("noop".to_string()); // answered `bad-op`; keeps two lines per case
            }
            lines.push(format!("spec {} {} {} {}", c.g.text(), c.s, c.t, obs.join(" ")));
        }
    }
    let replies = driver::par_batch(exe, &lines, 12);
    trace("driver done");
    let mut k = 0;
    for (c, o) in cases.iter().zip(outs.iter()) {
        let Some(o) = o else { continue };
        let (m, sp) = (&replies[k], &replies[k + 1]);
        k += 2;
        let gt = c.g.text();
        let canon = format!("{} {} {}", gt, c.s, c.t);
        cx.rep.case(&canon, c.g.nontrivial());
        cx.rep.count(&format!("origin:{}", c.origin));
        if c.g.has_parallel() {
            cx.rep.count("graphs_with_parallel_edges");
        }
        if c.s == c.t {
            cx.rep.count("source_equals_target");
        }
        if o.get("bfs").map_or(false, |x| x == "none") {
            cx.rep.count("unreachable_target");
        }
        if c.only.is_none() {
            if let Some(fv) = o.get("flow").and_then(|x| x.parse::<u64>().ok()) {
                if needs_cancellation(&c.g, c.s, c.t, fv) {
                    cx.rep.count("flow_needs_cancellation");
                    cx.rep.count(&format!("flow_needs_cancellation:{}", c.origin));
                }
            }
        }
        let obs_txt: Vec<String> = o.iter().map(|(k, v)| format!("{}={}", k, v)).collect();
        let body = format!("case {} {} {}\nimpl  {}\nmodel {}\nspec  {}", gt, c.s, c.t, obs_txt.join(" "), m, sp);
        if cx.rep.samples.len() < 3 && c.g.nontrivial() && c.g.n >= 4 {
            cx.rep.sample(json!({"graph": gt, "s": c.s, "t": c.t, "impl": obs_txt.join(" "), "spec": sp}));
        }
        if c.only.is_some() {
            cx.rep.count("large_graph_rayon_paths");
            if let Some(fields) = sp.strip_prefix("viol ") {
                for f in fields.split(',') {
                    let sig = signature(&c.g, c.s, c.t, f);
                    cx.rep.spec_violation(&cx.known, &sig, &format!("`{}` answer violates its specification on a {}-node graph", f, c.g.n), &body);
                }
            } else if sp != "ok" && cx.first_break.is_none() {
                cx.first_break = Some(body.clone());
            }
            continue;
        }
        if sp == "nocert" || sp == "bad-op" || m == "bad-op" {
            cx.rep.count("driver_no_certificate");
            if cx.first_break.is_none() {
                cx.first_break = Some(body.clone());
            }
            continue;
        }
        if let Some(fields) = sp.strip_prefix("viol ") {
            for f in fields.split(',') {
                let sig = signature(&c.g, c.s, c.t, f);
                cx.rep.count(&format!("spec_violation:{}", sig));
                cx.rep.count(&format!("spec_violation_by_origin:{}:{}", f, c.origin));
                cx.rep.spec_violation(&cx.known, &sig, &format!("`{}` answer violates its specification on `{}`", f, canon), &body);
            }
            continue;
        }
        // S holds on R; compare R with M where the answer is unique
        let Some(mf) = parse_fields(m) else {
            if cx.first_break.is_none() {
                cx.first_break = Some(body.clone());
            }
            continue;
        };
        let mut diff = vec![];
        for f in ["wcc", "scc"] {
            if canon_partition_text(&mf[f]) != o[f] {
                diff.push(f);
            }
        }
        if c.g.n > 0 {
            for f in ["bfs", "dij"] {
                let rc = o[f].split(':').next().unwrap_or("");
                if rc != mf[f] {
                    diff.push(f);
                }
            }
            if let Some(fl) = o.get("flow") {
                if *fl != mf["flow"] {
                    diff.push("flow");
                }
            }
        }
        if o["mst"].split(':').next().unwrap_or("") != mf["mst"] {
            diff.push("mst");
        }
        if o["tri"] != mf["tri"] {
            diff.push("tri");
        }
        if c.g.n > 0 {
            let want: Vec<String> = mf["lcc"].split(',').map(|x| lcc_bits(x).map_or("?".into(), |b| format!("{:016x}", b))).collect();
            if want.join(",") != o["lcc"] {
                diff.push("lcc");
            }
        }
        // search-level oracle for the MST minimum on tiny graphs
        if c.g.edges.len() <= 8 {
            if let Some(b) = brute_mst(&c.g) {
                cx.rep.count("mst_brute_force_compared");
                if b.to_string() != mf["mst"] {
                    diff.push("mst-model-vs-brute-force");
                }
                if b.to_string() != o["mst"].split(':').next().unwrap_or("") {
                    let sig = signature(&c.g, c.s, c.t, "mst");
                    cx.rep.spec_violation(&cx.known, &sig, &format!("MST weight is not the brute-force minimum {} on `{}`", b, canon), &body);
                }
            }
        }
        if !diff.is_empty() {
            cx.rep.count("model_mismatch");
            if cx.first_break.is_none() {
                cx.first_break = Some(format!("{}\ndiffer {}", body, diff.join(",")));
            }
        }
    }
}

// ------------------------------------------------------------------------------------------
// CALL algo.* on stores (build_view and AlgorithmOperator inside)

#[derive(Clone, Debug)]
struct StoreDesc {
    /// labels per node (bit 0 = A, bit 1 = B)
    nodes: Vec<u8>,
    /// (src, dst, type 0=R 1=S, weight kind)
    edges: Vec<(usize, usize, u8, WKind)>,
    /// (source, target) node positions to use for the path / flow procedures when both are in
    /// the projection (structured stores); otherwise they derive from the description
    hint: Option<(usize, usize)>,
}

#[derive(Clone, Debug)]
enum WKind {
    Int(u64),
    Float(u64),
    Missing,
    Text,
}

impl StoreDesc {
    fn text(&self) -> String {
        let ns: Vec<String> = self.nodes.iter().map(|l| l.to_string()).collect();
        let es: Vec<String> = self
            .edges
            .iter()
            .map(|(u, v, ty, w)| {
                let k = match w {
                    WKind::Int(x) => format!("i{}", x),
                    WKind::Float(x) => format!("f{}", x),
                    WKind::Missing => "m".into(),
                    WKind::Text => "t".into(),
                };
                format!("{}.{}.{}.{}", u, v, ty, k)
            })
            .collect();
        format!(
            "{} {}{}",
            if ns.is_empty() { "-".into() } else { ns.join(",") },
            if es.is_empty() { "-".into() } else { es.join(",") },
            self.hint.map_or(String::new(), |(a, b)| format!(" st={}.{}", a, b))
        )
    }
    fn parse(ns: &str, es: &str) -> Option<StoreDesc> {
        let nodes: Vec<u8> = if ns == "-" { vec![] } else { ns.split(',').map(|x| x.parse().ok()).collect::<Option<Vec<u8>>>()? };
        let mut edges = vec![];
        if es != "-" {
            for e in es.split(',') {
                let f: Vec<&str> = e.split('.').collect();
                if f.len() != 4 {
                    return None;
                }
                let (u, v, ty): (usize, usize, u8) = (f[0].parse().ok()?, f[1].parse().ok()?, f[2].parse().ok()?);
                if u >= nodes.len() || v >= nodes.len() {
                    return None;
                }
                let w = match f[3].split_at(1) {
                    ("i", x) => WKind::Int(x.parse().ok()?),
                    ("f", x) => WKind::Float(x.parse().ok()?),
                    ("m", "") => WKind::Missing,
                    ("t", "") => WKind::Text,
                    _ => return None,
                };
                edges.push((u, v, ty, w));
            }
        }
        Some(StoreDesc { nodes, edges, hint: None })
    }
}

fn build_store(d: &StoreDesc) -> (GraphStore, Vec<u64>) {
    let mut st = GraphStore::new();
    let mut ids = vec![];
    for l in &d.nodes {
        let mut labels = vec![];
        if l & 1 == 1 {
            labels.push(Label::new("A"));
        }
        if l & 2 == 2 {
            labels.push(Label::new("B"));
        }
        ids.push(st.create_node_with_labels(labels));
    }
    for (u, v, ty, w) in &d.edges {
        let e = st.create_edge(ids[*u], ids[*v], EdgeType::new(if *ty == 0 { "R" } else { "S" })).expect("edge");
        match w {
            WKind::Int(x) => st.set_edge_property_sparse(e, "w", PropertyValue::Integer(*x as i64)),
            WKind::Float(x) => st.set_edge_property_sparse(e, "w", PropertyValue::Float(*x as f64)),
            WKind::Text => st.set_edge_property_sparse(e, "w", PropertyValue::String("heavy".into())),
            WKind::Missing => {}
        }
    }
    let ids = ids.iter().map(|i| i.as_u64()).collect();
    (st, ids)
}

/// store text for the driver, nodes in the order `order` (ids), see Driver/Algo.lean
fn store_text(d: &StoreDesc, ids: &[u64], order: &[u64]) -> String {
    let pos: HashMap<u64, usize> = ids.iter().enumerate().map(|(i, x)| (*x, i)).collect();
    let ns: Vec<String> = order
        .iter()
        .map(|id| {
            let l = d.nodes[pos[id]];
            let mut ls = vec![];
            if l & 1 == 1 {
                ls.push("0");
            }
            if l & 2 == 2 {
                ls.push("1");
            }
            format!("{}/{}", id, if ls.is_empty() { "-".into() } else { ls.join("+") })
        })
        .collect();
    let es: Vec<String> = d
        .edges
        .iter()
        .map(|(u, v, ty, w)| {
            let wt = match w {
                WKind::Int(x) | WKind::Float(x) => x.to_string(),
                _ => "_".into(),
            };
            format!("{}.{}.{}.{}", ids[*u], ids[*v], ty, wt)
        })
        .collect();
    format!("{};{}", if ns.is_empty() { "-".into() } else { ns.join(",") }, if es.is_empty() { "-".into() } else { es.join(",") })
}

fn view_edges_by_id(v: &GraphView) -> Vec<(u64, u64, u64)> {
    let mut out = vec![];
    for u in 0..v.node_count {
        let ws = v.weights(u);
        for (i, t) in v.successors(u).iter().enumerate() {
            let w = ws.map_or(1.0, |w| w[i]);
            out.push((v.index_to_node[u], v.index_to_node[*t], w as u64));
        }
    }
    out.sort();
    out
}

fn view_transpose_ok(v: &GraphView) -> bool {
    let mut a = vec![];
    let mut b = vec![];
    for u in 0..v.node_count {
        for t in v.successors(u) {
            a.push((u, *t));
        }
        for s in v.predecessors(u) {
            b.push((*s, u));
        }
    }
    a.sort();
    b.sort();
    a == b
}

fn call(store: &GraphStore, q: &str) -> Result<Vec<samyama::query::executor::record::Record>, String> {
    let query = parse_query(q).map_err(|e| format!("parse: {:?}", e))?;
    let ex = QueryExecutor::new(store);
    ex.execute(&query).map(|b| b.records).map_err(|e| format!("exec: {:?}", e))
}

fn rec_node_id(r: &samyama::query::executor::record::Record, col: &str) -> Option<u64> {
    match r.get(col)? {
        samyama::query::executor::record::Value::Node(id, _) => Some(id.as_u64()),
        _ => None,
    }
}
fn rec_int(r: &samyama::query::executor::record::Record, col: &str) -> Option<i64> {
    r.get(col)?.as_property()?.as_integer()
}
fn rec_float(r: &samyama::query::executor::record::Record, col: &str) -> Option<f64> {
    r.get(col)?.as_property()?.as_float()
}

fn eval_store(cx: &mut Ctx, drv: &mut driver::Driver, d: &StoreDesc) {
    let (store, ids) = build_store(d);
    let desc_txt = d.text();
    // (source, target) derive from the store itself, so that a replay needs no seed
    let mut rng = Rng::new(vharness::util::fnv(&desc_txt));
    let rng = &mut rng;
    for (label, ty, weighted) in [(None, None, false), (None, None, true), (Some("A"), Some("R"), false), (Some("A"), None, true), (Some("B"), Some("S"), true)] {
        let v = samyama::algo::build_view(&store, label, ty, if weighted { Some("w") } else { None });
        // node set expected by the label filter
        let mut want_nodes: Vec<u64> = (0..d.nodes.len())
            .filter(|i| match label {
                None => true,
                Some("A") => d.nodes[*i] & 1 == 1,
                _ => d.nodes[*i] & 2 == 2,
            })
            .map(|i| ids[i])
            .collect();
        want_nodes.sort();
        let mut got_nodes = v.index_to_node.clone();
        got_nodes.sort();
        let stxt = store_text(d, &ids, &v.index_to_node);
        let lcode = match label { None => "_", Some("A") => "0", _ => "1" };
        let tcode = match ty { None => "_", Some("R") => "0", _ => "1" };
        let body = format!("storecase {}\nproj {} {} {} {}", desc_txt, stxt, lcode, tcode, weighted as u8);
        cx.rep.count("projections");
        if got_nodes != want_nodes || v.node_count != want_nodes.len() {
            cx.rep.spec_violation(&cx.known, "projection-node-set", &format!("build_view selected nodes {:?}, the label filter selects {:?}", got_nodes, want_nodes), &body);
            continue;
        }
        let reply = drv.ask(&format!("proj {} {} {} {}", stxt, lcode, tcode, weighted as u8));
        let Some(mg) = reply.strip_prefix("ok ").and_then(G::parse) else {
            if cx.first_break.is_none() {
                cx.first_break = Some(format!("{}\nreply {}", body, reply));
            }
            continue;
        };
        let mut model_edges: Vec<(u64, u64, u64)> = mg.edges.iter().map(|(u, v2, w)| (v.index_to_node[*u], v.index_to_node[*v2], *w)).collect();
        model_edges.sort();
        if model_edges != view_edges_by_id(&v) || !view_transpose_ok(&v) {
            cx.rep.spec_violation(
                &cx.known,
                "projection-edges",
                &format!("build_view edges {:?} differ from the projection {:?} (or in != transpose out)", view_edges_by_id(&v), model_edges),
                &body,
            );
            continue;
        }
        cx.rep.case(&format!("proj {} {} {} {}", stxt, lcode, tcode, weighted as u8), mg.nontrivial());
        if mg.n == 0 {
            continue;
        }
        // CALL algo.* for the projections the procedures can express
        let ix: HashMap<u64, usize> = v.index_to_node.iter().enumerate().map(|(i, x)| (*x, i)).collect();
        let mut s = rng.usize(mg.n);
        let mut t = rng.usize(mg.n);
        if let Some((a, b)) = d.hint {
            if let (Some(x), Some(y)) = (ix.get(&ids[a]), ix.get(&ids[b])) {
                s = *x;
                t = *y;
            }
        }
        if t == s {
            t = (t + 1) % mg.n; // s = t goes through the crate-level cases
        }
        let (sid, tid) = (v.index_to_node[s], v.index_to_node[t]);
        let mut obs: Vec<String> = vec![];
        let mut fail: Option<String> = None;
        let part = |recs: &[samyama::query::executor::record::Record]| -> Option<String> {
            let mut m: BTreeMap<i64, Vec<usize>> = BTreeMap::new();
            for r in recs {
                m.entry(rec_int(r, "componentId")?).or_default().push(*ix.get(&rec_node_id(r, "node")?)?);
            }
            let mut cl: Vec<Vec<usize>> = m.into_values().collect();
            Some(show_partition(&mut cl))
        };
        let path = |recs: &[samyama::query::executor::record::Record]| -> Option<String> {
            if recs.is_empty() {
                return Some("none".into());
            }
            let c = int_of(rec_float(&recs[0], "cost")?)?;
            let p = match recs[0].get("path")?.as_property()? {
                PropertyValue::Array(a) => a.iter().map(|x| x.as_integer().and_then(|i| ix.get(&(i as u64)).copied())).collect::<Option<Vec<usize>>>()?,
                _ => return None,
            };
            Some(format!("{}:{}", c, p.iter().map(|x| x.to_string()).collect::<Vec<_>>().join("-")))
        };
        let filt = |with: bool| -> String {
            if !with {
                return String::new();
            }
            match (label, ty) {
                (Some(l), Some(t)) => format!("'{}', '{}'", l, t),
                (Some(l), None) => format!("'{}'", l),
                _ => String::new(),
            }
        };
        let mut queries: Vec<(&str, String)> = vec![];
        let filters_expressible = !weighted;
        if filters_expressible {
            queries.push(("wcc", format!("CALL algo.wcc({}) YIELD node, componentId", filt(true))));
            queries.push(("lcc", format!("CALL algo.lcc({}) YIELD node, coefficient", filt(true))));
        }
        if label.is_none() && ty.is_none() {
            if !weighted {
                queries.push(("scc", "CALL algo.scc() YIELD node, componentId".into()));
                queries.push(("bfs", format!("CALL algo.shortestPath({}, {}) YIELD path, cost", sid, tid)));
                queries.push(("tri", "CALL algo.triangleCount() YIELD triangles".into()));
                queries.push(("mst", "CALL algo.mst() YIELD source, target, weight, total_weight".into()));
                queries.push(("flow", format!("CALL algo.maxFlow({}, {}) YIELD max_flow", sid, tid)));
            } else {
                queries.push(("dij", format!("CALL algo.weightedPath({}, {}, 'w') YIELD path, cost", sid, tid)));
                queries.push(("mst", "CALL algo.mst('w') YIELD source, target, weight, total_weight".into()));
                queries.push(("flow", format!("CALL algo.maxFlow({}, {}, 'w') YIELD max_flow", sid, tid)));
            }
        }
        for (f, q) in &queries {
            if *f == "flow" && s == t {
                continue; // single-node projection: source = sink is exercised (bounded) at crate level
            }
            cx.rep.count(&format!("call:{}", f));
            trace(&format!("call {} on {}", q, desc_txt));
            let recs = match call(&store, q) {
                Ok(r) => r,
                Err(e) => {
                    fail = Some(format!("{} -> {}", q, e));
                    break;
                }
            };
            let val: Option<String> = match *f {
                "wcc" | "scc" => part(&recs),
                "bfs" | "dij" => path(&recs),
                "tri" => recs.first().and_then(|r| rec_int(r, "triangles")).map(|x| x.to_string()),
                "flow" => recs.first().and_then(|r| rec_float(r, "max_flow")).and_then(int_of).map(|x| x.to_string()),
                "lcc" => {
                    let mut m: HashMap<usize, f64> = HashMap::new();
                    for r in &recs {
                        if let (Some(id), Some(c)) = (rec_node_id(r, "node"), rec_float(r, "coefficient")) {
                            if let Some(i) = ix.get(&id) {
                                m.insert(*i, c);
                            }
                        }
                    }
                    if m.len() == mg.n {
                        Some((0..mg.n).map(|i| format!("{:016x}", m[&i].to_bits())).collect::<Vec<_>>().join(","))
                    } else {
                        None
                    }
                }
                "mst" => {
                    let mut tot = None;
                    let mut es = vec![];
                    let mut ok = true;
                    for r in &recs {
                        if r.has("total_weight") {
                            tot = rec_float(r, "total_weight").and_then(int_of);
                        } else {
                            match (rec_node_id(r, "source"), rec_node_id(r, "target"), rec_float(r, "weight").and_then(int_of)) {
                                (Some(a), Some(b), Some(w)) if ix.contains_key(&a) && ix.contains_key(&b) => es.push(format!("{}-{}-{}", ix[&a], ix[&b], w)),
                                _ => ok = false,
                            }
                        }
                    }
                    if ok { tot.map(|t| format!("{}:{}", t, if es.is_empty() { "-".into() } else { es.join(",") })) } else { None }
                }
                _ => None,
            };
            match val {
                Some(v) => obs.push(format!("{}={}", f, v)),
                None => {
                    fail = Some(format!("{} -> rows outside the protocol: {:?}", q, recs.len()));
                    break;
                }
            }
        }
        let body = format!("{}\ngraph {} s={} t={}\nobs {}", body, mg.text(), s, t, obs.join(" "));
        if let Some(e) = fail {
            cx.rep.spec_violation(&cx.known, "call-algo-rows", &format!("CALL algo.* result unusable: {}", e), &body);
            continue;
        }
        if obs.is_empty() {
            continue;
        }
        let sp = drv.ask(&format!("spec {} {} {} {}", mg.text(), s, t, obs.join(" ")));
        cx.rep.case(&format!("call {} {} {} | {}", mg.text(), s, t, obs.join(" ")), mg.nontrivial());
        if let Some(fields) = sp.strip_prefix("viol ") {
            for f in fields.split(',') {
                let sig = format!("call-{}", signature(&mg, s, t, f));
                cx.rep.spec_violation(&cx.known, &sig, &format!("CALL algo `{}` answer violates its specification for the requested projection", f), &format!("{}\nspec {}", body, sp));
            }
        } else if sp != "ok" {
            if cx.first_break.is_none() {
                cx.first_break = Some(format!("{}\nspec {}", body, sp));
            }
        }
    }
}

// ------------------------------------------------------------------------------------------


// ---------------------------------------------------------------------------------------
// Structured families: inputs a uniform random graph rarely produces, one group per
// algorithm.  Every family is emitted under a random relabelling of the node indices, a
// random shuffle of the edge listing (both change the CSR order and so the tie-break of
// BFS / the heap), and optionally mirrored (all edges reversed, source and target swapped).
// All of them go through `eval_cases`: same model comparison, same Lean certificate checks.
// ---------------------------------------------------------------------------------------

struct Shape {
    n: usize,
    edges: Vec<(usize, usize, u64)>,
    s: usize,
    t: usize,
}

fn shuffle<T>(rng: &mut Rng, v: &mut Vec<T>) {
    for i in (1..v.len()).rev() {
        let j = rng.usize(i + 1);
        v.swap(i, j);
    }
}

fn finish(rng: &mut Rng, sh: Shape, origin: &'static str, out: &mut Vec<Case>) {
    let Shape { n, mut edges, mut s, mut t } = sh;
    if n == 0 {
        return;
    }
    if rng.chance(1, 3) {
        edges = edges.into_iter().map(|(u, v, w)| (v, u, w)).collect();
        std::mem::swap(&mut s, &mut t);
    }
    let mut perm: Vec<usize> = (0..n).collect();
    if rng.chance(3, 4) {
        shuffle(rng, &mut perm);
    }
    let mut edges: Vec<(usize, usize, u64)> = edges.into_iter().map(|(u, v, w)| (perm[u], perm[v], w)).collect();
    match rng.usize(3) {
        0 => {}
        1 => edges.reverse(),
        _ => shuffle(rng, &mut edges),
    }
    out.push(Case { g: G { n, edges }, s: perm[s], t: perm[t], origin, only: None });
}

/// a path of fresh nodes from `a` to `b` with `len` edges (len >= 1), all of capacity `c`
fn add_path(n: &mut usize, edges: &mut Vec<(usize, usize, u64)>, a: usize, b: usize, len: usize, c: u64) {
    let mut cur = a;
    for _ in 1..len {
        let nx = *n;
        *n += 1;
        edges.push((cur, nx, c));
        cur = nx;
    }
    edges.push((cur, b, c));
}

/// max-flow: the classic shape where the shortest augmenting path s ~> a -> d ~> t is in no
/// maximum flow: a second unit reaches `d` over a longer route and the first one has to be
/// pushed back over d -> a and re-routed over a longer route from `a` to `t`.
fn flow_zigzag(rng: &mut Rng) -> Shape {
    let (mut n, mut edges) = (2usize, vec![]);
    let (s, t) = (0, 1);
    let c = 1 + rng.below(3);
    let (pre, suf) = (1 + rng.usize(2), 1 + rng.usize(2));
    let a = n;
    let d = n + 1;
    n += 2;
    add_path(&mut n, &mut edges, s, a, pre, c);
    edges.push((a, d, c));
    add_path(&mut n, &mut edges, d, t, suf, c);
    // longer route into d, longer route out of a
    add_path(&mut n, &mut edges, s, d, pre + 2 + rng.usize(2), c);
    add_path(&mut n, &mut edges, a, t, suf + 2 + rng.usize(2), c);
    if rng.chance(1, 3) {
        // a second stage of the same kind hanging off the first: more than one cancellation
        let (a2, d2) = (n, n + 1);
        n += 2;
        edges.push((s, a2, c));
        edges.push((a2, d2, c));
        edges.push((d2, t, c));
        add_path(&mut n, &mut edges, s, d2, 3, c);
        add_path(&mut n, &mut edges, a2, t, 3, c);
    }
    if rng.chance(1, 4) {
        // some slack somewhere: capacities are no longer all equal
        let k = rng.usize(edges.len());
        edges[k].2 += 1 + rng.below(2);
    }
    Shape { n, edges, s, t }
}

/// max-flow: two rails from s to t with rungs between them (unit / small capacities)
fn flow_ladder(rng: &mut Rng) -> Shape {
    let k = 2 + rng.usize(4); // rail length
    let n = 2 + 2 * k;
    let (s, t) = (0, 1);
    let up = |i: usize| 2 + i;
    let lo = |i: usize| 2 + k + i;
    let mut edges = vec![(s, up(0), 1 + rng.below(2)), (s, lo(0), 1 + rng.below(2)), (up(k - 1), t, 1 + rng.below(2)), (lo(k - 1), t, 1 + rng.below(2))];
    for i in 0..k - 1 {
        edges.push((up(i), up(i + 1), 1));
        edges.push((lo(i), lo(i + 1), 1));
    }
    for i in 0..k {
        match rng.usize(4) {
            0 => edges.push((up(i), lo(i), 1)),
            1 => edges.push((lo(i), up(i), 1)),
            2 if i + 1 < k => edges.push((up(i), lo(i + 1), 1)),
            3 if i + 1 < k => edges.push((lo(i), up(i + 1), 1)),
            _ => {}
        }
        if i + 2 < k && rng.chance(1, 3) {
            edges.push((up(i), lo(i + 2), 1 + rng.below(2))); // a shortcut: the tempting path
        }
    }
    Shape { n, edges, s, t }
}

/// max-flow: layered network, random edges between consecutive layers, a few skip edges
fn flow_layered(rng: &mut Rng) -> Shape {
    let layers = 2 + rng.usize(3);
    let width = 2 + rng.usize(2);
    let n = 2 + layers * width;
    let (s, t) = (0, 1);
    let at = |l: usize, i: usize| 2 + l * width + i;
    let cmax = 1 + rng.below(3);
    let mut edges = vec![];
    for i in 0..width {
        if rng.chance(3, 4) {
            edges.push((s, at(0, i), 1 + rng.below(cmax)));
        }
        if rng.chance(3, 4) {
            edges.push((at(layers - 1, i), t, 1 + rng.below(cmax)));
        }
    }
    for l in 0..layers - 1 {
        for i in 0..width {
            for j in 0..width {
                if rng.chance(1, 2) {
                    edges.push((at(l, i), at(l + 1, j), 1 + rng.below(cmax)));
                }
            }
        }
    }
    for _ in 0..rng.usize(3) {
        let l = rng.usize(layers);
        let l2 = rng.usize(layers);
        if l + 1 < l2 {
            edges.push((at(l, rng.usize(width)), at(l2, rng.usize(width)), 1)); // skip edge = shorter path
        }
    }
    Shape { n, edges, s, t }
}

/// max-flow: sparse random digraph with small capacities, sink = a node farthest from the source
/// (long augmenting paths of different lengths, unlike a dense random graph)
fn flow_sparse_far(rng: &mut Rng) -> Shape {
    let n = 9 + rng.usize(10);
    let m = n + n / 2 + rng.usize(n);
    let cmax = if rng.chance(3, 4) { 1 } else { 2 };
    let mut edges = vec![];
    let mut seen = std::collections::HashSet::new();
    for _ in 0..m {
        let (u, v) = (rng.usize(n), rng.usize(n));
        if u != v && !seen.contains(&(v, u)) && seen.insert((u, v)) {
            edges.push((u, v, 1 + rng.below(cmax)));
        }
    }
    let s = rng.usize(n);
    let mut dist = vec![usize::MAX; n];
    dist[s] = 0;
    let mut q = std::collections::VecDeque::from([s]);
    let mut t = s;
    while let Some(u) = q.pop_front() {
        for (a, b, _) in &edges {
            if *a == u && dist[*b] == usize::MAX {
                dist[*b] = dist[u] + 1;
                t = *b;
                q.push_back(*b);
            }
        }
    }
    if t == s {
        t = (s + 1) % n;
    }
    Shape { n, edges, s, t }
}

/// max-flow: bipartite matching as a unit network
fn flow_matching(rng: &mut Rng) -> Shape {
    let (l, r) = (2 + rng.usize(5), 2 + rng.usize(5));
    let n = 2 + l + r;
    let (s, t) = (0, 1);
    let mut edges = vec![];
    for i in 0..l {
        edges.push((s, 2 + i, 1));
    }
    for j in 0..r {
        edges.push((2 + l + j, t, 1));
    }
    let deg = 1 + rng.usize(3);
    for i in 0..l {
        for _ in 0..deg {
            // skewed towards the first right-hand nodes: several left nodes compete for them
            let j = if rng.chance(1, 2) { rng.usize(r.min(2)) } else { rng.usize(r) };
            edges.push((2 + i, 2 + l + j, 1));
        }
    }
    Shape { n, edges, s, t }
}

/// Dijkstra: a complete DAG where the unit chain is cheapest and w(i,j) grows faster than
/// j - i: every node is queued early with a bad distance and improved again and again;
/// zero-weight edges and parallel edges of different weights sprinkled in
fn sp_staircase(rng: &mut Rng) -> Shape {
    let n = 4 + rng.usize(9);
    let mut edges = vec![];
    let kind = rng.usize(3);
    for i in 0..n {
        for j in i + 1..n {
            let d = (j - i) as u64;
            let w = match kind {
                0 => d * d,
                1 => d * 10 - (d - 1), // barely better to take single steps... or not
                _ => 1 + (d - 1) * (n as u64),
            };
            if d == 1 || rng.chance(2, 3) {
                edges.push((i, j, w));
            }
        }
    }
    for _ in 0..rng.usize(4) {
        let (i, j) = (rng.usize(n), rng.usize(n));
        edges.push((i, j, 0)); // zero-weight edge, any direction (may close a zero/positive cycle)
    }
    for _ in 0..rng.usize(4) {
        let k = rng.usize(edges.len());
        let (u, v, w) = edges[k];
        let w2 = if rng.chance(1, 2) { w + 1 + rng.below(5) } else { w.saturating_sub(1 + rng.below(3)) };
        if rng.chance(1, 2) {
            edges.insert(k, (u, v, w2)); // listed before
        } else {
            edges.push((u, v, w2));
        }
    }
    Shape { n, edges, s: 0, t: n - 1 }
}

/// Dijkstra / BFS: plateaus of zero-weight edges (cycles included) joined by positive ones;
/// hop-shortest and weight-shortest paths differ
fn sp_plateaus(rng: &mut Rng) -> Shape {
    let groups = 2 + rng.usize(3);
    let size = 1 + rng.usize(3);
    let n = groups * size + 1;
    let mut edges = vec![];
    for g in 0..groups {
        for i in 0..size {
            edges.push((g * size + i, g * size + (i + 1) % size, 0)); // zero cycle (self-loop when size = 1)
        }
        if g + 1 < groups {
            edges.push((g * size + rng.usize(size), (g + 1) * size + rng.usize(size), 1 + rng.below(4)));
        }
    }
    let t = n - 1;
    edges.push(((groups - 1) * size, t, 1));
    edges.push((0, t, 3 * groups as u64 + rng.below(6))); // one hop, maybe heavier than the long way
    Shape { n, edges, s: 0, t }
}

/// SCC / WCC: cycles inside cycles, figure-eights, chords
fn cc_nested_cycles(rng: &mut Rng) -> Shape {
    let n = 3 + rng.usize(12);
    let mut edges: Vec<(usize, usize, u64)> = (0..n).map(|i| (i, (i + 1) % n, 1)).collect();
    if rng.chance(1, 3) {
        edges.pop(); // open the outer cycle: only the chords create components now
    }
    for _ in 0..rng.usize(5) {
        let (i, j) = (rng.usize(n), rng.usize(n));
        edges.push((i.max(j), i.min(j), 1)); // a back chord: an inner cycle
    }
    for _ in 0..rng.usize(3) {
        let (i, j) = (rng.usize(n), rng.usize(n));
        edges.push((i.min(j), i.max(j), 1)); // a forward chord
    }
    Shape { n, edges, s: 0, t: n / 2 }
}

/// SCC / WCC: long chains (deep recursion / long union chains), optionally closed
fn cc_chain(rng: &mut Rng) -> Shape {
    let n = 10 + rng.usize(40);
    let mut edges: Vec<(usize, usize, u64)> = (0..n - 1).map(|i| (i, i + 1, 1 + rng.below(3))).collect();
    match rng.usize(4) {
        0 => edges.push((n - 1, 0, 1)),
        1 => edges.push((n / 2, 0, 1)),
        2 => {
            let k = rng.usize(edges.len());
            edges.remove(k); // two chains
        }
        _ => {}
    }
    Shape { n, edges, s: 0, t: n - 1 }
}

/// SCC / WCC: a DAG of strongly connected blobs (the condensation is not trivial);
/// now and then a back edge merges a whole stretch of it
fn cc_condensation(rng: &mut Rng) -> Shape {
    let blobs = 2 + rng.usize(5);
    let mut start = vec![];
    let mut n = 0;
    let mut edges = vec![];
    for _ in 0..blobs {
        let k = 1 + rng.usize(4);
        start.push((n, k));
        if k > 1 {
            for i in 0..k {
                edges.push((n + i, n + (i + 1) % k, 1));
            }
        }
        n += k;
    }
    for b in 0..blobs {
        for c in b + 1..blobs {
            if c == b + 1 && rng.chance(3, 4) || rng.chance(1, 4) {
                edges.push((start[b].0 + rng.usize(start[b].1), start[c].0 + rng.usize(start[c].1), 1 + rng.below(3)));
            }
        }
    }
    if rng.chance(1, 4) {
        let (b, c) = (rng.usize(blobs), rng.usize(blobs));
        edges.push((start[b.max(c)].0, start[b.min(c)].0, 1));
    }
    Shape { n, edges, s: 0, t: n - 1 }
}

/// MST: every node is attached to the part built so far only by an edge pointing INTO that
/// part (Prim has to look at incoming edges), with parallel edges heavier-first
fn mst_incoming(rng: &mut Rng) -> Shape {
    let n = 2 + rng.usize(9);
    let mut edges = vec![];
    for v in 1..n {
        let u = rng.usize(v);
        let w = 1 + rng.below(9);
        if rng.chance(1, 2) {
            edges.push((v, u, w + 1 + rng.below(9))); // heavier twin listed first
        }
        edges.push((v, u, w));
        if rng.chance(1, 3) {
            let u2 = rng.usize(v);
            edges.push((v, u2, 1 + rng.below(12))); // a cycle in the underlying graph
        }
    }
    Shape { n, edges, s: 0, t: n - 1 }
}

/// MST: several components (the answer spans only the start node's one), isolated nodes,
/// a cycle with exactly one heavy edge, equal weights
fn mst_disconnected(rng: &mut Rng) -> Shape {
    let comps = 2 + rng.usize(3);
    let mut n = 0;
    let mut edges = vec![];
    for _ in 0..comps {
        let k = 1 + rng.usize(5);
        if k >= 3 {
            let heavy = rng.usize(k);
            let base = 1 + rng.below(3);
            for i in 0..k {
                let w = if i == heavy { base + 5 } else { base };
                if rng.chance(1, 2) { edges.push((n + i, n + (i + 1) % k, w)) } else { edges.push((n + (i + 1) % k, n + i, w)) }
            }
        } else if k == 2 {
            edges.push((n + 1, n, 1 + rng.below(4)));
        }
        n += k;
    }
    Shape { n, edges, s: 0, t: n - 1 }
}

fn structured_cases(rng: &mut Rng, per_family: usize, out: &mut Vec<Case>) {
    for _ in 0..per_family {
        let sh = flow_zigzag(rng);
        finish(rng, sh, "structured:flow-zigzag", out);
        let sh = flow_ladder(rng);
        finish(rng, sh, "structured:flow-ladder", out);
        let sh = flow_layered(rng);
        finish(rng, sh, "structured:flow-layered", out);
        let sh = flow_matching(rng);
        finish(rng, sh, "structured:flow-matching", out);
        let sh = flow_sparse_far(rng);
        finish(rng, sh, "structured:flow-sparse-far", out);
        let sh = sp_staircase(rng);
        finish(rng, sh, "structured:sp-staircase", out);
        let sh = sp_plateaus(rng);
        finish(rng, sh, "structured:sp-plateaus", out);
        let sh = cc_nested_cycles(rng);
        finish(rng, sh, "structured:cc-nested-cycles", out);
        let sh = cc_chain(rng);
        finish(rng, sh, "structured:cc-chain", out);
        let sh = cc_condensation(rng);
        finish(rng, sh, "structured:cc-condensation", out);
        let sh = mst_incoming(rng);
        finish(rng, sh, "structured:mst-incoming", out);
        let sh = mst_disconnected(rng);
        finish(rng, sh, "structured:mst-disconnected", out);
    }
}

/// coverage metric: would a shortest-augmenting-path search that never uses a reverse
/// residual arc (other than an original antiparallel edge) stop short of `maxflow` here?
fn needs_cancellation(g: &G, s: usize, t: usize, maxflow: u64) -> bool {
    if s == t {
        return false;
    }
    let n = g.n;
    let mut cap: HashMap<(usize, usize), u64> = HashMap::new();
    let mut succ: Vec<Vec<usize>> = vec![vec![]; n];
    for (u, v, w) in &g.edges {
        if !cap.contains_key(&(*u, *v)) {
            succ[*u].push(*v);
        }
        *cap.entry((*u, *v)).or_insert(0) += *w;
    }
    let mut total = 0u64;
    loop {
        let mut parent: Vec<Option<usize>> = vec![None; n];
        let mut seen = vec![false; n];
        seen[s] = true;
        let mut q = std::collections::VecDeque::from([s]);
        while let Some(u) = q.pop_front() {
            if u == t {
                break;
            }
            for v in &succ[u] {
                if !seen[*v] && cap[&(u, *v)] > 0 {
                    seen[*v] = true;
                    parent[*v] = Some(u);
                    q.push_back(*v);
                }
            }
        }
        if !seen[t] {
            break;
        }
        let mut b = u64::MAX;
        let mut v = t;
        while let Some(u) = parent[v] {
            b = b.min(cap[&(u, v)]);
            v = u;
        }
        let mut v = t;
        while let Some(u) = parent[v] {
            *cap.get_mut(&(u, v)).unwrap() -= b;
            if let Some(r) = cap.get_mut(&(v, u)) {
                *r += b;
            }
            v = u;
        }
        total += b;
    }
    total < maxflow
}

fn random_graph(rng: &mut Rng, nmax: usize) -> G {
    let n = 1 + rng.usize(nmax);
    let style = rng.usize(5);
    let m = match style {
        0 => rng.usize(n + 1),          // sparse: several components
        1 => n + rng.usize(2 * n + 1),  // medium
        2 => rng.usize(n * 3 + 1),
        3 => n.saturating_sub(1),       // path-like below
        _ => rng.usize(n * 4 + 1),
    };
    let wmax = *rng.pick(&[1u64, 3, 20]);
    let mut edges = vec![];
    for k in 0..m {
        let (u, v) = if style == 3 { (k, k + 1) } else { (rng.usize(n), rng.usize(n)) };
        let w = if rng.chance(1, 10) { 0 } else { 1 + rng.below(wmax) };
        edges.push((u, v, w));
        if rng.chance(1, 6) {
            // a parallel edge, either direction, heavier or lighter, listed right after
            let w2 = 1 + rng.below(wmax + 5);
            if rng.chance(1, 2) { edges.push((u, v, w2)) } else { edges.push((v, u, w2)) }
        }
    }
    if style == 3 && rng.chance(1, 2) && n > 2 {
        edges.push((n - 1, 0, 1 + rng.below(wmax)));
    }
    G { n, edges }
}

fn random_store(rng: &mut Rng) -> StoreDesc {
    let n = 1 + rng.usize(7);
    let nodes: Vec<u8> = (0..n).map(|_| *rng.pick(&[1u8, 1, 3, 2, 0, 3])).collect();
    let m = rng.usize(3 * n + 1);
    let edges = (0..m)
        .map(|_| {
            let w = match rng.usize(6) {
                0 => WKind::Missing,
                1 => WKind::Text,
                2 | 3 => WKind::Int(rng.below(9)),
                _ => WKind::Float(1 + rng.below(9)),
            };
            (rng.usize(n), rng.usize(n), if rng.chance(2, 3) { 0 } else { 1 }, w)
        })
        .collect();
    StoreDesc { nodes, edges, hint: None }
}

fn exhaustive(n: usize, len: usize, out: &mut Vec<Case>) {
    // all ordered edge listings of exactly `len` edges over n nodes, weights {1,2,5}; (s,t) cycles
    let mut alpha = vec![];
    for u in 0..n {
        for v in 0..n {
            for w in [1u64, 2, 5] {
                alpha.push((u, v, w));
            }
        }
    }
    let a = alpha.len();
    let total = a.pow(len as u32);
    for mut x in 0..total {
        let code = x;
        let mut edges = Vec::with_capacity(len);
        for _ in 0..len {
            edges.push(alpha[x % a]);
            x /= a;
        }
        let st = code % (n * n);
        out.push(Case { g: G { n, edges }, s: st / n, t: st % n, origin: "exhaustive", only: None });
    }
}

fn main() {
    let args = Args::parse();
    let known = Known::load(&args.known, "C26");
    let rep = Report::new(
        "C26",
        "cases = (directed multigraph with integer weights in listing order, source, target) through the crate functions, \
         and stores through build_view + CALL algo.*; non-trivial = n >= 3 and the graph has a cycle, a parallel edge or a self-loop; \
         distinct = distinct (graph, s, t) text",
        &args.replays,
        args.seed,
    );
    let exe = args.driver_exe("drv_algo");
    let mut cx = Ctx { rep, known, hang_seen: false, first_break: None };
    let bound = Duration::from_secs(5);

    // 1. corpus / replay
    let mut cases: Vec<Case> = vec![];
    let mut store_cases: Vec<StoreDesc> = vec![];
    let mut files: Vec<std::path::PathBuf> = vec![];
    if let Some(r) = &args.replay {
        files.push(r.clone());
    } else if let Ok(rd) = std::fs::read_dir(args.corpus.join("C26")) {
        files = rd.filter_map(|e| e.ok().map(|e| e.path())).collect();
        files.sort();
    }
    for f in &files {
        for line in std::fs::read_to_string(f).unwrap_or_default().lines() {
            let tok: Vec<&str> = line.split_whitespace().collect();
            if (tok.len() == 3 || tok.len() == 4) && tok[0] == "storecase" {
                if let Some(mut d) = StoreDesc::parse(tok[1], tok[2]) {
                    if let Some((a, b)) = tok.get(3).and_then(|x| x.strip_prefix("st=")).and_then(|x| x.split_once('.')) {
                        if let (Ok(a), Ok(b)) = (a.parse::<usize>(), b.parse::<usize>()) {
                            if a < d.nodes.len() && b < d.nodes.len() {
                                d.hint = Some((a, b));
                            }
                        }
                    }
                    store_cases.push(d);
                }
            }
            if tok.len() == 4 && tok[0] == "case" {
                if let (Some(g), Ok(s), Ok(t)) = (G::parse(tok[1]), tok[2].parse::<usize>(), tok[3].parse::<usize>()) {
                    if s < g.n && t < g.n {
                        cases.push(Case { g, s, t, origin: "corpus", only: None });
                    }
                }
            }
        }
    }
    cx.rep.count_n("corpus_cases", cases.len() as u64);
    eval_cases(&mut cx, &exe, &cases, bound);
    cases.clear();
    if !store_cases.is_empty() {
        let mut drv = driver::Driver::spawn(&exe);
        for d in &store_cases {
            eval_store(&mut cx, &mut drv, d);
        }
    }

    if args.replay.is_none() {
        // 2. exhaustive small scopes
        for n in 1..=2 {
            for l in 0..=3 {
                exhaustive(n, l, &mut cases);
            }
        }
        for l in 0..=2 {
            exhaustive(3, l, &mut cases);
        }
        if args.thorough() {
            exhaustive(3, 3, &mut cases);
            exhaustive(4, 2, &mut cases);
            exhaustive(4, 3, &mut cases);
        } else {
            // a deterministic third of the 3-node, 3-edge listings per seed
            let mut all = vec![];
            exhaustive(3, 3, &mut all);
            let off = (args.seed % 3) as usize;
            cases.extend(all.into_iter().enumerate().filter(|(i, _)| i % 3 == off).map(|(_, c)| c));
        }
        cx.rep.exhaustive = true;
        cx.rep.exhaustive_note = format!(
            "all ordered edge listings (weights 1,2,5; self-loops and parallel edges in both listing orders included) with <= 3 edges on 1-2 nodes and <= 2 edges on 3 nodes{}; (source,target) cycles through all pairs including source = target; plus PRNG graphs, structured families (flow zig-zag / ladder / layered / matching / sparse-far, Dijkstra staircase / zero plateaus, nested cycles / chains / condensations, MST incoming-only / disconnected; relabelled, shuffled, mirrored) and stores (not exhaustive)",
            if args.thorough() { ", all 3-edge listings on 3 nodes and all listings of <= 3 edges on 4 nodes" } else { ", and one third (by seed) of the 3-edge listings on 3 nodes" }
        );
        for chunk in cases.chunks(20_000) {
            eval_cases(&mut cx, &exe, chunk, bound);
        }
        cases.clear();

        // 3. random graphs
        let mut rng = Rng::new(args.seed);
        let (n_rand, nmax) = if args.thorough() { (20000, 64) } else { (700, 24) };
        for i in 0..n_rand {
            let g = random_graph(&mut rng, if i % 10 == 0 { nmax } else { nmax / 2 });
            let s = rng.usize(g.n);
            let t = if rng.chance(1, 12) { s } else { rng.usize(g.n) };
            cases.push(Case { g, s, t, origin: "random", only: None });
        }
        for chunk in cases.chunks(2_000) {
            eval_cases(&mut cx, &exe, chunk, bound);
        }
        cases.clear();

        // 3a. structured families (see `structured_cases`): quick tier too
        let per_family = if args.thorough() { 600 } else { 45 };
        structured_cases(&mut rng, per_family, &mut cases);
        for chunk in cases.chunks(2_000) {
            eval_cases(&mut cx, &exe, chunk, bound);
        }
        cases.clear();

        // 3b. on both sides of n = 1000 (count_triangles / LCC switch to rayon there):
        //     sparse graphs, triangle count, LCC and WCC only
        let bigs: &[usize] = if args.thorough() { &[999, 1000, 1001, 1200] } else { &[999, 1000] };
        for n in bigs {
            let mut edges = vec![];
            for _ in 0..(2 * n) {
                let (u, v) = (rng.usize(*n), rng.usize(*n));
                edges.push((u, v, 1 + rng.below(5)));
                if rng.chance(1, 4) {
                    // close a triangle now and then
                    let w = rng.usize(*n);
                    edges.push((v, w, 1));
                    edges.push((w, u, 1));
                }
            }
            cases.push(Case { g: G { n: *n, edges }, s: 0, t: 1, origin: "threshold", only: Some(&["tri", "lcc", "wcc"]) });
        }
        eval_cases(&mut cx, &exe, &cases, Duration::from_secs(60));
        cases.clear();

        // 4. stores through build_view and CALL algo.*
        let mut drv = driver::Driver::spawn(&exe);
        let n_store = if args.thorough() { 600 } else { 60 };
        for _ in 0..n_store {
            let d = random_store(&mut rng);
            eval_store(&mut cx, &mut drv, &d);
        }
        // structured shapes through build_view + CALL algo.* as well
        let n_struct = if args.thorough() { 60 } else { 8 };
        for i in 0..n_struct {
            let mut tmp = vec![];
            let sh = match i % 4 {
                0 => flow_zigzag(&mut rng),
                1 => flow_matching(&mut rng),
                2 => mst_incoming(&mut rng),
                _ => sp_staircase(&mut rng),
            };
            finish(&mut rng, sh, "structured-store", &mut tmp);
            let Some(c) = tmp.pop() else { continue };
            let d = StoreDesc {
                nodes: vec![1; c.g.n],
                edges: c.g.edges.iter().map(|(u, v, w)| (*u, *v, 0u8, if rng.chance(1, 2) { WKind::Int(*w) } else { WKind::Float(*w) })).collect(),
                hint: Some((c.s, c.t)),
            };
            cx.rep.count("structured_stores");
            eval_store(&mut cx, &mut drv, &d);
        }
        // the shape of the witness in the property text, through the whole stack
        let d = StoreDesc { nodes: vec![1, 1, 1], edges: vec![(1, 0, 0, WKind::Int(10)), (1, 0, 0, WKind::Int(1)), (1, 2, 0, WKind::Float(4))], hint: None };
        eval_store(&mut cx, &mut drv, &d);
    }

    if let Some(body) = cx.first_break.take() {
        if cx.rep.spec_violations.is_empty() {
            cx.rep.correspondence_break(
                "SgModel.Algo reference answers / certificates = samyama_graph_algorithms answers",
                "model and implementation answers differ (or the driver produced no certificate) although the specification holds on all explored cases",
                &body,
            );
        }
    }
    cx.rep.write(&args.out);
}
