//! C02 — query results do not depend on indexes, storage tier, planner mode or process.
//!
//! Metamorphic correspondence.  Each case is a write history over handles plus a list of read
//! queries.  The history is replayed into stores that differ in index placement
//! {none | all before | all in the middle | all after | a partial set before} and compaction
//! {never | in the middle | at the end}; every query is executed through `QueryEngine::execute`
//! under SAMYAMA_GRAPH_NATIVE ∈ {unset, true} × SAMYAMA_FILTER_PARALLEL_COST ∈ {0, 1000000}.
//! The whole evaluation runs in child processes (this binary with `--child`), every shard
//! twice: per-process SipHash keys make every HashMap/HashSet iteration order differ between
//! the two, and the parent diffs their canonical output line by line.  The parent then asks
//! the compiled Lean model (`drv_idxscan`) for the model rows (`run`) and evaluates the
//! executable specification on every distinct observation (`spec`).
use samyama::graph::{EdgeId, GraphStore, NodeId, PropertyValue};
use samyama::query::executor::Value;
use samyama::query::QueryEngine;
use serde_json::json;
use std::collections::{BTreeMap, BTreeSet, HashMap};
use std::io::Write;
use vharness::{driver, Args, Known, Report, Rng};

// ---------------------------------------------------------------------------------------------
// values
// ---------------------------------------------------------------------------------------------

#[derive(Clone, Debug, PartialEq)]
enum Val {
    Null,
    Bool(bool),
    Int(i64),
    /// halves: Flt(h) is h/2 (Flt(0) is +0.0)
    Flt(i64),
    /// -0.0: `==` to 0.0 and 0, a different B-tree key
    NZero,
    /// NaN (written `0.0/0.0`): a key of its own, equal to nothing
    NaN,
    Str(Vec<u8>),
    Lst(Vec<i64>),
}

impl Val {
    fn proto(&self) -> String {
        match self {
            Val::Null => "n".into(),
            Val::Bool(true) => "bt".into(),
            Val::Bool(false) => "bf".into(),
            Val::Int(i) => format!("i{}", i),
            Val::Flt(h) => format!("f{}", h),
            Val::NZero => "z".into(),
            Val::NaN => "N".into(),
            Val::Str(s) => format!("s{}", s.iter().map(|b| format!("{:02x}", b)).collect::<String>()),
            Val::Lst(l) => format!("l{}", l.iter().map(|i| i.to_string()).collect::<Vec<_>>().join(".")),
        }
    }
    fn parse(s: &str) -> Option<Val> {
        Some(match s {
            "n" => Val::Null,
            "bt" => Val::Bool(true),
            "bf" => Val::Bool(false),
            "z" => Val::NZero,
            "N" => Val::NaN,
            "" => return None,
            _ => {
                let (k, rest) = s.split_at(1);
                match k {
                    "i" => Val::Int(rest.parse().ok()?),
                    "f" => Val::Flt(rest.parse().ok()?),
                    "s" => {
                        if rest.len() % 2 != 0 {
                            return None;
                        }
                        let mut v = vec![];
                        for i in (0..rest.len()).step_by(2) {
                            v.push(u8::from_str_radix(&rest[i..i + 2], 16).ok()?);
                        }
                        Val::Str(v)
                    }
                    "l" => {
                        if rest.is_empty() {
                            Val::Lst(vec![])
                        } else {
                            Val::Lst(rest.split('.').map(|x| x.parse().ok()).collect::<Option<Vec<i64>>>()?)
                        }
                    }
                    _ => return None,
                }
            }
        })
    }
    fn cypher(&self) -> String {
        match self {
            Val::Null => "null".into(),
            Val::Bool(b) => b.to_string(),
            Val::Int(i) => i.to_string(),
            Val::Flt(h) => {
                let f = *h as f64 / 2.0;
                if h % 2 == 0 {
                    format!("{:.1}", f)
                } else {
                    format!("{}", f)
                }
            }
            Val::NZero => "-0.0".into(),
            Val::NaN => "(0.0 / 0.0)".into(),
            Val::Str(s) => format!("'{}'", String::from_utf8_lossy(s)),
            Val::Lst(l) => format!("[{}]", l.iter().map(|i| i.to_string()).collect::<Vec<_>>().join(", ")),
        }
    }
    /// same key as `SgModel.IdxScan.valKey`
    fn key(&self) -> Vec<i64> {
        match self {
            Val::Null => vec![0],
            Val::Bool(b) => vec![1, *b as i64],
            Val::Int(i) => vec![2, *i],
            Val::Flt(h) => vec![3, *h],
            Val::NZero => vec![6],
            Val::NaN => vec![7],
            Val::Str(s) => std::iter::once(4).chain(s.iter().map(|b| *b as i64)).collect(),
            Val::Lst(l) => std::iter::once(5).chain(l.iter().copied()).collect(),
        }
    }
}

fn pv_to_proto(p: &PropertyValue) -> String {
    match p {
        PropertyValue::Null => "n".into(),
        PropertyValue::Boolean(b) => Val::Bool(*b).proto(),
        PropertyValue::Integer(i) => Val::Int(*i).proto(),
        PropertyValue::Float(f) if f.is_nan() => "N".into(),
        PropertyValue::Float(f) if *f == 0.0 && f.is_sign_negative() => "z".into(),
        PropertyValue::Float(f) => {
            let h = f * 2.0;
            if h.fract() == 0.0 && h.abs() < 1e15 {
                Val::Flt(h as i64).proto()
            } else {
                format!("X:float:{:016x}", f.to_bits())
            }
        }
        PropertyValue::String(s) => Val::Str(s.as_bytes().to_vec()).proto(),
        PropertyValue::Array(a) => {
            let mut l = vec![];
            for x in a {
                match x {
                    PropertyValue::Integer(i) => l.push(*i),
                    _ => return "X:array".into(),
                }
            }
            Val::Lst(l).proto()
        }
        other => format!("X:{}", format!("{:?}", other).split('(').next().unwrap_or("?")),
    }
}

fn value_to_proto(v: Option<&Value>) -> String {
    match v {
        None | Some(Value::Null) => "n".into(),
        Some(Value::Property(p)) => pv_to_proto(p),
        Some(Value::List(items)) => {
            let mut l = vec![];
            for x in items {
                match x {
                    Value::Property(PropertyValue::Integer(i)) => l.push(*i),
                    _ => return "X:list".into(),
                }
            }
            Val::Lst(l).proto()
        }
        Some(_) => "X:value".into(),
    }
}

/// canonical bag: rows sorted by the model's `rowKey`
fn canon_bag(mut rows: Vec<Vec<String>>) -> String {
    if rows.is_empty() {
        return "-".into();
    }
    let key = |r: &Vec<String>| -> Vec<i64> {
        let mut k = vec![];
        for v in r {
            match Val::parse(v) {
                Some(x) => {
                    let vk = x.key();
                    k.push(vk.len() as i64);
                    k.extend(vk);
                }
                None => {
                    k.push(99);
                    k.extend(v.bytes().map(|b| b as i64));
                }
            }
        }
        k
    };
    rows.sort_by(|a, b| key(a).cmp(&key(b)));
    rows.iter().map(|r| r.join(",")).collect::<Vec<_>>().join("/")
}

// ---------------------------------------------------------------------------------------------
// cases
// ---------------------------------------------------------------------------------------------

const LABELS: [&str; 4] = ["?", "A", "B", "C"];
const KEYS: [&str; 3] = ["h", "x", "y"];
const TYPES: [&str; 3] = ["?", "R", "S"];

#[derive(Clone, Debug)]
enum HOp {
    Create { h: u64, labels: Vec<u8>, props: Vec<(u8, Val)> },
    Set { h: u64, key: u8, v: Val, merge_form: bool },
    Remove { h: u64, key: u8 },
    Delete { h: u64 },
    AddLabel { h: u64, l: u8 },
    RemoveLabel { h: u64, l: u8 },
    CreateEdge { e: u64, src: u64, dst: u64, ty: u8 },
    DeleteEdge { e: u64 },
}

#[derive(Clone, Debug)]
enum Pred {
    Cmp { key: u8, op: &'static str, v: Val },
    In { key: u8, vs: Vec<Val> },
}

#[derive(Clone, Debug)]
struct Query {
    label: u8,
    preds: Vec<Pred>,
    /// None = count(n), Some(k) = n.k
    ret: Option<u8>,
    /// (type, outgoing, target label)
    hop: Option<(u8, bool, u8)>,
    /// plain | flip (operands and pattern reversed) | rev (pattern reversed) | inline | with
    form: &'static str,
    /// `Some(i)`: the fixed text `RAW[i]`, outside the Lean model (its predicate can raise):
    /// compared across configurations and processes only
    raw: Option<RawQ>,
}

/// a query outside the Lean model: compared across configurations and processes only
#[derive(Clone, Debug)]
enum RawQ {
    /// `RAW[i]`
    Fixed(usize),
    /// generated text, its result columns, and a structural tag for signatures
    Text(String, Vec<String>, String),
}

fn hex_of(s: &str) -> String {
    s.bytes().map(|b| format!("{:02x}", b)).collect()
}
fn unhex_str(s: &str) -> Option<String> {
    if s.len() % 2 != 0 {
        return None;
    }
    let mut v = vec![];
    for i in (0..s.len()).step_by(2) {
        v.push(u8::from_str_radix(&s[i..i + 2], 16).ok()?);
    }
    String::from_utf8(v).ok()
}

/// queries whose predicate raises a type error on some rows
const RAW: [(&str, &str); 3] = [
    ("MATCH (n:A) WHERE n.x + 1 > 3 RETURN count(n)", "count(n)"),
    ("MATCH (n:A) WHERE n.x RETURN count(n)", "count(n)"),
    ("MATCH (n:A) WHERE n.x * 2 >= 2 AND n.h > 0 RETURN n.h", "n.h"),
];

#[derive(Clone, Debug)]
struct Case {
    ops: Vec<HOp>,
    queries: Vec<Query>,
    /// position (number of ops replayed before) of the "middle" index creation
    ix_mid: usize,
    /// position of the "middle" compaction (`None` only in old corpus lines: no middle compaction)
    cp_mid: Option<usize>,
    /// the partial index set
    partial: Vec<(u8, u8)>,
}

fn ops_of(s: &str) -> Option<&'static str> {
    Some(match s {
        "eq" => "eq",
        "lt" => "lt",
        "le" => "le",
        "gt" => "gt",
        "ge" => "ge",
        _ => return None,
    })
}

impl Case {
    /// the history in the model driver's syntax (handles are the model's node ids)
    fn model_ops(&self) -> String {
        let mut out: Vec<String> = vec![];
        for op in &self.ops {
            match op {
                HOp::Create { h, labels, props } => {
                    let ls = if labels.is_empty() {
                        "-".to_string()
                    } else {
                        labels.iter().map(|l| l.to_string()).collect::<Vec<_>>().join(".")
                    };
                    out.push(format!("c:{}:{}", h, ls));
                    out.push(format!("s:{}:0:i{}", h, h));
                    for (k, v) in props {
                        out.push(format!("s:{}:{}:{}", h, k, v.proto()));
                    }
                }
                HOp::Set { h, key, v, .. } => out.push(format!("s:{}:{}:{}", h, key, v.proto())),
                HOp::Remove { h, key } => out.push(format!("r:{}:{}", h, key)),
                HOp::Delete { h } => out.push(format!("d:{}", h)),
                HOp::AddLabel { h, l } => out.push(format!("al:{}:{}", h, l)),
                HOp::RemoveLabel { h, l } => out.push(format!("rl:{}:{}", h, l)),
                HOp::CreateEdge { e, src, dst, ty } => out.push(format!("ce:{}:{}:{}:{}", e, src, dst, ty)),
                HOp::DeleteEdge { e } => out.push(format!("de:{}", e)),
            }
        }
        if out.is_empty() {
            "-".into()
        } else {
            out.join(";")
        }
    }
    fn model_queries(&self) -> String {
        self.queries.iter().filter(|q| q.raw.is_none()).map(|q| q.model()).collect::<Vec<_>>().join(";")
    }
    /// the observation restricted to the modelled queries
    fn modelled_obs(&self, obs: &str) -> String {
        obs.split(';').zip(self.queries.iter()).filter(|(_, q)| q.raw.is_none()).map(|(b, _)| b).collect::<Vec<_>>().join(";")
    }
    /// the model's reply with `?` at the positions of the unmodelled queries
    fn full_model(&self, model: &str) -> String {
        let mut it = model.strip_prefix("ok ").unwrap_or(model).split(';');
        self.queries.iter().map(|q| if q.raw.is_some() { "?" } else { it.next().unwrap_or("?") }).collect::<Vec<_>>().join(";")
    }
    /// one line, replayable: `case <ix_mid> <cp_mid|-> <partial> <ops> <queries>`
    fn render(&self) -> String {
        let ops: Vec<String> = self
            .ops
            .iter()
            .map(|op| match op {
                HOp::Create { h, labels, props } => format!(
                    "C:{}:{}:{}",
                    h,
                    if labels.is_empty() { "-".into() } else { labels.iter().map(|l| l.to_string()).collect::<Vec<_>>().join(".") },
                    if props.is_empty() { "-".into() } else { props.iter().map(|(k, v)| format!("{}={}", k, v.proto())).collect::<Vec<_>>().join("+") }
                ),
                HOp::Set { h, key, v, merge_form } => format!("{}:{}:{}:{}", if *merge_form { "M" } else { "S" }, h, key, v.proto()),
                HOp::Remove { h, key } => format!("R:{}:{}", h, key),
                HOp::Delete { h } => format!("D:{}", h),
                HOp::AddLabel { h, l } => format!("AL:{}:{}", h, l),
                HOp::RemoveLabel { h, l } => format!("RL:{}:{}", h, l),
                HOp::CreateEdge { e, src, dst, ty } => format!("CE:{}:{}:{}:{}", e, src, dst, ty),
                HOp::DeleteEdge { e } => format!("DE:{}", e),
            })
            .collect();
        format!(
            "case {} {} {} {} {}",
            self.ix_mid,
            self.cp_mid.map(|c| c.to_string()).unwrap_or("-".into()),
            if self.partial.is_empty() { "-".into() } else { self.partial.iter().map(|(l, k)| format!("{}.{}", l, k)).collect::<Vec<_>>().join(",") },
            if ops.is_empty() { "-".into() } else { ops.join(";") },
            self.queries.iter().map(|q| match &q.raw {
                Some(RawQ::Fixed(i)) => format!("raw:{}", i),
                Some(RawQ::Text(t, cols, kind)) => format!("rawq:{}:{}:{}", hex_of(t), cols.iter().map(|c| hex_of(c)).collect::<Vec<_>>().join(","), kind),
                None => format!("{}~{}", q.model(), q.form),
            }).collect::<Vec<_>>().join(";")
        )
    }
    fn parse(line: &str) -> Option<Case> {
        let t: Vec<&str> = line.split_whitespace().collect();
        if t.len() != 6 || t[0] != "case" {
            return None;
        }
        let ix_mid = t[1].parse().ok()?;
        let cp_mid = if t[2] == "-" { None } else { Some(t[2].parse().ok()?) };
        let mut partial = vec![];
        if t[3] != "-" {
            for p in t[3].split(',') {
                let (l, k) = p.split_once('.')?;
                partial.push((l.parse().ok()?, k.parse().ok()?));
            }
        }
        let mut ops = vec![];
        if t[4] != "-" {
            for o in t[4].split(';') {
                let f: Vec<&str> = o.split(':').collect();
                ops.push(match (f[0], f.len()) {
                    ("C", 4) => {
                        let labels = if f[2] == "-" { vec![] } else { f[2].split('.').map(|x| x.parse().ok()).collect::<Option<Vec<u8>>>()? };
                        let mut props = vec![];
                        if f[3] != "-" {
                            for p in f[3].split('+') {
                                let (k, v) = p.split_once('=')?;
                                props.push((k.parse().ok()?, Val::parse(v)?));
                            }
                        }
                        HOp::Create { h: f[1].parse().ok()?, labels, props }
                    }
                    ("S", 4) | ("M", 4) => HOp::Set { h: f[1].parse().ok()?, key: f[2].parse().ok()?, v: Val::parse(f[3])?, merge_form: f[0] == "M" },
                    ("R", 3) => HOp::Remove { h: f[1].parse().ok()?, key: f[2].parse().ok()? },
                    ("D", 2) => HOp::Delete { h: f[1].parse().ok()? },
                    ("AL", 3) => HOp::AddLabel { h: f[1].parse().ok()?, l: f[2].parse().ok()? },
                    ("RL", 3) => HOp::RemoveLabel { h: f[1].parse().ok()?, l: f[2].parse().ok()? },
                    ("CE", 5) => HOp::CreateEdge { e: f[1].parse().ok()?, src: f[2].parse().ok()?, dst: f[3].parse().ok()?, ty: f[4].parse().ok()? },
                    ("DE", 2) => HOp::DeleteEdge { e: f[1].parse().ok()? },
                    _ => return None,
                });
            }
        }
        let mut queries = vec![];
        for qs in t[5].split(';') {
            if let Some(i) = qs.strip_prefix("raw:") {
                let i: usize = i.parse().ok()?;
                if i >= RAW.len() {
                    return None;
                }
                queries.push(Query { label: 1, preds: vec![], ret: None, hop: None, form: "plain", raw: Some(RawQ::Fixed(i)) });
                continue;
            }
            if let Some(r) = qs.strip_prefix("rawq:") {
                let f: Vec<&str> = r.split(':').collect();
                if f.len() != 3 {
                    return None;
                }
                let cols = f[1].split(',').map(unhex_str).collect::<Option<Vec<_>>>()?;
                queries.push(Query { label: 1, preds: vec![], ret: None, hop: None, form: "plain", raw: Some(RawQ::Text(unhex_str(f[0])?, cols, f[2].to_string())) });
                continue;
            }
            let (m, form) = qs.split_once('~')?;
            let form = match form {
                "plain" => "plain",
                "flip" => "flip",
                "rev" => "rev",
                "inline" => "inline",
                "with" => "with",
                _ => return None,
            };
            let f: Vec<&str> = m.split('|').collect();
            if f.len() != 4 {
                return None;
            }
            let mut preds = vec![];
            if f[1] != "-" {
                for p in f[1].split('&') {
                    let g: Vec<&str> = p.split(',').collect();
                    if g.len() != 3 {
                        return None;
                    }
                    if g[1] == "in" {
                        preds.push(Pred::In { key: g[0].parse().ok()?, vs: g[2].split('+').map(Val::parse).collect::<Option<Vec<_>>>()? });
                    } else {
                        preds.push(Pred::Cmp { key: g[0].parse().ok()?, op: ops_of(g[1])?, v: Val::parse(g[2])? });
                    }
                }
            }
            let ret = if f[2] == "c" { None } else { Some(f[2].strip_prefix('p')?.parse().ok()?) };
            let hop = if f[3] == "-" {
                None
            } else {
                let g: Vec<&str> = f[3].split(',').collect();
                Some((g.first()?.parse().ok()?, *g.get(1)? == "o", g.get(2)?.parse().ok()?))
            };
            queries.push(Query { label: f[0].parse().ok()?, preds, ret, hop, form, raw: None });
        }
        Some(Case { ops, queries, ix_mid, cp_mid, partial })
    }
}

impl Query {
    fn model(&self) -> String {
        let preds = if self.preds.is_empty() {
            "-".to_string()
        } else {
            self.preds
                .iter()
                .map(|p| match p {
                    Pred::Cmp { key, op, v } => format!("{},{},{}", key, op, v.proto()),
                    Pred::In { key, vs } => format!("{},in,{}", key, vs.iter().map(|v| v.proto()).collect::<Vec<_>>().join("+")),
                })
                .collect::<Vec<_>>()
                .join("&")
        };
        let ret = match self.ret {
            None => "c".to_string(),
            Some(k) => format!("p{}", k),
        };
        let hop = match self.hop {
            None => "-".to_string(),
            Some((ty, out, tl)) => format!("{},{},{}", ty, if out { "o" } else { "i" }, tl),
        };
        format!("{}|{}|{}|{}", self.label, preds, ret, hop)
    }
    fn cypher(&self) -> String {
        match &self.raw {
            Some(RawQ::Fixed(i)) => return RAW[*i].0.to_string(),
            Some(RawQ::Text(t, _, _)) => return t.clone(),
            None => {}
        }
        let sym = |op: &str, flip: bool| -> &'static str {
            match (op, flip) {
                ("eq", _) => "=",
                ("lt", false) | ("gt", true) => "<",
                ("le", false) | ("ge", true) => "<=",
                ("gt", false) | ("lt", true) => ">",
                _ => ">=",
            }
        };
        let mut inline: Option<String> = None;
        let mut conj: Vec<String> = vec![];
        for (i, p) in self.preds.iter().enumerate() {
            match p {
                Pred::Cmp { key, op, v } => {
                    if self.form == "inline" && i == 0 && *op == "eq" && *v != Val::Null {
                        inline = Some(format!(" {{{}: {}}}", KEYS[*key as usize], v.cypher()));
                    } else if self.form == "flip" {
                        conj.push(format!("{} {} n.{}", v.cypher(), sym(op, true), KEYS[*key as usize]));
                    } else {
                        conj.push(format!("n.{} {} {}", KEYS[*key as usize], sym(op, false), v.cypher()));
                    }
                }
                Pred::In { key, vs } => conj.push(format!(
                    "n.{} IN [{}]",
                    KEYS[*key as usize],
                    vs.iter().map(|v| v.cypher()).collect::<Vec<_>>().join(", ")
                )),
            }
        }
        let n = format!("(n:{}{})", LABELS[self.label as usize], inline.unwrap_or_default());
        let pattern = match self.hop {
            None => n,
            Some((ty, out, tl)) => {
                // tl = 0: unlabelled target; ty = 0: untyped relationship pattern
                let m = if tl == 0 { "(m)".to_string() } else { format!("(m:{})", LABELS[tl as usize]) };
                let (fwd, bwd) = if ty == 0 {
                    ("-->".to_string(), "<--".to_string())
                } else {
                    (format!("-[:{}]->", TYPES[ty as usize]), format!("<-[:{}]-", TYPES[ty as usize]))
                };
                match (out, self.form == "flip" || self.form == "rev") {
                    (true, false) => format!("{}{}{}", n, fwd, m),
                    (true, true) => format!("{}{}{}", m, bwd, n),
                    (false, false) => format!("{}{}{}", n, bwd, m),
                    (false, true) => format!("{}{}{}", m, fwd, n),
                }
            }
        };
        let wh = if conj.is_empty() { String::new() } else { format!(" WHERE {}", conj.join(" AND ")) };
        let with = if self.form == "with" {
            if self.hop.is_some() { " WITH n, m" } else { " WITH n" }
        } else {
            ""
        };
        let ret = match (self.hop, self.ret) {
            (Some(_), _) => "n.h, m.h".to_string(),
            (None, None) => "count(n)".to_string(),
            (None, Some(k)) => format!("n.{}", KEYS[k as usize]),
        };
        format!("MATCH {}{}{} RETURN {}", pattern, wh, with, ret)
    }
    fn columns(&self) -> Vec<String> {
        match &self.raw {
            Some(RawQ::Fixed(i)) => return vec![RAW[*i].1.to_string()],
            Some(RawQ::Text(_, cols, _)) => return cols.clone(),
            None => {}
        }
        match (self.hop, self.ret) {
            (Some(_), _) => vec!["n.h".into(), "m.h".into()],
            (None, None) => vec!["count(n)".into()],
            (None, Some(k)) => vec![format!("n.{}", KEYS[k as usize])],
        }
    }
    /// structural class for signatures
    fn kind(&self) -> String {
        match &self.raw {
            Some(RawQ::Fixed(i)) => return format!("raising-predicate-{}", i),
            Some(RawQ::Text(_, _, kind)) => return kind.clone(),
            None => {}
        }
        let p = match self.preds.first() {
            None => "nopred".to_string(),
            Some(Pred::In { .. }) => "in".to_string(),
            Some(Pred::Cmp { op, v, .. }) => format!(
                "{}-{}",
                op,
                match v {
                    Val::Null => "null",
                    Val::Bool(_) => "bool",
                    Val::Int(_) => "int",
                    Val::Flt(_) => "float",
                    Val::NZero => "negzero",
                    Val::NaN => "nan",
                    Val::Str(_) => "string",
                    Val::Lst(_) => "list",
                }
            ),
        };
        let hop = match self.hop {
            None => "",
            Some((0, _, _)) => "+hop-untyped",
            Some(_) => "+hop",
        };
        format!("{}{}{}", p, hop, if self.form == "with" { "+with" } else { "" })
    }
}

// ---------------------------------------------------------------------------------------------
// configurations and the engine side
// ---------------------------------------------------------------------------------------------

const IDX_MODES: [&str; 5] = ["none", "before", "middle", "after", "partial"];
const CP_MODES: [&str; 3] = ["never", "mid", "end"];
const ALL_PAIRS: [(u8, u8); 6] = [(1, 1), (1, 2), (2, 1), (2, 2), (3, 1), (3, 2)];

fn create_indexes(e: &QueryEngine, s: &mut GraphStore, pairs: &[(u8, u8)], errs: &mut Vec<String>) {
    for (l, k) in pairs {
        let st = format!("CREATE INDEX ON :{}({})", LABELS[*l as usize], KEYS[*k as usize]);
        if let Err(x) = e.execute_mut(&st, s, "default") {
            errs.push(format!("{} -> {}", st, x));
        }
    }
}

fn err_class(e: &str) -> String {
    e.chars().filter(|c| c.is_ascii_alphabetic() || *c == ' ').take(40).collect::<String>().trim().replace(' ', "_")
}

/// replay the history into one store
fn build_store(case: &Case, idx: &str, cp: &str) -> (QueryEngine, GraphStore, Vec<String>) {
    let e = QueryEngine::new();
    let mut s = GraphStore::new();
    let mut errs: Vec<String> = vec![];
    let mut nid: HashMap<u64, NodeId> = HashMap::new();
    let mut eid: HashMap<u64, EdgeId> = HashMap::new();
    if idx == "before" {
        create_indexes(&e, &mut s, &ALL_PAIRS, &mut errs);
    }
    if idx == "partial" {
        create_indexes(&e, &mut s, &case.partial, &mut errs);
    }
    for (i, op) in case.ops.iter().enumerate() {
        if idx == "middle" && i == case.ix_mid {
            create_indexes(&e, &mut s, &ALL_PAIRS, &mut errs);
        }
        if cp == "mid" && Some(i) == case.cp_mid {
            s.compact_adjacency();
        }
        let mut run = |st: String, s: &mut GraphStore, errs: &mut Vec<String>| -> Option<samyama::query::executor::RecordBatch> {
            match e.execute_mut(&st, s, "default") {
                Ok(b) => Some(b),
                Err(x) => {
                    errs.push(format!("{} -> {}", st, x));
                    None
                }
            }
        };
        match op {
            HOp::Create { h, labels, props } => {
                let ls: String = labels.iter().map(|l| format!(":{}", LABELS[*l as usize])).collect();
                let mut ps = vec![format!("h: {}", h)];
                // -0.0 and NaN are expressions, not literals: written by a SET right after
                let mut late: Vec<(u8, Val)> = vec![];
                for (k, v) in props {
                    if matches!(v, Val::NZero | Val::NaN) {
                        late.push((*k, v.clone()));
                    } else {
                        ps.push(format!("{}: {}", KEYS[*k as usize], v.cypher()));
                    }
                }
                let st = format!("CREATE (n{} {{{}}}) RETURN id(n)", ls, ps.join(", "));
                if let Some(b) = run(st, &mut s, &mut errs) {
                    let id = b.records.first().and_then(|r| r.get("id(n)")).and_then(|v| match v {
                        Value::Property(PropertyValue::Integer(i)) => Some(*i as u64),
                        _ => None,
                    });
                    match id {
                        Some(i) => {
                            nid.insert(*h, NodeId::new(i));
                            for (k, v) in late {
                                run(format!("MATCH (n) WHERE id(n) = {} SET n.{} = {}", i, KEYS[k as usize], v.cypher()), &mut s, &mut errs);
                            }
                        }
                        None => errs.push(format!("create {}: no id returned", h)),
                    }
                }
            }
            HOp::Set { h, key, v, merge_form } => {
                if let Some(id) = nid.get(h) {
                    let st = if *merge_form && !matches!(v, Val::NZero | Val::NaN) {
                        format!("MATCH (n) WHERE id(n) = {} SET n += {{{}: {}}}", id.as_u64(), KEYS[*key as usize], v.cypher())
                    } else {
                        format!("MATCH (n) WHERE id(n) = {} SET n.{} = {}", id.as_u64(), KEYS[*key as usize], v.cypher())
                    };
                    run(st, &mut s, &mut errs);
                }
            }
            HOp::Remove { h, key } => {
                if let Some(id) = nid.get(h) {
                    run(format!("MATCH (n) WHERE id(n) = {} REMOVE n.{}", id.as_u64(), KEYS[*key as usize]), &mut s, &mut errs);
                }
            }
            HOp::Delete { h } => {
                if let Some(id) = nid.remove(h) {
                    run(format!("MATCH (n) WHERE id(n) = {} DETACH DELETE n", id.as_u64()), &mut s, &mut errs);
                }
            }
            HOp::AddLabel { h, l } => {
                if let Some(id) = nid.get(h) {
                    run(format!("MATCH (n) WHERE id(n) = {} SET n:{}", id.as_u64(), LABELS[*l as usize]), &mut s, &mut errs);
                }
            }
            HOp::RemoveLabel { h, l } => {
                if let Some(id) = nid.get(h) {
                    run(format!("MATCH (n) WHERE id(n) = {} REMOVE n:{}", id.as_u64(), LABELS[*l as usize]), &mut s, &mut errs);
                }
            }
            HOp::CreateEdge { e: eh, src, dst, ty } => {
                if let (Some(a), Some(b)) = (nid.get(src), nid.get(dst)) {
                    match s.create_edge(*a, *b, TYPES[*ty as usize]) {
                        Ok(id) => {
                            eid.insert(*eh, id);
                        }
                        Err(x) => errs.push(format!("create_edge {} -> {}", eh, x)),
                    }
                }
            }
            HOp::DeleteEdge { e: eh } => {
                if let Some(id) = eid.remove(eh) {
                    // the relationship may already be gone with a deleted endpoint
                    let _ = s.delete_edge(id);
                }
            }
        }
    }
    if idx == "middle" && case.ix_mid >= case.ops.len() {
        create_indexes(&e, &mut s, &ALL_PAIRS, &mut errs);
    }
    if idx == "after" {
        create_indexes(&e, &mut s, &ALL_PAIRS, &mut errs);
    }
    if cp == "end" || (cp == "mid" && case.cp_mid.map_or(false, |c| c >= case.ops.len())) {
        s.compact_adjacency();
    }
    (e, s, errs)
}

fn run_query(e: &QueryEngine, s: &GraphStore, q: &Query) -> String {
    let text = q.cypher();
    let r = std::panic::catch_unwind(std::panic::AssertUnwindSafe(|| e.execute(&text, s)));
    match r {
        Err(_) => "E:panic".into(),
        Ok(Err(x)) => format!("E:{}", err_class(&x.to_string())),
        Ok(Ok(b)) => {
            let cols = q.columns();
            let rows: Vec<Vec<String>> = b.records.iter().map(|r| cols.iter().map(|c| value_to_proto(r.get(c))).collect()).collect();
            canon_bag(rows)
        }
    }
}

/// operator names of the plan, top-down (coverage / non-triviality only)
fn plan_shape(e: &QueryEngine, s: &GraphStore, q: &Query) -> String {
    let text = format!("EXPLAIN {}", q.cypher());
    match e.execute(&text, s) {
        Ok(b) => {
            let plan = match b.records.first().and_then(|r| r.get("plan")) {
                Some(Value::Property(PropertyValue::String(p))) => p.clone(),
                _ => return "?".into(),
            };
            let mut names = vec![];
            for line in plan.lines() {
                if line.starts_with("---") {
                    break;
                }
                let t = line.trim_start_matches(|c: char| c == ' ' || c == '|' || c == '+' || c == '-');
                let name: String = t.chars().take_while(|c| c.is_ascii_alphanumeric()).collect();
                if !name.is_empty() {
                    names.push(name);
                }
            }
            names.join(">")
        }
        Err(_) => "?".into(),
    }
}

struct CaseResult {
    /// config name -> observation (bags of all queries joined by ';')
    obs: Vec<(String, String)>,
    /// graph-native configurations: the unmasked observation (see `eval_case`)
    native_obs: Vec<(String, String)>,
    /// per query: the plan shapes seen over the index placements and planners
    shapes: Vec<BTreeSet<String>>,
    write_errs: Vec<String>,
}

fn cfg_name(idx: &str, cp: &str, native: bool, par: bool) -> String {
    format!("{}.{}.{}.{}", idx, cp, if native { "native" } else { "legacy" }, if par { "par" } else { "seq" })
}

/// every configuration of one case.  Single-threaded: the planner and the parallel-filter
/// switches are process environment variables, read by the engine at execution time.
fn eval_case(case: &Case, with_shapes: bool) -> CaseResult {
    let mut res = CaseResult { obs: vec![], native_obs: vec![], shapes: vec![BTreeSet::new(); case.queries.len()], write_errs: vec![] };
    for idx in IDX_MODES {
        for cp in CP_MODES {
            if cp == "mid" && case.cp_mid.is_none() {
                continue;
            }
            let (e, s, errs) = build_store(case, idx, cp);
            for x in errs {
                res.write_errs.push(format!("[{}.{}] {}", idx, cp, x));
            }
            // The graph-native planner does not implement relationship isomorphism for
            // multi-segment paths (known finding `planner:two-segment-path-native`): its rows
            // for the generated two-segment queries are reported on a separate channel and
            // replaced here by the legacy planner's rows of the same store, so that they do
            // not hide index / tier / parallel-filter / process differences.
            let mut legacy_bags: Vec<Vec<String>> = vec![vec![], vec![]];
            for native in [false, true] {
                if native {
                    std::env::set_var("SAMYAMA_GRAPH_NATIVE", "true");
                } else {
                    std::env::remove_var("SAMYAMA_GRAPH_NATIVE");
                }
                if with_shapes && cp == "never" {
                    for (qi, q) in case.queries.iter().enumerate() {
                        res.shapes[qi].insert(plan_shape(&e, &s, q));
                    }
                }
                for par in [false, true] {
                    std::env::set_var("SAMYAMA_FILTER_PARALLEL_COST", if par { "0" } else { "1000000" });
                    let bags: Vec<String> = case.queries.iter().map(|q| run_query(&e, &s, q)).collect();
                    if !native {
                        legacy_bags[par as usize] = bags.clone();
                        res.obs.push((cfg_name(idx, cp, native, par), bags.join(";")));
                    } else {
                        let masked: Vec<String> = bags
                            .iter()
                            .enumerate()
                            .map(|(i, b)| if matches!(case.queries[i].raw, Some(RawQ::Text(..))) { legacy_bags[par as usize][i].clone() } else { b.clone() })
                            .collect();
                        if masked != bags {
                            res.native_obs.push((cfg_name(idx, cp, native, par), bags.join(";")));
                        }
                        res.obs.push((cfg_name(idx, cp, native, par), masked.join(";")));
                    }
                }
            }
        }
    }
    std::env::remove_var("SAMYAMA_GRAPH_NATIVE");
    std::env::remove_var("SAMYAMA_FILTER_PARALLEL_COST");
    res
}

// ---------------------------------------------------------------------------------------------
// generator
// ---------------------------------------------------------------------------------------------

fn value_pool() -> Vec<Val> {
    vec![
        Val::Int(0), Val::Int(1), Val::Int(1), Val::Int(2), Val::Int(-1), Val::Int(3),
        Val::Flt(2), Val::Flt(2), Val::Flt(1), Val::Flt(4), Val::Flt(-2), Val::Flt(5), Val::Flt(0), Val::Flt(0),
        Val::NZero, Val::NZero, Val::NaN,
        Val::Str(b"a".to_vec()), Val::Str(b"b".to_vec()), Val::Str(b"".to_vec()), Val::Str(b"true".to_vec()),
        Val::Str(b"TRUE".to_vec()), Val::Str(b"False".to_vec()), Val::Str(b"ab".to_vec()),
        Val::Bool(true), Val::Bool(false),
        Val::Lst(vec![1]), Val::Lst(vec![1, 2]),
        Val::Null,
    ]
}

/// endpoints of a new relationship: often the pair of an existing one (parallel / multi-type
/// relationships), sometimes a self-loop, otherwise any two live nodes
fn pick_pair(rng: &mut Rng, live: &BTreeMap<u64, Vec<u8>>, edges: &BTreeMap<u64, (u64, u64, usize)>) -> (u64, u64) {
    let any = |rng: &mut Rng| *live.keys().nth(rng.usize(live.len())).unwrap();
    let r = rng.usize(10);
    if r < 4 && !edges.is_empty() {
        let (a, b, _) = *edges.values().nth(rng.usize(edges.len())).unwrap();
        if live.contains_key(&a) && live.contains_key(&b) {
            return (a, b);
        }
    }
    if r == 9 {
        let a = any(rng);
        return (a, a);
    }
    (any(rng), any(rng))
}

/// Relationship-heavy histories for tier invariance: a few nodes, groups of parallel and
/// multi-type relationships between the same pair, self-loops; a compaction; then relationship
/// deletes and node DETACH DELETEs of what is now frozen, interleaved with creates that reuse
/// the freed relationship / node ids; read by one-hop queries in both directions, typed and
/// untyped, to labelled and unlabelled targets.
fn gen_edge_case(rng: &mut Rng) -> Case {
    let pool = value_pool();
    let mut ops: Vec<HOp> = vec![];
    let mut live: BTreeMap<u64, Vec<u8>> = BTreeMap::new();
    let mut edges: BTreeMap<u64, (u64, u64, usize)> = BTreeMap::new();
    let mut next_h = 1u64;
    let mut next_e = 1u64;
    let mut new_node = |rng: &mut Rng, ops: &mut Vec<HOp>, live: &mut BTreeMap<u64, Vec<u8>>| -> u64 {
        let labels = vec![if rng.chance(3, 4) { 1u8 } else { 2u8 }];
        let props = if rng.chance(1, 2) { vec![(1u8, pool[rng.usize(pool.len())].clone())] } else { vec![] };
        let h = next_h;
        next_h += 1;
        ops.push(HOp::Create { h, labels: labels.clone(), props });
        live.insert(h, labels);
        h
    };
    for _ in 0..(3 + rng.usize(3)) {
        new_node(rng, &mut ops, &mut live);
    }
    let mut new_edge = |rng: &mut Rng, ops: &mut Vec<HOp>, live: &BTreeMap<u64, Vec<u8>>, edges: &mut BTreeMap<u64, (u64, u64, usize)>| {
        let (a, b) = pick_pair(rng, live, edges);
        let i = ops.len();
        ops.push(HOp::CreateEdge { e: next_e, src: a, dst: b, ty: 1 + rng.usize(2) as u8 });
        edges.insert(next_e, (a, b, i));
        next_e += 1;
    };
    for _ in 0..(4 + rng.usize(7)) {
        new_edge(rng, &mut ops, &live, &mut edges);
    }
    // usually compact right after the relationships exist, sometimes anywhere
    let cp_after_build = ops.len();
    let steps = 4 + rng.usize(7);
    for _ in 0..steps {
        let r = rng.usize(100);
        if r < 40 && !edges.is_empty() {
            let e = *edges.keys().nth(rng.usize(edges.len())).unwrap();
            edges.remove(&e);
            ops.push(HOp::DeleteEdge { e });
        } else if r < 52 && live.len() > 2 {
            let h = *live.keys().nth(rng.usize(live.len())).unwrap();
            live.remove(&h);
            edges.retain(|_, (a, b, _)| *a != h && *b != h);
            ops.push(HOp::Delete { h });
        } else if r < 62 {
            new_node(rng, &mut ops, &mut live);
            new_edge(rng, &mut ops, &live, &mut edges);
        } else {
            new_edge(rng, &mut ops, &live, &mut edges);
        }
    }
    // a create after the last delete, so that a freed id is in use again when the reads run
    new_edge(rng, &mut ops, &live, &mut edges);
    let cp = if rng.chance(7, 10) { cp_after_build } else { rng.usize(ops.len() + 1) };

    let mut queries = vec![];
    for _ in 0..6 {
        let label = if rng.chance(3, 4) { 1 } else { 2 };
        let ty = [0u8, 0, 1, 2][rng.usize(4)];
        let tl = [0u8, 0, 1, 2][rng.usize(4)];
        let preds = if rng.chance(1, 5) {
            vec![Pred::Cmp { key: 1, op: ["eq", "ge", "lt"][rng.usize(3)], v: [Val::Int(1), Val::Flt(2), Val::Str(b"a".to_vec())][rng.usize(3)].clone() }]
        } else {
            vec![]
        };
        let form = ["plain", "plain", "rev", "with", "flip"][rng.usize(5)];
        queries.push(Query { label, preds, ret: Some(0), hop: Some((ty, rng.chance(1, 2), tl)), form, raw: None });
    }
    queries.push(Query { label: 1, preds: vec![], ret: None, hop: None, form: "plain", raw: None });
    let partial: Vec<(u8, u8)> = ALL_PAIRS.iter().filter(|_| rng.chance(1, 2)).copied().collect();
    Case { ix_mid: rng.usize(ops.len() + 1), cp_mid: Some(cp), ops, queries, partial }
}

/// Histories that rewrite an indexed key with values that are `==` but not the same B-tree
/// key (0.0 <-> -0.0, also 0 and re-SETs of the identical value) or the same key but not `==`
/// (NaN), then move on: another SET, REMOVE, label removal, DELETE and reuse of the id by a
/// node of another label holding a numeric zero.  Read with `= 0`, `= 0.0`, `>= 0`, `<= 0`,
/// `< 100` and counts.
fn gen_zero_case(rng: &mut Rng) -> Case {
    let zeros = [Val::Flt(0), Val::NZero, Val::Flt(0), Val::NZero, Val::Int(0), Val::NaN];
    let others = [Val::Int(7), Val::Flt(3), Val::Str(b"a".to_vec()), Val::Int(-1), Val::Null];
    let mut ops: Vec<HOp> = vec![];
    let mut live: Vec<(u64, Vec<u8>)> = vec![];
    let mut next_h = 1u64;
    let n_nodes = 1 + rng.usize(3);
    let mut last: BTreeMap<u64, Val> = BTreeMap::new();
    for _ in 0..n_nodes {
        let l = if rng.chance(3, 4) { 1u8 } else { 2u8 };
        let props = if rng.chance(3, 4) { vec![(1u8, zeros[rng.usize(zeros.len())].clone())] } else { vec![] };
        if let Some((_, v)) = props.first() {
            last.insert(next_h, v.clone());
        }
        ops.push(HOp::Create { h: next_h, labels: vec![l], props });
        live.push((next_h, vec![l]));
        next_h += 1;
    }
    let steps = 3 + rng.usize(7);
    for _ in 0..steps {
        if live.is_empty() {
            break;
        }
        let (h, _) = live[rng.usize(live.len())].clone();
        let r = rng.usize(100);
        if r < 45 {
            // a zero of either sign, or the very value written last
            let v = match (rng.usize(4), last.get(&h)) {
                (0, Some(v)) => v.clone(),
                // the zero of the opposite sign: `==` to what is stored, another key
                (1 | 2, Some(Val::Flt(0))) => Val::NZero,
                (1 | 2, Some(Val::NZero)) => Val::Flt(0),
                _ => zeros[rng.usize(zeros.len())].clone(),
            };
            last.insert(h, v.clone());
            ops.push(HOp::Set { h, key: 1, v, merge_form: rng.chance(1, 5) });
        } else if r < 65 {
            let v = others[rng.usize(others.len())].clone();
            last.insert(h, v.clone());
            ops.push(HOp::Set { h, key: 1, v, merge_form: false });
        } else if r < 73 {
            ops.push(HOp::Remove { h, key: 1 });
        } else if r < 80 {
            let l = 1 + rng.usize(2) as u8;
            ops.push(HOp::RemoveLabel { h, l });
        } else if r < 85 {
            ops.push(HOp::AddLabel { h, l: 1 + rng.usize(2) as u8 });
        } else {
            // delete, and let a node of (usually) another label take the id with a numeric zero
            live.retain(|(x, _)| *x != h);
            ops.push(HOp::Delete { h });
            let l = if rng.chance(2, 3) { 3u8 } else { 1 + rng.usize(2) as u8 };
            let v = [Val::Flt(0), Val::Int(0), Val::NZero, Val::Int(7)][rng.usize(4)].clone();
            ops.push(HOp::Create { h: next_h, labels: vec![l], props: vec![(1, v)] });
            live.push((next_h, vec![l]));
            next_h += 1;
        }
    }
    let mut queries = vec![];
    let probes: [(&'static str, Val); 8] = [
        ("eq", Val::Int(0)), ("eq", Val::Flt(0)), ("ge", Val::Int(0)), ("lt", Val::Int(100)),
        ("le", Val::Int(0)), ("ge", Val::Flt(0)), ("eq", Val::NZero), ("gt", Val::Int(-1)),
    ];
    for _ in 0..7 {
        let (op, v) = probes[rng.usize(probes.len())].clone();
        let label = if rng.chance(3, 4) { 1 } else { 2 };
        let ret = match rng.usize(3) {
            0 => None,
            1 => Some(1),
            _ => Some(0),
        };
        let form = ["plain", "plain", "with", "flip", "inline"][rng.usize(5)];
        queries.push(Query { label, preds: vec![Pred::Cmp { key: 1, op, v }], ret, hop: None, form, raw: None });
    }
    let partial: Vec<(u8, u8)> = vec![(1, 1)];
    Case { ix_mid: rng.usize(ops.len() + 1), cp_mid: Some(rng.usize(ops.len() + 1)), ops, queries, partial }
}

/// Two-segment path queries (outside the Lean model: the configurations must agree with each
/// other): fan-in, fan-out, chains, undirected and untyped paths over stores with several
/// nodes per label and parallel relationships, with an equality on an indexed key of the
/// start, middle or end node, so that the existence of an index moves the anchor of the walk.
/// Relationship isomorphism (a path uses a relationship once) must hold wherever the walk starts.
fn gen_path_case(rng: &mut Rng) -> Case {
    let mut ops: Vec<HOp> = vec![];
    let mut live: BTreeMap<u64, Vec<u8>> = BTreeMap::new();
    let mut edges: BTreeMap<u64, (u64, u64, usize)> = BTreeMap::new();
    let mut next_h = 1u64;
    let mut next_e = 1u64;
    let codes = [Val::Int(7), Val::Int(7), Val::Int(1), Val::Int(2), Val::Flt(14)];
    let (na, nb) = (3 + rng.usize(3), 1 + rng.usize(3));
    for k in 0..(na + nb + rng.usize(2)) {
        let l = if k < na { 1u8 } else if k < na + nb { 2u8 } else { 3u8 };
        ops.push(HOp::Create { h: next_h, labels: vec![l], props: vec![(1, codes[rng.usize(codes.len())].clone())] });
        live.insert(next_h, vec![l]);
        next_h += 1;
    }
    let of_label = |live: &BTreeMap<u64, Vec<u8>>, l: u8| -> Vec<u64> { live.iter().filter(|(_, ls)| ls.contains(&l)).map(|(h, _)| *h).collect() };
    let n_edges = 6 + rng.usize(8);
    for _ in 0..n_edges {
        let (asrc, bs) = (of_label(&live, 1), of_label(&live, 2));
        let r = rng.usize(10);
        let (src, dst) = if r < 2 && !edges.is_empty() {
            let (a, b, _) = *edges.values().nth(rng.usize(edges.len())).unwrap();
            (a, b) // parallel
        } else if r < 7 {
            (asrc[rng.usize(asrc.len())], bs[rng.usize(bs.len())]) // A -> B
        } else if r < 9 {
            (bs[rng.usize(bs.len())], asrc[rng.usize(asrc.len())]) // B -> A
        } else {
            let all: Vec<u64> = live.keys().copied().collect();
            (all[rng.usize(all.len())], all[rng.usize(all.len())])
        };
        let ty = if rng.chance(3, 4) { 1 } else { 2 };
        ops.push(HOp::CreateEdge { e: next_e, src, dst, ty });
        edges.insert(next_e, (src, dst, ops.len()));
        next_e += 1;
    }
    // a little history after the build
    for _ in 0..rng.usize(4) {
        match rng.usize(3) {
            0 if !edges.is_empty() => {
                let e = *edges.keys().nth(rng.usize(edges.len())).unwrap();
                edges.remove(&e);
                ops.push(HOp::DeleteEdge { e });
            }
            1 => {
                let h = *live.keys().nth(rng.usize(live.len())).unwrap();
                ops.push(HOp::Set { h, key: 1, v: codes[rng.usize(codes.len())].clone(), merge_form: false });
            }
            _ => {
                let (asrc, bs) = (of_label(&live, 1), of_label(&live, 2));
                ops.push(HOp::CreateEdge { e: next_e, src: asrc[rng.usize(asrc.len())], dst: bs[rng.usize(bs.len())], ty: 1 });
                edges.insert(next_e, (0, 0, 0));
                next_e += 1;
            }
        }
    }
    let mut queries = vec![];
    let lab = |l: u8| LABELS[l as usize];
    for _ in 0..6 {
        let shape = rng.usize(7);
        let t1 = if rng.chance(3, 4) { "R" } else { "S" };
        let t2 = if rng.chance(2, 3) { t1 } else if t1 == "R" { "S" } else { "R" };
        // (label a, label m, label c, pattern with {A} {M} {C} placeholders, tag)
        let (la, lm, lc, pat, tag): (u8, u8, u8, String, &str) = match shape {
            0 | 1 => (1, 2, 1, format!("{{A}}-[:{}]->{{M}}<-[:{}]-{{C}}", t1, t2), "fan-in"),
            2 => (2, 1, 2, format!("{{A}}<-[:{}]-{{M}}-[:{}]->{{C}}", t1, t2), "fan-out"),
            3 => (1, 2, 1, format!("{{A}}-[:{}]->{{M}}-[:{}]->{{C}}", t1, t2), "chain"),
            4 => (1, 2, 1, format!("{{A}}-[:{}]-{{M}}-[:{}]-{{C}}", t1, t2), "undirected"),
            5 => (1, 2, 1, "{A}-->{M}<--{C}".to_string(), "fan-in-untyped"),
            _ => (1, 1, 1, format!("{{A}}-[:{}]->{{M}}-[:{}]->{{C}}", t1, t2), "chain-one-label"),
        };
        let probe = [Val::Int(7), Val::Int(7), Val::Int(1), Val::Flt(14)][rng.usize(4)].clone();
        let pos = rng.usize(4); // 0 start, 1 middle, 2 end, 3 none
        let inline = pos < 3 && rng.chance(1, 4);
        let node = |var: &str, l: u8, here: bool| -> String {
            if here && inline {
                format!("({}:{} {{x: {}}})", var, lab(l), probe.cypher())
            } else {
                format!("({}:{})", var, lab(l))
            }
        };
        let pattern = pat
            .replace("{A}", &node("a", la, pos == 0))
            .replace("{M}", &node("m", lm, pos == 1))
            .replace("{C}", &node("c", lc, pos == 2));
        let wh = if pos < 3 && !inline { format!(" WHERE {}.x = {}", ["a", "m", "c"][pos], probe.cypher()) } else { String::new() };
        let (ret, cols): (&str, Vec<String>) = match rng.usize(4) {
            0 => ("count(*)", vec!["count(*)".into()]),
            1 => ("a.h, m.h, c.h", vec!["a.h".into(), "m.h".into(), "c.h".into()]),
            _ => ("a.h, c.h", vec!["a.h".into(), "c.h".into()]),
        };
        let text = format!("MATCH {}{} RETURN {}", pattern, wh, ret);
        let kind = format!("path2-{}-{}{}", tag, ["start", "middle", "end", "nopred"][pos], if ret == "count(*)" { "-count" } else { "" });
        queries.push(Query { label: 1, preds: vec![], ret: None, hop: None, form: "plain", raw: Some(RawQ::Text(text, cols, kind)) });
    }
    // one modelled query keeps the case tied to the model as well
    queries.push(Query { label: 2, preds: vec![Pred::Cmp { key: 1, op: "eq", v: Val::Int(7) }], ret: Some(0), hop: Some((1, false, 1)), form: "plain", raw: None });
    let partial: Vec<(u8, u8)> = [(1u8, 1u8), (2, 1), (3, 1)].iter().filter(|_| rng.chance(1, 2)).copied().collect();
    Case { ix_mid: rng.usize(ops.len() + 1), cp_mid: Some(rng.usize(ops.len() + 1)), ops, queries, partial }
}

fn gen_case(rng: &mut Rng, big: bool) -> Case {
    let pool = value_pool();
    let n_ops = if big { 0 } else { 4 + rng.usize(14) };
    let mut ops: Vec<HOp> = vec![];
    // shadow: handle -> labels ; edges: handle -> (src,dst, created_at)
    let mut live: BTreeMap<u64, Vec<u8>> = BTreeMap::new();
    let mut edges: BTreeMap<u64, (u64, u64, usize)> = BTreeMap::new();
    let mut next_h = 1u64;
    let mut next_e = 1u64;
    // every history is eligible for a compaction in the middle: relationships (and nodes
    // with relationships) are deleted after it, and later creates reuse the freed ids
    let cp_at = Some(rng.usize(n_ops + 1));
    let pick_val = |rng: &mut Rng| pool[rng.usize(pool.len())].clone();
    let pick_label = |rng: &mut Rng| -> u8 {
        match rng.usize(20) {
            0..=11 => 1,
            12..=16 => 2,
            _ => 3,
        }
    };
    if big {
        // 300 nodes of one label: batches large enough for the parallel filter branch
        for i in 0..300u64 {
            let v = match i % 5 {
                0 => Val::Int((i % 7) as i64),
                1 => Val::Flt((i % 9) as i64),
                2 => Val::Str(vec![b'a' + (i % 3) as u8]),
                3 => Val::Bool(i % 2 == 0),
                _ => Val::Int(1),
            };
            ops.push(HOp::Create { h: next_h, labels: vec![1], props: vec![(1, v)] });
            live.insert(next_h, vec![1]);
            next_h += 1;
        }
        for _ in 0..6 {
            let h = 1 + rng.below(300);
            match rng.usize(3) {
                0 => ops.push(HOp::Set { h, key: 1, v: pick_val(rng), merge_form: false }),
                1 => ops.push(HOp::Remove { h, key: 1 }),
                _ => {
                    if live.remove(&h).is_some() {
                        ops.push(HOp::Delete { h });
                    }
                }
            }
        }
    }
    while ops.len() < n_ops {
        let i = ops.len();
        let r = rng.usize(100);
        let some_live = |rng: &mut Rng, live: &BTreeMap<u64, Vec<u8>>| -> Option<u64> {
            if live.is_empty() {
                None
            } else {
                live.keys().nth(rng.usize(live.len())).copied()
            }
        };
        if r < 30 || live.len() < 2 {
            let mut labels = vec![pick_label(rng)];
            if rng.chance(1, 5) {
                let l2 = 1 + rng.usize(3) as u8;
                if !labels.contains(&l2) {
                    labels.push(l2);
                }
            }
            let mut props = vec![];
            if rng.chance(4, 5) {
                props.push((1u8, pick_val(rng)));
            }
            if rng.chance(1, 2) {
                props.push((2u8, pick_val(rng)));
            }
            ops.push(HOp::Create { h: next_h, labels: labels.clone(), props });
            live.insert(next_h, labels);
            next_h += 1;
        } else if r < 55 {
            let h = some_live(rng, &live).unwrap();
            ops.push(HOp::Set { h, key: 1 + rng.usize(2) as u8, v: pick_val(rng), merge_form: rng.chance(1, 4) });
        } else if r < 63 {
            let h = some_live(rng, &live).unwrap();
            ops.push(HOp::Remove { h, key: 1 + rng.usize(2) as u8 });
        } else if r < 73 {
            let h = some_live(rng, &live).unwrap();
            live.remove(&h);
            edges.retain(|_, (a, b, _)| *a != h && *b != h);
            ops.push(HOp::Delete { h });
        } else if r < 78 {
            let h = some_live(rng, &live).unwrap();
            let l = 1 + rng.usize(3) as u8;
            let ls = live.get_mut(&h).unwrap();
            if !ls.contains(&l) {
                ls.push(l);
            }
            ops.push(HOp::AddLabel { h, l });
        } else if r < 83 {
            let h = some_live(rng, &live).unwrap();
            let l = 1 + rng.usize(3) as u8;
            live.get_mut(&h).unwrap().retain(|x| *x != l);
            ops.push(HOp::RemoveLabel { h, l });
        } else if r < 94 {
            let (a, b) = pick_pair(rng, &live, &edges);
            ops.push(HOp::CreateEdge { e: next_e, src: a, dst: b, ty: 1 + rng.usize(2) as u8 });
            edges.insert(next_e, (a, b, i));
            next_e += 1;
        } else if !edges.is_empty() {
            let e = *edges.keys().nth(rng.usize(edges.len())).unwrap();
            edges.remove(&e);
            ops.push(HOp::DeleteEdge { e });
        }
    }
    // queries
    let probe_pool: Vec<Val> = vec![
        Val::Int(1), Val::Int(1), Val::Int(0), Val::Int(2), Val::Flt(2), Val::Flt(2), Val::Flt(1), Val::Flt(4), Val::Flt(3),
        Val::Str(b"a".to_vec()), Val::Str(b"true".to_vec()), Val::Str(b"b".to_vec()), Val::Str(b"FALSE".to_vec()),
        Val::Bool(true), Val::Bool(false), Val::Lst(vec![1]), Val::Null, Val::Int(-1), Val::Flt(-2),
        Val::Int(0), Val::Flt(0), Val::Flt(0), Val::Int(100), Val::NZero,
    ];
    let cmp_ops = ["eq", "eq", "lt", "le", "gt", "ge"];
    let mut queries = vec![];
    let nq = if big { 8 } else { 4 + rng.usize(4) };
    for _ in 0..nq {
        let label = if big { 1 } else { pick_label(rng) };
        let mut preds = vec![];
        let np = match rng.usize(10) {
            0 => 0,
            1..=6 => 1,
            _ => 2,
        };
        for _ in 0..np {
            let key = if rng.chance(3, 4) { 1 } else { 2 };
            if rng.chance(1, 8) {
                let vs = vec![Val::Int(rng.range(0, 2)), if rng.chance(1, 2) { Val::Flt(rng.range(0, 5)) } else { Val::Int(rng.range(-1, 3)) }];
                preds.push(Pred::In { key, vs });
            } else {
                preds.push(Pred::Cmp { key, op: cmp_ops[rng.usize(cmp_ops.len())], v: probe_pool[rng.usize(probe_pool.len())].clone() });
            }
        }
        let hop = if !big && rng.chance(1, 4) {
            Some((rng.usize(3) as u8, rng.chance(1, 2), if rng.chance(1, 4) { 0 } else { pick_label(rng) }))
        } else {
            None
        };
        let ret = match rng.usize(4) {
            0 => None,
            1 => Some(1),
            _ => Some(0),
        };
        let form = match rng.usize(9) {
            0 | 1 => "with",
            2 => "flip",
            3 => "inline",
            4 => "rev",
            _ => "plain",
        };
        queries.push(Query { label, preds, ret, hop, form, raw: None });
    }
    if big || rng.chance(1, 10) {
        for i in 0..RAW.len() {
            queries.push(Query { label: 1, preds: vec![], ret: None, hop: None, form: "plain", raw: Some(RawQ::Fixed(i)) });
        }
    }
    let partial: Vec<(u8, u8)> = ALL_PAIRS.iter().filter(|_| rng.chance(1, 2)).copied().collect();
    Case { ix_mid: rng.usize(ops.len() + 1), cp_mid: cp_at.map(|c| c.min(ops.len())), ops, queries, partial }
}

/// Appendix B: the pattern has >= 1 match before filtering (a live node carries the label),
/// the plan has an operator beyond scan/project, and the configurations produced >= 2 plan shapes
fn nontrivial(case: &Case, shapes: &[BTreeSet<String>]) -> bool {
    let mut live: BTreeMap<u64, Vec<u8>> = BTreeMap::new();
    for op in &case.ops {
        match op {
            HOp::Create { h, labels, .. } => {
                live.insert(*h, labels.clone());
            }
            HOp::Delete { h } => {
                live.remove(h);
            }
            HOp::AddLabel { h, l } => {
                if let Some(ls) = live.get_mut(h) {
                    if !ls.contains(l) {
                        ls.push(*l);
                    }
                }
            }
            HOp::RemoveLabel { h, l } => {
                if let Some(ls) = live.get_mut(h) {
                    ls.retain(|x| x != l);
                }
            }
            _ => {}
        }
    }
    case.queries.iter().enumerate().any(|(qi, q)| {
        let matched = live.values().any(|ls| ls.contains(&q.label));
        let sh = match shapes.get(qi) {
            Some(s) => s,
            None => return false,
        };
        let beyond = sh.iter().any(|s| s.split('>').any(|o| !matches!(o, "Project" | "NodeScan" | "IndexScan" | "?" | "")));
        matched && beyond && sh.len() >= 2
    })
}

// ---------------------------------------------------------------------------------------------
// child / parent
// ---------------------------------------------------------------------------------------------

fn child_main(file: &str) {
    let txt = std::fs::read_to_string(file).expect("case file");
    let out = std::io::stdout();
    let mut out = std::io::BufWriter::new(out.lock());
    for (k, line) in txt.lines().enumerate() {
        let Some(case) = Case::parse(line) else {
            writeln!(out, "case {} unparsable", k).unwrap();
            continue;
        };
        let r = eval_case(&case, true);
        writeln!(out, "case {}", k).unwrap();
        for (c, o) in &r.obs {
            writeln!(out, "cfg {} {}", c, o).unwrap();
        }
        for (c, o) in &r.native_obs {
            writeln!(out, "ncfg {} {}", c, o).unwrap();
        }
        writeln!(out, "shapes {}", r.shapes.iter().map(|q| q.iter().cloned().collect::<Vec<_>>().join(",")).collect::<Vec<_>>().join("|")).unwrap();
        for e in r.write_errs.iter().take(3) {
            writeln!(out, "werr {}", e.replace('\n', " ")).unwrap();
        }
        writeln!(out, "end").unwrap();
    }
}

struct Parsed {
    obs: Vec<(String, String)>,
    native_obs: Vec<(String, String)>,
    shapes: Vec<BTreeSet<String>>,
    werrs: Vec<String>,
    raw: String,
}

fn parse_child(out: &str, n: usize) -> Vec<Parsed> {
    let mut v: Vec<Parsed> = vec![];
    let mut cur: Option<Parsed> = None;
    for line in out.lines() {
        if line.starts_with("case ") {
            cur = Some(Parsed { obs: vec![], native_obs: vec![], shapes: vec![], werrs: vec![], raw: String::new() });
        }
        if let Some(c) = cur.as_mut() {
            if let Some(r) = line.strip_prefix("ncfg ") {
                if let Some((a, b)) = r.split_once(' ') {
                    c.native_obs.push((a.to_string(), b.to_string()));
                }
                continue;
            }
            // plan shapes are coverage evidence, never a verdict input (the graph-native
            // enumerator's choice among equal-cost plans follows HashMap order)
            if !line.starts_with("shapes ") {
                c.raw.push_str(line);
                c.raw.push('\n');
            }
            if let Some(r) = line.strip_prefix("cfg ") {
                if let Some((a, b)) = r.split_once(' ') {
                    c.obs.push((a.to_string(), b.to_string()));
                }
            } else if let Some(r) = line.strip_prefix("shapes ") {
                c.shapes = r.split('|').map(|q| q.split(',').map(|s| s.to_string()).collect()).collect();
            } else if let Some(r) = line.strip_prefix("werr ") {
                c.werrs.push(r.to_string());
            } else if line == "end" {
                v.push(cur.take().unwrap());
            }
        }
    }
    assert_eq!(v.len(), n, "child answered {} cases for {}", v.len(), n);
    v
}

fn dims_diff(cfg: &str) -> Vec<&'static str> {
    let f: Vec<&str> = cfg.split('.').collect();
    let mut d = vec![];
    if f[0] != "none" {
        d.push("index");
    }
    if f[1] != "never" {
        d.push("tier");
    }
    if f[2] != "legacy" {
        d.push("planner");
    }
    if f[3] != "seq" {
        d.push("parallel");
    }
    d
}

fn main() {
    let args = Args::parse();
    if let Some(p) = args.extra.iter().position(|a| a == "--child") {
        child_main(&args.extra[p + 1]);
        return;
    }
    let known = Known::load(&args.known, "C02");
    let mut rep = Report::new(
        "C02",
        "random write histories (create/set incl. type changes/remove/delete with id reuse/label add+remove/relationships) x read queries \
         (single-label MATCH, 0-2 comparison or IN predicates, optional one-hop in either direction, typed or untyped, to a labelled or unlabelled node, RETURN n.k | count | n.h,m.h; plain/flipped/reversed/inline/WITH forms); \
         a third of the cases ask two-segment path queries (fan-in, fan-out, chain, undirected, untyped; equality on an indexed key of the start, middle or end node; RETURN handles or count(*)) that are outside the Lean model and only have to agree across all configurations and processes; a sixth of the cases rewrite an indexed key with ==-equal values of a different index key (0.0, -0.0, 0) or NaN and then SET/REMOVE/unlabel/DELETE+reuse; a quarter of the cases are relationship-heavy (parallel and multi-type relationships between one pair, self-loops, compaction, then deletes of frozen relationships and DETACH DELETEs interleaved with creates that reuse the freed ids), \
         each replayed into 5 index placements x up to 3 compaction placements and run under 2 planners x 2 parallel-filter settings, in two processes; \
         non-trivial = a live node carries a queried label, some plan has an operator beyond scan/project, and the configurations produced >= 2 plan shapes; \
         distinct = distinct rendered case",
        &args.replays,
        args.seed,
    );
    let exe = args.driver_exe("drv_idxscan");
    std::fs::create_dir_all(&args.work).ok();
    let tmp = tempfile::Builder::new().prefix("c02").tempdir_in(&args.work).expect("work dir");

    // 1. corpus / replay
    let mut cases: Vec<Case> = vec![];
    let mut files: Vec<std::path::PathBuf> = vec![];
    if let Some(r) = &args.replay {
        files.push(r.clone());
    } else if let Ok(rd) = std::fs::read_dir(args.corpus.join("C02")) {
        files = rd.filter_map(|e| e.ok().map(|e| e.path())).collect();
        files.sort();
    }
    for f in &files {
        for line in std::fs::read_to_string(f).unwrap_or_default().lines() {
            if let Some(c) = Case::parse(line.trim()) {
                cases.push(c);
            }
        }
    }
    let n_corpus = cases.len();
    rep.count_n("corpus_cases", n_corpus as u64);

    // 2. PRNG cases
    if args.replay.is_none() {
        // `Rng::new(s)` and `Rng::new(s + 1)` are the same stream one step apart; spread the seeds
        let mut rng = Rng::new(args.seed.wrapping_mul(0xD6E8_FEB8_6659_FD93).rotate_left(23) ^ 0xC02);
        let (n_rand, n_edge, n_zero, n_path, n_big) = if args.thorough() { (3200, 1100, 900, 1800, 24) } else { (240, 90, 80, 130, 4) };
        for _ in 0..n_rand {
            let mut r = rng.fork();
            cases.push(gen_case(&mut r, false));
        }
        for _ in 0..n_edge {
            let mut r = rng.fork();
            cases.push(gen_edge_case(&mut r));
        }
        rep.count_n("edge_heavy_cases", n_edge as u64);
        for _ in 0..n_zero {
            let mut r = rng.fork();
            cases.push(gen_zero_case(&mut r));
        }
        rep.count_n("equal_value_rewrite_cases", n_zero as u64);
        for _ in 0..n_path {
            let mut r = rng.fork();
            cases.push(gen_path_case(&mut r));
        }
        rep.count_n("two_segment_path_cases", n_path as u64);
        for _ in 0..n_big {
            let mut r = rng.fork();
            cases.push(gen_case(&mut r, true));
        }
    }

    // 3. shards x 2 processes
    let n_shards = if cases.len() < 40 { 1 } else if args.thorough() { 8 } else { 6 };
    let me = std::env::current_exe().expect("current exe");
    let mut shard_of: Vec<Vec<usize>> = vec![vec![]; n_shards];
    // big cases are spread over the shards
    for k in 0..cases.len() {
        shard_of[k % n_shards].push(k);
    }
    let mut children = vec![];
    for (si, idxs) in shard_of.iter().enumerate() {
        let file = tmp.path().join(format!("shard{}.cases", si));
        let txt: String = idxs.iter().map(|k| format!("{}\n", cases[*k].render())).collect();
        std::fs::write(&file, txt).expect("write shard");
        for copy in 0..2 {
            let child = std::process::Command::new(&me)
                .arg("--child")
                .arg(&file)
                .env_remove("SAMYAMA_GRAPH_NATIVE")
                .env_remove("SAMYAMA_FILTER_PARALLEL_COST")
                .stdin(std::process::Stdio::null())
                .stdout(std::process::Stdio::piped())
                .stderr(std::process::Stdio::null())
                .spawn()
                .expect("spawn child");
            children.push((si, copy, child));
        }
    }
    let mut outs: BTreeMap<(usize, usize), String> = BTreeMap::new();
    for (si, copy, child) in children {
        let o = child.wait_with_output().expect("child output");
        if !o.status.success() {
            rep.notes.push(format!("child shard {} copy {} exited with {:?}", si, copy, o.status));
        }
        outs.insert((si, copy), String::from_utf8_lossy(&o.stdout).to_string());
    }
    let mut results: Vec<Option<Parsed>> = (0..cases.len()).map(|_| None).collect();
    for (si, idxs) in shard_of.iter().enumerate() {
        let a = parse_child(&outs[&(si, 0)], idxs.len());
        let b = parse_child(&outs[&(si, 1)], idxs.len());
        for (j, (pa, pb)) in a.into_iter().zip(b.into_iter()).enumerate() {
            let k = idxs[j];
            if pa.raw != pb.raw {
                rep.count("process_diff");
                let body = format!("{}\n# process 1\n{}# process 2\n{}", cases[k].render(), pa.raw, pb.raw);
                rep.spec_violation(&known, "process:results-differ", &format!("two processes returned different canonical results for `{}`", cases[k].render()), &body);
            }
            if pa.native_obs != pb.native_obs {
                rep.count("process_diff_native_two_segment");
                rep.spec_violation(&known, "process:two-segment-path-native", &format!("graph-native planner: two processes returned different rows for a two-segment path query of `{}`", cases[k].render()), &cases[k].render());
            }
            if let Some((cfg, o)) = pa.native_obs.first() {
                rep.count("native_two_segment_deviation");
                let masked = pa.obs.iter().find(|(c2, _)| c2 == cfg).map(|(_, m)| m.clone()).unwrap_or_default();
                let qi = o.split(';').zip(masked.split(';')).position(|(a, b)| a != b).unwrap_or(0);
                rep.spec_violation(
                    &known,
                    "planner:two-segment-path-native",
                    &format!(
                        "`{}` under {} returns {} ; the legacy planner on the same store returns {}",
                        cases[k].queries.get(qi).map(|q| q.cypher()).unwrap_or_default(),
                        cfg,
                        o.split(';').nth(qi).unwrap_or("?"),
                        masked.split(';').nth(qi).unwrap_or("?")
                    ),
                    &format!("{}\n# {} {}\n# legacy rows of the same store: {}", cases[k].render(), cfg, o, masked),
                );
            }
            results[k] = Some(pa);
        }
    }

    // 4. the model and the specification
    let mut lines: Vec<String> = vec![];
    let mut line_of: Vec<(usize, Vec<String>)> = vec![]; // per case: first line index, distinct obs
    for (k, c) in cases.iter().enumerate() {
        let r = results[k].as_ref().unwrap();
        let mut distinct: Vec<String> = vec![];
        for (_, o) in &r.obs {
            if !distinct.contains(o) {
                distinct.push(o.clone());
            }
        }
        let (mo, mq) = (c.model_ops(), c.model_queries());
        line_of.push((lines.len(), distinct.clone()));
        lines.push(format!("run {} {}", mo, mq));
        for o in &distinct {
            lines.push(format!("spec {} {} {}", mo, mq, c.modelled_obs(o)));
        }
    }
    let replies = driver::par_batch(&exe, &lines, 12);

    let mut first_break: Option<String> = None;
    let mut sig_seen: BTreeSet<String> = BTreeSet::new();
    for (k, c) in cases.iter().enumerate() {
        let r = results[k].as_ref().unwrap();
        let (l0, distinct) = &line_of[k];
        let model = &c.full_model(&replies[*l0]);
        let rendered = c.render();
        let nt = nontrivial(c, &r.shapes);
        rep.case(&rendered, nt);
        for qs in &r.shapes {
            for s in qs {
                for o in s.split('>') {
                    rep.count(&format!("plan_op:{}", o));
                }
            }
            if qs.len() >= 2 {
                rep.count("queries_with_2plus_plan_shapes");
            }
        }
        rep.count_n("configurations_run", r.obs.len() as u64);
        rep.count_n("queries", c.queries.len() as u64);
        for op in &c.ops {
            rep.count(match op {
                HOp::Create { .. } => "op:create",
                HOp::Set { .. } => "op:set",
                HOp::Remove { .. } => "op:remove-prop",
                HOp::Delete { .. } => "op:delete",
                HOp::AddLabel { .. } => "op:add-label",
                HOp::RemoveLabel { .. } => "op:remove-label",
                HOp::CreateEdge { .. } => "op:create-edge",
                HOp::DeleteEdge { .. } => "op:delete-edge",
            });
        }
        if c.cp_mid.is_some() {
            rep.count("cases_with_mid_compaction");
        }
        if !r.werrs.is_empty() {
            rep.count("cases_with_write_errors");
            if rep.notes.len() < 5 {
                rep.notes.push(format!("write error: {}", r.werrs[0]));
            }
        }
        if nt && rep.samples.len() < 4 {
            rep.sample(json!({"case": rendered, "cypher": c.queries.iter().map(|q| q.cypher()).collect::<Vec<_>>(),
                "obs": distinct.first(), "model": model, "plan_shapes": r.shapes}));
        }
        // which observations violate S?
        let mut bad: Vec<(usize, usize)> = vec![]; // (distinct idx, query idx)
        for (j, _) in distinct.iter().enumerate() {
            let rp = &replies[l0 + 1 + j];
            if rp != "ok" {
                let qm = rp.strip_prefix("viol ").and_then(|x| x.parse::<usize>().ok()).unwrap_or(usize::MAX);
                // index among the modelled queries -> index among all queries
                let qi = c.queries.iter().enumerate().filter(|(_, q)| q.raw.is_none()).nth(qm).map(|(i, _)| i).unwrap_or(usize::MAX);
                bad.push((j, qi));
            }
        }
        if !bad.is_empty() || distinct.len() > 1 {
            // the deviating configuration with the fewest differences from the baseline
            let base = &r.obs[0].1;
            let bad_obs: Vec<&String> = if bad.is_empty() { distinct.iter().skip(1).collect() } else { bad.iter().map(|(j, _)| &distinct[*j]).collect() };
            let mut best: Option<(&str, Vec<&'static str>)> = None;
            for (cfg, o) in &r.obs {
                if bad_obs.contains(&o) {
                    let d = dims_diff(cfg);
                    if best.as_ref().map_or(true, |(_, bd)| d.len() < bd.len()) {
                        best = Some((cfg, d));
                    }
                }
            }
            let (cfg, dims) = best.unwrap_or(("?", vec![]));
            // first query on which that configuration deviates from the specification / baseline
            let cfg_obs = r.obs.iter().find(|(c2, _)| c2 == cfg).map(|(_, o)| o.clone()).unwrap_or_default();
            let qi = bad
                .iter()
                .find(|(j, _)| distinct[*j] == cfg_obs)
                .map(|(_, q)| *q)
                .filter(|q| *q != usize::MAX)
                .or_else(|| cfg_obs.split(';').zip(base.split(';')).position(|(a, b)| a != b))
                .unwrap_or(0);
            let qkind = c.queries.get(qi).map(|q| q.kind()).unwrap_or("?".into());
            let dim = if dims.is_empty() { "baseline".to_string() } else { dims.join("+") };
            // rows the configuration lacks / has beyond the model's bag
            let bag = |t: &str| -> Vec<String> { if t == "-" { vec![] } else { t.split('/').map(|x| x.to_string()).collect() } };
            let got = bag(cfg_obs.split(';').nth(qi).unwrap_or("-"));
            let want_txt = match model.split(';').nth(qi) {
                Some("?") | None => base.split(';').nth(qi).unwrap_or("-"),
                Some(m) => m,
            };
            let want = bag(want_txt);
            let mut rest = want.clone();
            let mut extra = 0;
            for g in &got {
                match rest.iter().position(|w| w == g) {
                    Some(p) => {
                        rest.remove(p);
                    }
                    None => extra += 1,
                }
            }
            let delta = match (rest.is_empty(), extra == 0) {
                (true, true) => "same-as-model",
                (false, true) => "missing",
                (true, false) => "extra",
                (false, false) => "missing+extra",
            };
            let sig = format!("{}:{}:{}", dim, qkind, delta);
            rep.count(&format!("violation:{}", sig));
            if sig_seen.insert(sig.clone()) || known.is_known(&sig).is_some() {
                let mut body = format!("{}\n", rendered);
                for q in &c.queries {
                    body.push_str(&format!("# {}\n", q.cypher()));
                }
                body.push_str(&format!("# deviating configuration: {} (query #{}: {})\n# model: {}\n", cfg, qi, c.queries.get(qi).map(|q| q.cypher()).unwrap_or_default(), model));
                for (cfg2, o) in &r.obs {
                    body.push_str(&format!("# {} {}\n", cfg2, o));
                }
                rep.spec_violation(
                    &known,
                    &sig,
                    &format!(
                        "`{}` under configuration {} returns {} ; specification/model: {} ; baseline none.never.legacy.seq: {}",
                        c.queries.get(qi).map(|q| q.cypher()).unwrap_or_default(),
                        cfg,
                        cfg_obs.split(';').nth(qi).unwrap_or("?"),
                        model.split(';').nth(qi).unwrap_or("?"),
                        base.split(';').nth(qi).unwrap_or("?")
                    ),
                    &body,
                );
            }
        } else if *model != c.full_model(&format!("ok {}", c.modelled_obs(&distinct[0]))) {
            rep.count("model_mismatch");
            if first_break.is_none() {
                first_break = Some(format!("{}\nimpl  {}\nmodel {}", rendered, distinct[0], model));
            }
        }
    }
    if let Some(body) = first_break {
        if rep.spec_violations.is_empty() {
            rep.correspondence_break(
                "SgModel.IdxScan.planRows = QueryEngine::execute (canonical bags)",
                "model and implementation rows differ although the specification holds on all explored cases",
                &body,
            );
        }
    }
    rep.extra.insert("processes".into(), json!(n_shards * 2));
    rep.extra.insert("disagreements_checked".into(), json!(rep.histogram.iter().filter(|(k, _)| k.starts_with("violation:")).map(|(_, v)| *v).sum::<u64>()));
    rep.write(&args.out);
}
