//! Shared by c23 / c19: driving the two query front ends of the server in-process
//! (`CommandHandler::handle_command` with RESP values built here, and the shipped axum
//! router through `tower::ServiceExt::oneshot`), the embedded engine, and a canonical,
//! id-free dump of a whole `GraphStore`.
#![allow(dead_code)]
use samyama::graph::{GraphStore, NodeId, PropertyValue};
use samyama::http::HttpServer;
use samyama::persistence::PersistenceManager;
use samyama::protocol::{CommandHandler, RespValue};
use samyama::query::executor::{MutQueryExecutor, QueryExecutor};
use samyama::query::parser::parse_query;
use samyama::query::{RecordBatch, Value};
use std::collections::{BTreeSet, HashMap};
use std::sync::Arc;
use tokio::sync::RwLock;

pub type Shared = Arc<RwLock<GraphStore>>;

// ---------------------------------------------------------------- canonical values

pub fn pv_text(v: &PropertyValue) -> String {
    match v {
        PropertyValue::Null => "N".into(),
        PropertyValue::Boolean(b) => format!("B{}", *b as u8),
        PropertyValue::Integer(i) => format!("I{}", i),
        PropertyValue::Float(f) => format!("D{:016x}", f.to_bits()),
        PropertyValue::String(s) => format!("S{}", esc(s)),
        PropertyValue::Array(a) => format!("L[{}]", a.iter().map(pv_text).collect::<Vec<_>>().join(",")),
        other => format!("X{}", esc(&format!("{:?}", other))),
    }
}

/// A string cell.  The one-row `plan` report of `EXPLAIN` / `PROFILE` carries wall-clock
/// timings, row counts and store statistics: it is reduced to the letters of the plan
/// description (the text before the first `---` section), so that two reports of the same plan
/// compare equal and a report never compares equal to ordinary rows.
pub fn str_cell(s: &str) -> String {
    // RESP sends a float as the bulk string of its decimal text: a string that reads as a
    // decimal fraction is compared as a float on all three paths (6 decimals: PageRank sums)
    if s.contains('.') && s.len() < 40 {
        if let Ok(f) = s.parse::<f64>() {
            return float_cell(f);
        }
    }
    if s.contains("--- Statistics ---") || s.contains("--- Profile ---") {
        let head = s.split("\n---").next().unwrap_or("");
        let letters: String = head.chars().filter(|c| c.is_ascii_alphabetic()).take(120).collect();
        format!("PLAN<{}>", letters)
    } else {
        format!("S{}", esc(s))
    }
}

/// A float cell, the same for the engine value, the JSON number and RESP's decimal text:
/// an integral float is what RESP prints (`2`), anything else is rounded to 6 decimals.
pub fn float_cell(f: f64) -> String {
    if f.is_finite() && f.fract() == 0.0 {
        format!("S{}", esc(&f.to_string()))
    } else {
        format!("F{:.6}", f)
    }
}

/// printable, space-free rendering of a string
pub fn esc(s: &str) -> String {
    let mut o = String::new();
    for c in s.chars() {
        if c.is_ascii_alphanumeric() || "_-.+*/()[]{}<>=!?@#$^&;'\"".contains(c) {
            o.push(c);
        } else {
            o.push_str(&format!("%{:02x}", c as u32));
        }
    }
    o
}

fn props_text(props: &HashMap<String, PropertyValue>) -> String {
    let mut es: Vec<String> = props
        .iter()
        .filter(|(_, v)| !matches!(v, PropertyValue::Null))
        .map(|(k, v)| format!("{}={}", esc(k), pv_text(v)))
        .collect();
    es.sort();
    es.join(",")
}

/// descriptor of one node: sorted labels + sorted non-null properties (no id)
pub fn node_desc(store: &GraphStore, id: NodeId) -> Option<String> {
    let n = store.get_node(id)?;
    let mut ls: Vec<String> = n.labels.iter().map(|l| esc(l.as_str())).collect();
    ls.sort();
    Some(format!("({}|{})", ls.join(":"), props_text(&store.node_properties_full(id))))
}

/// Full dump of the logical graph, invariant under renaming of ids: the sorted multiset of
/// node descriptors and the sorted multiset of relationships, each with the descriptors of
/// its endpoints.  Equal graphs have equal dumps; in the generated graphs descriptors are
/// (nearly always) unique, so different graphs have different dumps.
pub fn dump(store: &GraphStore) -> String {
    let ids: BTreeSet<u64> = store.all_nodes().iter().map(|n| n.id.as_u64()).collect();
    let mut nodes: Vec<String> = ids.iter().filter_map(|i| node_desc(store, NodeId::new(*i))).collect();
    nodes.sort();
    let mut rels: Vec<String> = store
        .all_edges()
        .iter()
        .map(|e| {
            let props: HashMap<String, PropertyValue> = e.properties.iter().map(|(k, v)| (k.clone(), v.clone())).collect();
            format!(
                "{}-[{}|{}]->{}",
                node_desc(store, e.source).unwrap_or_else(|| "(?)".into()),
                esc(e.edge_type.as_str()),
                props_text(&props),
                node_desc(store, e.target).unwrap_or_else(|| "(?)".into())
            )
        })
        .collect();
    rels.sort();
    format!("nodes{{{}}}rels{{{}}}", nodes.join(";"), rels.join(";"))
}

// ---------------------------------------------------------------- outcomes

/// Canonical outcome of one statement: `ok|<columns>|<sorted rows>` or `err|<class>|<first line>`.
/// A row is a mapping column → value: its cells are listed **in header order** and are never
/// reordered (only the rows are sorted, a table being a bag of rows), so a value shown under the
/// wrong column name, a reordered header or a missing column all change the outcome.
/// Cells: `I<int>`, `S<text>`, `N`, `node`, `rel`, `L[…]`, `?<…>` (anything else).
#[derive(Clone, Debug, PartialEq, Eq)]
pub struct Outcome {
    pub canon: String,
    /// the read executor refused a write plan
    pub refused: bool,
    pub is_err: bool,
    pub is_parse_err: bool,
}

fn finish_rows(cols: Vec<String>, mut rows: Vec<String>) -> Outcome {
    rows.sort();
    Outcome {
        canon: format!("ok|{}|{}", cols.join(","), rows.join(";")),
        refused: false,
        is_err: false,
        is_parse_err: false,
    }
}

pub fn err_outcome(msg: &str) -> Outcome {
    let msg = msg.strip_prefix("ERR ").unwrap_or(msg);
    let refused = msg.contains("read-only executor");
    let lower = msg.to_lowercase();
    let is_parse = lower.contains("parse error") || lower.contains("syntax error") || msg.contains(" --> ");
    let class = if refused {
        "refused"
    } else if is_parse {
        "parse"
    } else {
        "other"
    };
    // first line only, letters and digits only: agent `resp` changes how CR/LF inside error
    // strings are encoded on the wire, which is not what this property is about
    let first: String = if is_parse {
        String::new()
    } else {
        msg.chars()
            .take_while(|c| *c != '\r' && *c != '\n' && *c != '\\')
            .filter(|c| c.is_ascii_alphanumeric())
            .take(60)
            .collect()
    };
    Outcome { canon: format!("err|{}|{}", class, first), refused, is_err: true, is_parse_err: is_parse }
}

fn value_cell(v: &Value) -> String {
    match v {
        Value::Null => "N".into(),
        Value::Property(PropertyValue::Integer(i)) => format!("I{}", i),
        Value::Property(PropertyValue::String(s)) => str_cell(s),
        Value::Property(PropertyValue::Null) => "N".into(),
        Value::Property(PropertyValue::Float(f)) => float_cell(*f),
        Value::Property(p) => format!("?{}", pv_text(p)),
        Value::Node(..) | Value::NodeRef(..) => "node".into(),
        Value::Edge(..) | Value::EdgeRef(..) => "rel".into(),
        Value::List(l) => format!("L[{}]", l.iter().map(value_cell).collect::<Vec<_>>().join(",")),
        other => format!("?{}", esc(&format!("{:?}", other))),
    }
}

pub fn batch_outcome(b: &RecordBatch) -> Outcome {
    let rows = b
        .records
        .iter()
        .map(|r| b.columns.iter().map(|c| r.get(c).map(value_cell).unwrap_or_else(|| "N".into())).collect::<Vec<_>>().join(","))
        .collect();
    finish_rows(b.columns.iter().map(|c| esc(c)).collect(), rows)
}

fn resp_cell(v: &RespValue) -> String {
    match v {
        RespValue::Null | RespValue::BulkString(None) => "N".into(),
        RespValue::Integer(i) => format!("I{}", i),
        RespValue::BulkString(Some(b)) => {
            let s = String::from_utf8_lossy(b);
            if s.starts_with("Node(NodeId(") {
                "node".into()
            } else if s.starts_with("Edge(EdgeId(") {
                "rel".into()
            } else if s == "Null" {
                // `Value::Property(PropertyValue::Null)` is sent as the bulk string "Null"
                // (`format_value` prints non-scalar properties with `{:?}`): an encoding
                // quirk of the reply, not a routing matter — read as null
                "N".into()
            } else {
                str_cell(&s)
            }
        }
        RespValue::Array(a) => format!("L[{}]", a.iter().map(resp_cell).collect::<Vec<_>>().join(",")),
        RespValue::SimpleString(s) => format!("?simple{}", esc(s)),
        RespValue::Error(s) => format!("?error{}", esc(s)),
    }
}

pub fn resp_outcome(v: &RespValue) -> Outcome {
    match v {
        RespValue::Error(m) => err_outcome(m),
        RespValue::Array(rows) if !rows.is_empty() => {
            let cols = match &rows[0] {
                RespValue::Array(h) => h
                    .iter()
                    .map(|c| match c {
                        RespValue::BulkString(Some(b)) => esc(&String::from_utf8_lossy(b)),
                        o => resp_cell(o),
                    })
                    .collect(),
                o => vec![resp_cell(o)],
            };
            let data = rows[1..]
                .iter()
                .map(|r| match r {
                    RespValue::Array(cells) => cells.iter().map(resp_cell).collect::<Vec<_>>().join(","),
                    o => resp_cell(o),
                })
                .collect();
            finish_rows(cols, data)
        }
        other => Outcome { canon: format!("weird|{}", esc(&format!("{:?}", other))), refused: false, is_err: true, is_parse_err: false },
    }
}

fn json_cell(v: &serde_json::Value) -> String {
    use serde_json::Value as J;
    match v {
        J::Null => "N".into(),
        J::Number(n) if n.is_i64() => format!("I{}", n.as_i64().unwrap()),
        J::Number(n) => n.as_f64().map(float_cell).unwrap_or_else(|| format!("?num{}", n)),
        J::String(s) => str_cell(s),
        J::Bool(b) => format!("?bool{}", b),
        J::Object(o) if o.contains_key("labels") => "node".into(),
        J::Object(o) if o.contains_key("source") => "rel".into(),
        // the HTTP handler renders list items with `{:?}` of the engine value
        J::Array(a) => format!(
            "L[{}]",
            a.iter()
                .map(|x| match x {
                    J::String(s) => debug_cell(s),
                    o => json_cell(o),
                })
                .collect::<Vec<_>>()
                .join(",")
        ),
        other => format!("?{}", esc(&other.to_string())),
    }
}

/// `Property(Integer(1))` / `Property(String("a"))` / `Null` as printed by `{:?}`
fn debug_cell(s: &str) -> String {
    if let Some(x) = s.strip_prefix("Property(Integer(").and_then(|x| x.strip_suffix("))")) {
        return format!("I{}", x);
    }
    if let Some(x) = s.strip_prefix("Property(String(\"").and_then(|x| x.strip_suffix("\"))")) {
        return format!("S{}", esc(x));
    }
    if s == "Null" || s == "Property(Null)" {
        return "N".into();
    }
    format!("?{}", esc(s))
}

pub fn http_outcome(status: u16, body: &serde_json::Value) -> Outcome {
    if let Some(e) = body.get("error").and_then(|e| e.as_str()) {
        return err_outcome(e);
    }
    if status != 200 {
        return Outcome { canon: format!("weird|status{}", status), refused: false, is_err: true, is_parse_err: false };
    }
    let cols: Vec<String> = body["columns"].as_array().cloned().unwrap_or_default().iter().map(|c| esc(c.as_str().unwrap_or("?"))).collect();
    let rows = body["records"]
        .as_array()
        .cloned()
        .unwrap_or_default()
        .iter()
        .map(|r| r.as_array().cloned().unwrap_or_default().iter().map(json_cell).collect::<Vec<_>>().join(","))
        .collect();
    finish_rows(cols, rows)
}

// ---------------------------------------------------------------- the three ways to run a statement

/// the embedded engine: `parse_query` + `MutQueryExecutor` (runs reads and writes)
pub fn run_engine(store: &mut GraphStore, text: &str) -> Outcome {
    let q = match parse_query(text) {
        Ok(q) => q,
        Err(e) => return err_outcome(&format!("{}", e)),
    };
    let r = std::panic::catch_unwind(std::panic::AssertUnwindSafe(|| MutQueryExecutor::new(store, "default".to_string()).execute(&q)));
    match r {
        Ok(Ok(b)) => batch_outcome(&b),
        Ok(Err(e)) => err_outcome(&format!("{}", e)),
        Err(_) => Outcome { canon: "panic".into(), refused: false, is_err: true, is_parse_err: false },
    }
}

/// **The engine run directly** (the reference of C23): `QueryEngine::execute`, and
/// `QueryEngine::execute_mut` when the read executor says the statement is a write plan —
/// the engine's documented dispatch.  Also returns what the planner said (`plan.is_write`,
/// observed as the refusal; `None` when the statement does not reach the check: parse error,
/// `EXPLAIN`, another error).
pub fn run_engine_split(store: &mut GraphStore, text: &str) -> (Outcome, Option<bool>) {
    let engine = samyama::query::QueryEngine::new();
    let first = std::panic::catch_unwind(std::panic::AssertUnwindSafe(|| engine.execute(text, store).map_err(|e| e.to_string())));
    match first {
        Ok(Ok(b)) => {
            // EXPLAIN returns before the write check: the planner's verdict is not observable
            let explained = parse_query(text).map(|q| q.explain).unwrap_or(false);
            (batch_outcome(&b), if explained { None } else { Some(false) })
        }
        Ok(Err(e)) if e.contains("read-only executor") => {
            let second = std::panic::catch_unwind(std::panic::AssertUnwindSafe(|| engine.execute_mut(text, store, "default").map_err(|e| e.to_string())));
            let o = match second {
                Ok(Ok(b)) => batch_outcome(&b),
                Ok(Err(e)) => err_outcome(&e),
                Err(_) => Outcome { canon: "panic".into(), refused: false, is_err: true, is_parse_err: false },
            };
            (o, Some(true))
        }
        Ok(Err(e)) => (err_outcome(&e), None),
        Err(_) => (Outcome { canon: "panic".into(), refused: false, is_err: true, is_parse_err: false }, None),
    }
}

/// `Some(true)` when the read executor refuses the statement as a write plan (`plan.is_write`),
/// `Some(false)` when it runs or fails otherwise, `None` when the statement does not parse
pub fn plan_is_write(store: &GraphStore, text: &str) -> Option<bool> {
    let q = parse_query(text).ok()?;
    if q.explain {
        return None;
    }
    let r = std::panic::catch_unwind(std::panic::AssertUnwindSafe(|| QueryExecutor::new(store).execute(&q)));
    match r {
        Ok(Ok(_)) => Some(false),
        Ok(Err(e)) => Some(format!("{}", e).contains("read-only executor")),
        Err(_) => None,
    }
}

pub fn bulk(s: &str) -> RespValue {
    RespValue::BulkString(Some(s.as_bytes().to_vec()))
}

pub async fn run_resp(handler: &CommandHandler, store: &Shared, text: &str) -> RespValue {
    let cmd = RespValue::Array(vec![bulk("GRAPH.QUERY"), bulk("default"), bulk(text)]);
    handler.handle_command(&cmd, store).await
}

/// the same with the command name as given (`graph.query`, `Graph.Query` …)
pub async fn run_resp_named(handler: &CommandHandler, store: &Shared, name: &str, text: &str) -> RespValue {
    let cmd = RespValue::Array(vec![bulk(name), bulk("default"), bulk(text)]);
    handler.handle_command(&cmd, store).await
}

pub async fn run_resp_cmd(handler: &CommandHandler, store: &Shared, words: &[&str]) -> RespValue {
    let cmd = RespValue::Array(words.iter().map(|w| bulk(w)).collect());
    handler.handle_command(&cmd, store).await
}

/// POST /api/query on the router the server ships (`HttpServer::router`)
pub async fn run_http(store: &Shared, data_path: Option<String>, text: &str) -> (u16, serde_json::Value) {
    run_http_opt(store, data_path, text, false).await
}

/// `explicit_graph`: send `"graph": "default"` instead of relying on the default
pub async fn run_http_opt(store: &Shared, data_path: Option<String>, text: &str, explicit_graph: bool) -> (u16, serde_json::Value) {
    use http_body_util::BodyExt;
    use tower::ServiceExt;
    let app = HttpServer::new(Arc::clone(store), 0).with_data_path(data_path).router();
    let body = if explicit_graph { serde_json::json!({ "query": text, "graph": "default" }) } else { serde_json::json!({ "query": text }) }.to_string();
    let req = axum::http::Request::builder()
        .method("POST")
        .uri("/api/query")
        .header("content-type", "application/json")
        .body(axum::body::Body::from(body))
        .unwrap();
    let resp = app.oneshot(req).await.unwrap();
    let status = resp.status().as_u16();
    let bytes = resp.into_body().collect().await.unwrap().to_bytes();
    let json = serde_json::from_slice(&bytes).unwrap_or_else(|_| serde_json::json!({"error": format!("non-json body: {}", String::from_utf8_lossy(&bytes))}));
    (status, json)
}

pub fn new_handler(p: Option<Arc<PersistenceManager>>) -> CommandHandler {
    CommandHandler::new(p)
}

/// a store prepared by running `seed` statements on the embedded engine
pub fn seeded_store(seed: &[&str]) -> GraphStore {
    let mut st = GraphStore::new();
    for s in seed {
        let o = run_engine(&mut st, s);
        assert!(!o.is_err, "seed statement `{}` failed: {}", s, o.canon);
    }
    st
}

// ---------------------------------------------------------------- text helpers

pub fn hex(s: &str) -> String {
    if s.is_empty() {
        return "-".into();
    }
    s.bytes().map(|b| format!("{:02x}", b)).collect()
}

pub fn unhex(h: &str) -> String {
    if h == "-" {
        return String::new();
    }
    let b: Vec<u8> = (0..h.len()).step_by(2).filter_map(|i| u8::from_str_radix(&h[i..i + 2], 16).ok()).collect();
    String::from_utf8_lossy(&b).to_string()
}

/// corpus escapes: `\n` `\t` `\r` `\\`
pub fn unescape(s: &str) -> String {
    let mut o = String::new();
    let mut it = s.chars();
    while let Some(c) = it.next() {
        if c == '\\' {
            match it.next() {
                Some('n') => o.push('\n'),
                Some('t') => o.push('\t'),
                Some('r') => o.push('\r'),
                Some('\\') => o.push('\\'),
                Some(x) => {
                    o.push('\\');
                    o.push(x)
                }
                None => o.push('\\'),
            }
        } else {
            o.push(c);
        }
    }
    o
}

pub fn escape(s: &str) -> String {
    s.replace('\\', "\\\\").replace('\n', "\\n").replace('\t', "\\t").replace('\r', "\\r")
}
