//! scratch probe for C02 (cyidx) — not part of the check
use samyama::graph::GraphStore;
use samyama::query::QueryEngine;

fn q(e: &QueryEngine, s: &GraphStore, text: &str) -> String {
    match e.execute(text, s) {
        Ok(b) => {
            let mut rows: Vec<String> = b
                .records
                .iter()
                .map(|r| {
                    b.columns
                        .iter()
                        .map(|c| format!("{:?}", r.get(c)))
                        .collect::<Vec<_>>()
                        .join("|")
                })
                .collect();
            rows.sort();
            format!("{:?}", rows)
        }
        Err(e) => format!("ERR {}", e),
    }
}
fn w(e: &QueryEngine, s: &mut GraphStore, text: &str) {
    if let Err(x) = e.execute_mut(text, s, "default") {
        println!("  write `{}` -> ERR {}", text, x);
    }
}

fn build(setup: &[&str], index_at: Option<usize>) -> (QueryEngine, GraphStore) {
    let e = QueryEngine::new();
    let mut s = GraphStore::new();
    for (i, st) in setup.iter().enumerate() {
        if index_at == Some(i) {
            w(&e, &mut s, "CREATE INDEX ON :P(x)");
        }
        w(&e, &mut s, st);
    }
    if index_at == Some(setup.len()) {
        w(&e, &mut s, "CREATE INDEX ON :P(x)");
    }
    (e, s)
}

fn compare(name: &str, setup: &[&str], queries: &[&str]) {
    println!("== {}", name);
    let (e0, s0) = build(setup, None);
    let (e1, s1) = build(setup, Some(0));
    let (e2, s2) = build(setup, Some(setup.len()));
    for qq in queries {
        let a = q(&e0, &s0, qq);
        let b = q(&e1, &s1, qq);
        let c = q(&e2, &s2, qq);
        let flag = if a == b && b == c { "same" } else { "DIFF" };
        println!("  [{}] {}\n     noidx  {}\n     before {}\n     after  {}", flag, qq, a, b, c);
    }
    let ex = q(&e1, &s1, &format!("EXPLAIN {}", queries[0]));
    println!("  plan(before): {}", ex);
}

fn probe_expand() {
    println!("== expand-target pushdown");
    let setup = [
        "CREATE (:P {h:1, x:1})",
        "CREATE (:P {h:2, x:1.0})",
        "CREATE (:Q {h:4, x:1})",
        "CREATE (:T {h:3})",
        "MATCH (a:P {h:1}), (b:T) CREATE (b)-[:R]->(a)",
        "MATCH (a:P {h:2}), (b:T) CREATE (b)-[:R]->(a)",
        "MATCH (a:Q {h:4}), (b:T) CREATE (b)-[:R]->(a)",
    ];
    let qs = [
        "MATCH (m:T)-[:R]->(n:P) WHERE n.x = 1 RETURN n.h",
        "MATCH (m:T)-[:R]->(n) WHERE n.x = 1 RETURN n.h",
        "MATCH (m:T)-[:R]->(n:P {x: 1}) RETURN n.h",
    ];
    for idx in ["", "CREATE INDEX ON :Q(x)", "CREATE INDEX ON :P(x)"] {
        for native in ["false", "true"] {
            std::env::set_var("SAMYAMA_GRAPH_NATIVE", native);
            let e = QueryEngine::new();
            let mut s = GraphStore::new();
            for st in setup.iter() { w(&e, &mut s, st); }
            if !idx.is_empty() { w(&e, &mut s, idx); }
            for qq in qs.iter() {
                println!("  idx=[{}] native={} {} -> {}", idx, native, qq, q(&e, &s, qq));
            }
        }
    }
    println!("== native target label (no index)");
    for native in ["false", "true"] {
        std::env::set_var("SAMYAMA_GRAPH_NATIVE", native);
        let e = QueryEngine::new();
        let mut s = GraphStore::new();
        for st in setup.iter() { w(&e, &mut s, st); }
        for i in 10..20 { w(&e, &mut s, &format!("CREATE (:P {{h:{}, x:5}})", i)); }
        for qq in ["MATCH (m:T)-[:R]->(n:P) RETURN n.h", "MATCH (m:T)-[:R]->(n:P) WHERE n.x >= 1 RETURN n.h", "MATCH (n:P)<-[:R]-(m:T) RETURN n.h, m.h"] {
            println!("  native={} {} -> {}", native, qq, q(&e, &s, qq));
        }
    }
    std::env::remove_var("SAMYAMA_GRAPH_NATIVE");
}

fn main() {
    probe_expand();
    let base = [
        "CREATE (:P {h:1, x:1})",
        "CREATE (:P {h:2, x:1.0})",
        "CREATE (:P {h:3, x:'s'})",
        "CREATE (:P {h:4, x:true})",
        "CREATE (:P {h:5, x:7})",
        "CREATE (:P {h:6, x:'TRUE'})",
        "CREATE (:P {h:7, x:[1]})",
        "CREATE (:P {h:8})",
        "CREATE (:P {h:9, x:2.5})",
    ];
    compare(
        "values",
        &base,
        &[
            "MATCH (n:P) WHERE n.x = 1 RETURN n.h",
            "MATCH (n:P) WHERE n.x = 1.0 RETURN n.h",
            "MATCH (n:P) WHERE n.x > 1 RETURN n.h",
            "MATCH (n:P) WHERE n.x >= 1.0 RETURN n.h",
            "MATCH (n:P) WHERE n.x < 1.0 RETURN n.h",
            "MATCH (n:P) WHERE n.x <= 1 RETURN n.h",
            "MATCH (n:P) WHERE n.x < 3 RETURN n.h",
            "MATCH (n:P) WHERE n.x = true RETURN n.h",
            "MATCH (n:P) WHERE n.x = 'true' RETURN n.h",
            "MATCH (n:P) WHERE n.x > 'a' RETURN n.h",
            "MATCH (n:P) WHERE n.x > 0 AND n.x < 5 RETURN n.h",
            "MATCH (n:P) WHERE 1 < n.x RETURN n.h",
            "MATCH (n:P {x: 1}) RETURN n.h",
            "MATCH (n:P) WHERE n.x IN [1, 7] RETURN n.h",
            "MATCH (n:P) WHERE n.x > 1 RETURN count(n)",
            "MATCH (n:P) WHERE n.x = [1] RETURN n.h",
            "MATCH (n:P) WHERE n.x = null RETURN n.h",
        ],
    );
    compare(
        "with-path",
        &base,
        &[
            "MATCH (n:P) WHERE n.x > 1 WITH n RETURN n.h",
            "MATCH (n:P) WHERE n.x < 3 WITH n RETURN n.h",
            "MATCH (n:P) WHERE n.x > 1 WITH n.h AS h RETURN h",
            "MATCH (n:P) WHERE n.x >= 2 WITH n MATCH (m:P) WHERE m.h = n.h RETURN m.h",
            "MATCH (n:P) WHERE n.x > 1 RETURN n.h ORDER BY n.h LIMIT 10",
            "MATCH (n:P) WHERE n.x > 1 RETURN DISTINCT n.h",
            "MATCH (n:P {x: 7}) WITH n RETURN n.h",
            "MATCH (a:P), (n:P) WHERE n.x > 1 AND a.h = 1 RETURN n.h",
            "OPTIONAL MATCH (n:P) WHERE n.x > 1 RETURN n.h",
            "MATCH (a:P {h:1}) OPTIONAL MATCH (n:P) WHERE n.x > 1 RETURN n.h",
        ],
    );
    let mut v = base.to_vec();
    v.push("MATCH (n:P {h:5}) REMOVE n.x");
    compare(
        "remove-prop",
        &v,
        &["MATCH (n:P) WHERE n.x = 7 RETURN n.h", "MATCH (n:P) WHERE n.x > 1 RETURN n.h"],
    );
    let mut v2 = v.clone();
    v2.push("MATCH (n:P {h:5}) SET n.x = 9");
    compare(
        "remove-prop-then-set",
        &v2,
        &["MATCH (n:P) WHERE n.x > 1 RETURN n.h", "MATCH (n:P) WHERE n.x = 7 RETURN n.h"],
    );
    let mut v3 = base.to_vec();
    v3.push("MATCH (n:P {h:5}) REMOVE n:P");
    compare(
        "remove-label",
        &v3,
        &["MATCH (n:P) WHERE n.x = 7 RETURN n.h", "MATCH (n:P) WHERE n.x > 1 RETURN n.h"],
    );
    let mut v4 = base.to_vec();
    v4.push("MATCH (n:P {h:5}) SET n.x = null");
    compare(
        "set-null",
        &v4,
        &["MATCH (n:P) WHERE n.x = 7 RETURN n.h", "MATCH (n:P) WHERE n.x > 1 RETURN n.h", "MATCH (n:P) WHERE n.x < 'zz' RETURN n.h"],
    );
    let mut v5 = base.to_vec();
    v5.push("MATCH (n:P {h:5}) SET n.x = 'q'");
    v5.push("MATCH (n:P {h:1}) SET n.x = 1.0");
    v5.push("MATCH (n:P {h:2}) DELETE n");
    v5.push("CREATE (:P {h:10, x:1})");
    v5.push("CREATE (:Q {h:11, x:1})");
    v5.push("MATCH (n:Q) SET n:P");
    compare(
        "type-change+delete+reuse+addlabel",
        &v5,
        &["MATCH (n:P) WHERE n.x = 1 RETURN n.h", "MATCH (n:P) WHERE n.x >= 1 RETURN n.h", "MATCH (n:P) WHERE n.x = 'q' RETURN n.h"],
    );
    let mut v6 = base.to_vec();
    v6.push("MATCH (n:P {h:5}) SET n = {h:5}");
    v6.push("MATCH (n:P {h:1}) SET n += {x: 3}");
    compare(
        "set-map",
        &v6,
        &["MATCH (n:P) WHERE n.x = 7 RETURN n.h", "MATCH (n:P) WHERE n.x = 3 RETURN n.h", "MATCH (n:P) WHERE n.x = 1 RETURN n.h"],
    );
    // multi-label
    let v7 = ["CREATE (:P {h:1, x:1})", "CREATE (:P:Q {h:2, x:1})", "CREATE (:Q {h:3, x:1})"];
    compare("multilabel", &v7, &["MATCH (n:P:Q) WHERE n.x = 1 RETURN n.h", "MATCH (n:Q:P) WHERE n.x = 1 RETURN n.h"]);
    // relationship anchored
    let v8 = [
        "CREATE (:P {h:1, x:1})",
        "CREATE (:P {h:2, x:1.0})",
        "CREATE (:T {h:3})",
        "MATCH (a:P {h:1}), (b:T) CREATE (a)-[:R]->(b)",
        "MATCH (a:P {h:2}), (b:T) CREATE (a)-[:R]->(b)",
    ];
    compare(
        "expand",
        &v8,
        &[
            "MATCH (n:P)-[:R]->(m:T) WHERE n.x = 1 RETURN n.h, m.h",
            "MATCH (m:T)<-[:R]-(n:P) WHERE n.x = 1 RETURN n.h, m.h",
            "MATCH (m:T)<-[:R]-(n:P) WHERE n.x > 0 RETURN n.h, m.h",
            "MATCH (m:T), (n:P) WHERE n.x = 1 RETURN n.h, m.h",
        ],
    );
}
