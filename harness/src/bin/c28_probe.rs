//! scratch probe for C28 (not part of any check)
use samyama::graph::GraphStore;
use samyama::query::QueryEngine;

fn show(engine: &QueryEngine, store: &GraphStore, q: &str) -> String {
    match engine.execute(q, store) {
        Ok(b) => {
            let mut rows: Vec<String> = b
                .records
                .iter()
                .map(|r| {
                    b.columns
                        .iter()
                        .map(|c| format!("{:?}", r.get(c)))
                        .collect::<Vec<_>>()
                        .join(",")
                })
                .collect();
            rows.sort();
            format!("{} rows: {}", rows.len(), rows.join(" | "))
        }
        Err(e) => format!("ERR {}", e),
    }
}

fn plan(store: &GraphStore, q: &str) -> String {
    let parsed = samyama::query::parse_query(q).unwrap();
    let planner = samyama::query::executor::planner::QueryPlanner::new();
    match planner.plan(&parsed, store) {
        Ok(p) => p.root.describe().format(0).replace('\n', " / "),
        Err(e) => format!("PLANERR {}", e),
    }
}

fn run(title: &str, setup: &[&str], ddl: &str, after: &[&str], queries: &[&str]) {
    println!("== {}", title);
    let engine = QueryEngine::new();
    let mut with = GraphStore::new();
    let mut without = GraphStore::new();
    for s in setup {
        engine.execute_mut(s, &mut with, "default").unwrap();
        engine.execute_mut(s, &mut without, "default").unwrap();
    }
    match engine.execute_mut(ddl, &mut with, "default") {
        Ok(b) => println!("   ddl ok: {:?}", b.records.first().map(|r| format!("{:?} {:?}", r.get("encoding"), r.get("nodes")))),
        Err(e) => println!("   ddl ERR {}", e),
    }
    for s in after {
        let a = engine.execute_mut(s, &mut with, "default").map(|_| ()).map_err(|e| e.to_string());
        let b = engine.execute_mut(s, &mut without, "default").map(|_| ()).map_err(|e| e.to_string());
        println!("   after `{}`: {:?} {:?}", s, a, b);
    }
    for q in queries {
        println!("   q: {}", q);
        println!("      plan(with): {}", plan(&with, q));
        println!("      with   : {}", show(&engine, &with, q));
        println!("      without: {}", show(&engine, &without, q));
    }
}

fn main() {
    run(
        "P1 multi-type index, single-type query",
        &["CREATE (a:N {k:0}), (b:N {k:1}), (c:N {k:2}), (b)-[:IS_A]->(a), (c)-[:PART_OF]->(a)"],
        "CREATE HIERARCHY INDEX h ON ()-[:IS_A|PART_OF]->()",
        &[],
        &["MATCH (d)-[:IS_A*0..]->(r:N {k:0}) RETURN count(d) AS n", "MATCH (d)-[:IS_A*0..]->(r:N {k:0}) RETURN d"],
    );
    run(
        "P2 reversed index",
        &["CREATE (a:N {k:0}), (b:N {k:1}), (c:N {k:2}), (a)-[:HAS_CHILD]->(b), (b)-[:HAS_CHILD]->(c)"],
        "CREATE HIERARCHY INDEX h ON ()<-[:HAS_CHILD]-()",
        &[],
        &[
            "MATCH (d)-[:HAS_CHILD*0..]->(r:N {k:2}) RETURN count(d) AS n",
            "MATCH (r:N {k:0})-[:HAS_CHILD*0..]->(d) RETURN count(d) AS n",
            "MATCH (d)<-[:HAS_CHILD*0..]-(r:N {k:0}) RETURN count(d) AS n",
            "MATCH (r:N {k:2})<-[:HAS_CHILD*0..]-(d) RETURN count(d) AS n",
        ],
    );
    run(
        "P3 label-restricted measure",
        &["CREATE (a:Class {k:0, units:1}), (b:Drug {k:1, units:2}), (b)-[:IS_A]->(a)"],
        "CREATE HIERARCHY INDEX h ON ()-[:IS_A]->() MEASURE Class.units AGGREGATE sum",
        &[],
        &["MATCH (d)-[:IS_A*0..]->(r:Class {k:0}) RETURN sum(d.units) AS s"],
    );
    run(
        "P4 REMOVE measure property after build",
        &["CREATE (a:N {k:0, units:1}), (b:N {k:1, units:2}), (b)-[:IS_A]->(a)"],
        "CREATE HIERARCHY INDEX h ON ()-[:IS_A]->() MEASURE units AGGREGATE sum, min, max",
        &["MATCH (b:N {k:1}) REMOVE b.units"],
        &["MATCH (d)-[:IS_A*0..]->(r:N {k:0}) RETURN sum(d.units) AS s", "MATCH (d)-[:IS_A*0..]->(r:N {k:0}) RETURN max(d.units) AS s"],
    );
    run(
        "P6 SET int->float on int fenwick",
        &["CREATE (a:N {k:0, units:1}), (b:N {k:1, units:2}), (b)-[:IS_A]->(a)"],
        "CREATE HIERARCHY INDEX h ON ()-[:IS_A]->() MEASURE units AGGREGATE sum",
        &["MATCH (b:N {k:1}) SET b.units = 2.5"],
        &["MATCH (d)-[:IS_A*0..]->(r:N {k:0}) RETURN sum(d.units) AS s"],
    );
    run(
        "P7 SET += map",
        &["CREATE (a:N {k:0, units:1}), (b:N {k:1, units:2}), (b)-[:IS_A]->(a)"],
        "CREATE HIERARCHY INDEX h ON ()-[:IS_A]->() MEASURE units AGGREGATE sum",
        &["MATCH (b:N {k:1}) SET b += {units: 7}"],
        &["MATCH (d)-[:IS_A*0..]->(r:N {k:0}) RETURN sum(d.units) AS s"],
    );
    run(
        "P7b SET = map",
        &["CREATE (a:N {k:0, units:1}), (b:N {k:1, units:2}), (b)-[:IS_A]->(a)"],
        "CREATE HIERARCHY INDEX h ON ()-[:IS_A]->() MEASURE units AGGREGATE sum",
        &["MATCH (b:N {k:1}) SET b = {k: 1, units: 7}"],
        &["MATCH (d)-[:IS_A*0..]->(r:N {k:0}) RETURN sum(d.units) AS s"],
    );
    run(
        "P7c SET null",
        &["CREATE (a:N {k:0, units:1}), (b:N {k:1, units:2}), (b)-[:IS_A]->(a)"],
        "CREATE HIERARCHY INDEX h ON ()-[:IS_A]->() MEASURE units AGGREGATE sum",
        &["MATCH (b:N {k:1}) SET b.units = null"],
        &["MATCH (d)-[:IS_A*0..]->(r:N {k:0}) RETURN sum(d.units) AS s"],
    );
    run(
        "P8 empty measure",
        &["CREATE (a:N {k:0}), (b:N {k:1}), (b)-[:IS_A]->(a)"],
        "CREATE HIERARCHY INDEX h ON ()-[:IS_A]->() MEASURE units AGGREGATE sum, min",
        &[],
        &["MATCH (d)-[:IS_A*0..]->(r:N {k:0}) RETURN sum(d.units) AS s", "MATCH (d)-[:IS_A*0..]->(r:N {k:0}) RETURN min(d.units) AS s"],
    );
    run(
        "P13 boolean / string measure",
        &["CREATE (a:N {k:0, units:true}), (b:N {k:1, units:'x'}), (c:N {k:2, units:3}), (b)-[:IS_A]->(a), (c)-[:IS_A]->(a)"],
        "CREATE HIERARCHY INDEX h ON ()-[:IS_A]->() MEASURE units AGGREGATE sum, max",
        &[],
        &["MATCH (d)-[:IS_A*0..]->(r:N {k:0}) RETURN sum(d.units) AS s", "MATCH (d)-[:IS_A*0..]->(r:N {k:0}) RETURN max(d.units) AS s"],
    );
    run(
        "P24 two-label pin",
        &["CREATE (a:A {k:0}), (b:A {k:1}), (b)-[:IS_A]->(a)"],
        "CREATE HIERARCHY INDEX h ON ()-[:IS_A]->()",
        &[],
        &["MATCH (d)-[:IS_A*0..]->(r:A:B {k:0}) RETURN count(d) AS n"],
    );
    run(
        "P26 diamond + delete edge + rebuild",
        &["CREATE (r:N {k:0, units:1}), (a:N {k:1, units:2}), (b:N {k:2, units:4}), (d:N {k:3, units:8}), (a)-[:IS_A]->(r), (b)-[:IS_A]->(r), (d)-[:IS_A]->(a), (d)-[:IS_A]->(b)"],
        "CREATE HIERARCHY INDEX h ON ()-[:IS_A]->() MEASURE units AGGREGATE sum, min, max",
        &["MATCH (d:N {k:3}) SET d.units = 16"],
        &["MATCH (d)-[:IS_A*0..]->(r:N {k:0}) RETURN sum(d.units) AS s", "MATCH (d)-[:IS_A*0..]->(r:N {k:0}) RETURN d", "MATCH (d)-[:IS_A*0..]->(r:N {k:1}) RETURN max(d.units) AS s"],
    );
    run(
        "P27 node outside hierarchy gets measure",
        &["CREATE (a:N {k:0, units:1}), (b:N {k:1, units:2}), (z:N {k:9}), (b)-[:IS_A]->(a)"],
        "CREATE HIERARCHY INDEX h ON ()-[:IS_A]->() MEASURE units AGGREGATE sum",
        &["MATCH (z:N {k:9}) SET z.units = 5"],
        &["MATCH (d)-[:IS_A*0..]->(r:N {k:0}) RETURN sum(d.units) AS s", "SHOW HIERARCHY INDEXES"],
    );
}
