//! C35 — parameterised queries never answer differently from inlined literals.
//!
//! Generated statements with `$p` in every grammar position the model has (RETURN, WHERE, WITH,
//! SET values, list / map literals, CASE, index, comprehension binder, UNWIND, CREATE / MERGE
//! pattern properties, ON CREATE / ON MATCH, SET += / =) x boundary values (i64 extremes, exactly
//! printed floats, strings with quotes / backslashes / non-ASCII, bools, null, lists, maps).
//! Each case runs twice on identically built stores:
//!   R_p = `MutQueryExecutor::with_params(..)` on the text with `$p`,
//!   R_i = the text with every parameter written as a literal;
//!   S   = `specp R_p R_i` (`specParam`: an error on the parameter side is admissible, a different
//!         answer or effect is not);
//!   M   = `param` / `inline` (the model of `substitute_params` + `exec`) against R_p / R_i.
//! Raw-text templates (ORDER BY, SKIP, LIMIT, UNION) have no model term and are compared R_p vs R_i only.
#[path = "cyw/mod.rs"]
mod cyw;
use cyw::*;
use samyama::graph::{GraphStore, PropertyValue};
use serde_json::json;
use std::collections::HashMap;
use vharness::{driver, Args, Known, Report, Rng};

fn boundary_values() -> Vec<(&'static str, PropertyValue)> {
    let m = |kv: Vec<(&str, PropertyValue)>| PropertyValue::Map(kv.into_iter().map(|(k, v)| (k.to_string(), v)).collect());
    vec![
        ("int0", PropertyValue::Integer(0)),
        ("int1", PropertyValue::Integer(1)),
        ("int-1", PropertyValue::Integer(-1)),
        ("int5", PropertyValue::Integer(5)),
        ("i64max", PropertyValue::Integer(i64::MAX)),
        ("i64min", PropertyValue::Integer(i64::MIN)),
        ("f1.5", PropertyValue::Float(1.5)),
        ("f-0.25", PropertyValue::Float(-0.25)),
        ("f1.0", PropertyValue::Float(1.0)),
        ("f2^53", PropertyValue::Float(9007199254740992.0)),
        ("f0.1", PropertyValue::Float(0.1)),
        ("str-empty", PropertyValue::String(String::new())),
        ("str-a", PropertyValue::String("a".into())),
        ("str-quote", PropertyValue::String("it's".into())),
        ("str-dquote", PropertyValue::String("say \"hi\"".into())),
        ("str-backslash", PropertyValue::String("back\\slash\\n".into())),
        ("str-unicode", PropertyValue::String("é漢 🙂".into())),
        ("true", PropertyValue::Boolean(true)),
        ("false", PropertyValue::Boolean(false)),
        ("null", PropertyValue::Null),
        ("list-int", PropertyValue::Array(vec![PropertyValue::Integer(1), PropertyValue::Integer(2), PropertyValue::Integer(3)])),
        ("list-empty", PropertyValue::Array(vec![])),
        ("list-mixed", PropertyValue::Array(vec![PropertyValue::String("x'y".into()), PropertyValue::Integer(2)])),
        ("map", m(vec![("k1", PropertyValue::Integer(1)), ("k2", PropertyValue::String("m".into()))])),
        ("map-empty", m(vec![])),
        // wide enough that two separately built hash maps with these entries practically never iterate in the same order
        ("map-wide", m((1..=8).map(|i| (["k1", "k2", "k3", "k4", "k5", "k6", "k7", "k8"][i - 1], PropertyValue::Integer(i as i64))).collect())),
        ("list-of-map", PropertyValue::Array(vec![m((1..=6).map(|i| (["k1", "k2", "k3", "k4", "k5", "k6"][i - 1], PropertyValue::String(format!("s{}", i)))).collect()), PropertyValue::Integer(2)])),
    ]
}

const SETUP: &[&str] = &[
    "CREATE (:L0 {k0: 1, k1: 'a'}), (:L0 {k0: 5, k1: 'it\\'s'}), (:L0 {k0: 0}), (:L0 {k0: 9223372036854775807, k1: 'é漢 🙂'})",
    "CREATE (:L0 {k0: 1.5, k1: true})-[:T0 {k0: 1}]->(:L2 {k0: 2})",
    // :L3 carries a boolean that is true, false and absent (= null): the three truth values
    "CREATE (:L3 {k0: 1, k2: true}), (:L3 {k0: 2, k2: false}), (:L3 {k0: 3})",
];

enum Tpl {
    Model(St),
    Raw(String),
}

fn p(i: u32) -> Ex {
    Ex::Param(i)
}
fn bx(e: Ex) -> Box<Ex> {
    Box::new(e)
}
fn lb(b: bool) -> Ex {
    Ex::Lit(PropertyValue::Boolean(b))
}
fn not(e: Ex) -> Ex {
    Ex::Un("not", bx(e))
}
fn isnull(e: Ex) -> Ex {
    Ex::Un("isnull", bx(e))
}

/// every template, with `$p0` (and `$p1` where two are used)
fn templates() -> Vec<(&'static str, Tpl)> {
    let m0 = |more: Vec<Cl>| {
        let mut v = vec![Cl::MatchN(1, vec![0], vec![])];
        v.extend(more);
        v
    };
    let l1 = |props: Vec<(u32, Ex)>| NPat { var: Some(2), labels: vec![1], props };
    let m3 = |more: Vec<Cl>| {
        let mut v = vec![Cl::MatchN(1, vec![3], vec![])];
        v.extend(more);
        v
    };
    vec![
        ("return", Tpl::Model(St { cls: vec![], ret: Some(vec![p(0)]) })),
        ("return-list-map", Tpl::Model(St { cls: vec![], ret: Some(vec![Ex::List(vec![p(0), int(1), Ex::List(vec![p(1)])]), Ex::Map(vec![(0, p(0)), (1, p(1))])]) })),
        ("return-case-isnull", Tpl::Model(St { cls: vec![], ret: Some(vec![Ex::Ite(bx(bin("eq", p(0), p(1))), bx(p(0)), bx(int(0))), Ex::Un("isnull", bx(p(0))), Ex::Un("notnull", bx(p(1)))]) })),
        ("return-index", Tpl::Model(St { cls: vec![], ret: Some(vec![Ex::Idx(bx(Ex::List(vec![int(7), p(0), int(9)])), bx(int(1))), Ex::Idx(bx(p(0)), bx(int(0)))]) })),
        ("return-comprehension", Tpl::Model(St { cls: vec![], ret: Some(vec![Ex::Comp(3, bx(p(0)), bx(bin("gt", Ex::Var(3), int(1))), bx(bin("add", Ex::Var(3), p(1))))]) })),
        ("return-arith", Tpl::Model(St { cls: vec![], ret: Some(vec![bin("add", p(0), int(1)), bin("sub", int(0), p(0))]) })),
        ("where-eq", Tpl::Model(St { cls: m0(vec![Cl::Filter(bin("eq", Ex::Prop(1, 0), p(0)))]), ret: Some(vec![Ex::Prop(1, 0), Ex::Prop(1, 1)]) })),
        ("where-eq-str", Tpl::Model(St { cls: m0(vec![Cl::Filter(bin("eq", Ex::Prop(1, 1), p(0)))]), ret: Some(vec![Ex::Prop(1, 0)]) })),
        ("where-lt", Tpl::Model(St { cls: m0(vec![Cl::Filter(bin("lt", Ex::Prop(1, 0), p(0)))]), ret: Some(vec![Ex::Prop(1, 0)]) })),
        ("with-item", Tpl::Model(St { cls: m0(vec![Cl::With(vec![1], vec![(4, p(0))])]), ret: Some(vec![Ex::Var(4), Ex::Prop(1, 0)]) })),
        ("with-where", Tpl::Model(St { cls: m0(vec![Cl::With(vec![1], vec![(4, Ex::Prop(1, 0))]), Cl::Filter(bin("eq", Ex::Var(4), p(0)))]), ret: Some(vec![Ex::Var(4)]) })),
        ("set-value", Tpl::Model(St { cls: m0(vec![Cl::Set(vec![SetItem::Prop(1, 2, p(0))])]), ret: Some(vec![Ex::Prop(1, 2)]) })),
        ("set-value-expr", Tpl::Model(St { cls: m0(vec![Cl::Set(vec![SetItem::Prop(1, 2, Ex::List(vec![p(0), p(1)]))])]), ret: None })),
        ("set-map-add", Tpl::Model(St { cls: m0(vec![Cl::Set(vec![SetItem::MAdd(1, p(0))])]), ret: None })),
        ("set-map-all", Tpl::Model(St { cls: m0(vec![Cl::Set(vec![SetItem::All(1, p(0))])]), ret: None })),
        ("unwind-param", Tpl::Model(St { cls: vec![Cl::Unwind(p(0), 0)], ret: Some(vec![Ex::Var(0)]) })),
        ("unwind-list-of-param", Tpl::Model(St { cls: vec![Cl::Unwind(Ex::List(vec![p(0), int(1)]), 0)], ret: Some(vec![Ex::Var(0)]) })),
        ("create-prop-rowless", Tpl::Model(St { cls: vec![Cl::Create(vec![CPath { a: l1(vec![(0, p(0))]), seg: None }])], ret: None })),
        ("create-prop-rows", Tpl::Model(St { cls: vec![Cl::Unwind(Ex::List(vec![int(1), int(2)]), 0), Cl::Create(vec![CPath { a: l1(vec![(0, p(0)), (1, Ex::Var(0))]), seg: None }])], ret: None })),
        ("create-prop-zero-rows", Tpl::Model(St { cls: vec![Cl::Unwind(Ex::List(vec![]), 0), Cl::Create(vec![CPath { a: l1(vec![(0, p(0))]), seg: None }])], ret: None })),
        ("create-rel-prop", Tpl::Model(St { cls: vec![Cl::Unwind(Ex::List(vec![int(1)]), 0), Cl::Create(vec![CPath { a: l1(vec![]), seg: Some((1, vec![(0, p(0))], true, NPat { var: Some(3), labels: vec![1], props: vec![] })) }])], ret: None })),
        ("merge-prop", Tpl::Model(St { cls: vec![Cl::Merge(l1(vec![(0, p(0))]), vec![], vec![])], ret: None })),
        ("merge-on-create", Tpl::Model(St { cls: vec![Cl::Merge(l1(vec![(0, int(77))]), vec![SetItem::Prop(2, 1, p(0))], vec![])], ret: None })),
        ("merge-on-match", Tpl::Model(St { cls: vec![Cl::Merge(NPat { var: Some(2), labels: vec![2], props: vec![(0, int(2))] }, vec![], vec![SetItem::Prop(2, 1, p(0))])], ret: None })),
        ("remove-then-return", Tpl::Model(St { cls: m0(vec![Cl::Remove(vec![RemItem::Prop(1, 1)])]), ret: Some(vec![p(0)]) })),
        ("delete-then-return", Tpl::Model(St { cls: vec![Cl::MatchN(1, vec![2], vec![]), Cl::Delete(true, vec![1])], ret: Some(vec![p(0)]) })),
        ("orderby", Tpl::Raw("MATCH (v1:L0) RETURN v1.k1 AS c0 ORDER BY v1.k1 + $p0".into())),
        ("skip", Tpl::Raw("MATCH (v1:L0) RETURN v1.k0 AS c0 SKIP $p0".into())),
        ("limit", Tpl::Raw("MATCH (v1:L0) RETURN v1.k0 AS c0 LIMIT $p0".into())),
        ("union", Tpl::Raw("RETURN $p0 AS c0 UNION RETURN $p1 AS c0".into())),
        ("match-inline-prop", Tpl::Raw("MATCH (v1:L0 {k0: $p0}) RETURN v1.k1 AS c0".into())),
        ("optional-match-where", Tpl::Raw("OPTIONAL MATCH (v1:L0) WHERE v1.k0 = $p0 RETURN v1.k1 AS c0".into())),
        ("rel-where", Tpl::Raw("MATCH (v1:L0)-[v2:T0]->(v3:L2) WHERE v2.k0 = $p0 RETURN v3.k0 AS c0".into())),
        ("count-where", Tpl::Raw("MATCH (v1:L0) WHERE v1.k0 = $p0 RETURN count(v1) AS c0".into())),
        ("in-list", Tpl::Raw("MATCH (v1:L0) WHERE v1.k0 IN $p0 RETURN v1.k0 AS c0".into())),
        ("string-fn", Tpl::Raw("RETURN toString($p0) AS c0, size([$p0, $p1]) AS c1".into())),
        // --- round 2: positions a small edit of substitute_expr / substitute_params could drop
        ("fn-args", Tpl::Raw("RETURN coalesce($p0, $p1) AS c0, coalesce(null, $p0) AS c1, head([$p0]) AS c2".into())),
        ("fn-string", Tpl::Raw("MATCH (v1:L0) WHERE v1.k1 STARTS WITH $p0 OR v1.k1 CONTAINS $p0 RETURN v1.k1 AS c0".into())),
        ("list-slice", Tpl::Raw("RETURN [$p0, 2, $p1, 4][1..3] AS c0, $p0 AS c1".into())),
        ("nested-3", Tpl::Raw("RETURN [{k0: [$p0, {k1: $p1}]}] AS c0".into())),
        ("param-map-access", Tpl::Raw("RETURN ($p0).k1 AS c0, ($p0).k2 AS c1".into())),
        ("not-neg", Tpl::Model(St { cls: vec![], ret: Some(vec![Ex::Un("not", bx(bin("eq", p(0), p(1)))), Ex::Un("neg", bx(p(1)))]) })),
        ("where-and-return", Tpl::Model(St { cls: m0(vec![Cl::Filter(bin("or", bin("eq", Ex::Prop(1, 0), p(0)), bin("eq", Ex::Prop(1, 0), p(1))))]), ret: Some(vec![Ex::Prop(1, 0), p(0), Ex::List(vec![p(1)])]) })),
        ("second-return-item", Tpl::Model(St { cls: m0(vec![]), ret: Some(vec![Ex::Prop(1, 0), int(1), p(0)]) })),
        ("two-with-stages", Tpl::Raw("MATCH (v1:L0) WITH v1, $p0 AS v4 WITH v1, v4, $p1 AS v5 WHERE v1.k0 = v5 RETURN v4 AS c0, v5 AS c1".into())),
        ("second-set-item", Tpl::Model(St { cls: m0(vec![Cl::Set(vec![SetItem::Prop(1, 1, int(3)), SetItem::Prop(1, 2, p(0))])]), ret: Some(vec![Ex::Prop(1, 2)]) })),
        ("set-then-where-earlier", Tpl::Model(St { cls: m0(vec![Cl::Filter(bin("eq", Ex::Prop(1, 0), p(1))), Cl::Set(vec![SetItem::Prop(1, 2, p(0))])]), ret: None })),
        ("distinct", Tpl::Raw("MATCH (v1:L0) RETURN DISTINCT $p0 AS c0".into())),
        ("aggregate-arg", Tpl::Raw("MATCH (v1:L0) RETURN count($p0) AS c0, collect($p0) AS c1".into())),
        ("exists-sub", Tpl::Raw("MATCH (v1:L0) WHERE EXISTS { MATCH (v1)-[:T0]->(v3) WHERE v3.k0 = $p0 } RETURN v1.k0 AS c0".into())),
        ("union-second-branch", Tpl::Raw("RETURN 1 AS c0 UNION ALL RETURN $p0 AS c0".into())),
        // UNION de-duplicates: equal composite values on both branches (run with $p1 = $p0) must collapse to one row on both
        // sides (the read executor keyed rows by the Debug text of a hash map: equal map literals did not always collapse)
        ("union-nested", Tpl::Raw("RETURN [$p0] AS c0, {k0: $p1} AS c1 UNION RETURN [$p1] AS c0, {k0: $p0} AS c1".into())),
        ("union-literal-vs-param", Tpl::Raw("RETURN [1, 2, 3] AS c0 UNION RETURN $p0 AS c0 UNION RETURN {k1: 1, k2: 'm'} AS c0 UNION RETURN $p1 AS c0".into())),
        ("union-match", Tpl::Raw("MATCH (v1:L3) RETURN $p0 AS c0 UNION MATCH (v1:L3) RETURN $p1 AS c0".into())),
        ("unwind-then-where", Tpl::Raw("UNWIND [1, 2, 5] AS v0 WITH v0 WHERE v0 = $p0 RETURN v0 AS c0".into())),
        ("remove-label-return", Tpl::Raw("MATCH (v1:L2) SET v1.k1 = $p0 REMOVE v1.k0 RETURN v1.k1 AS c0".into())),
        // --- round 3: three-valued logic.  A parameter (null / true / false / anything) as a DIRECT operand of
        // AND / OR / XOR / NOT / IN / comparison / CASE condition / coalesce / arithmetic, observed so that
        // null <> false matters: projected, under NOT, under IS NULL, written by SET, counted, ordered by.
        ("3vl-return-and-or", Tpl::Model(St { cls: vec![], ret: Some(vec![bin("or", p(0), lb(false)), bin("or", p(0), lb(true)), bin("or", lb(false), p(0)), bin("and", p(0), lb(true)), bin("and", p(0), lb(false)), bin("and", lb(true), p(0))]) })),
        ("3vl-return-xor-not", Tpl::Model(St { cls: vec![], ret: Some(vec![bin("xor", p(0), lb(true)), not(p(0)), not(bin("and", p(0), lb(true))), not(bin("or", p(0), lb(false))), not(not(p(0)))]) })),
        ("3vl-return-isnull-of", Tpl::Model(St { cls: vec![], ret: Some(vec![isnull(bin("and", p(0), lb(true))), Ex::Un("notnull", bx(bin("or", p(0), lb(false)))), isnull(bin("or", p(0), p(1))), isnull(bin("xor", p(0), p(1)))]) })),
        ("3vl-return-two-params", Tpl::Model(St { cls: vec![], ret: Some(vec![bin("and", p(0), p(1)), bin("or", p(0), p(1)), not(bin("and", p(0), p(1))), not(bin("or", p(1), p(0)))]) })),
        ("3vl-project-with-prop", Tpl::Model(St { cls: m3(vec![]), ret: Some(vec![Ex::Prop(1, 0), bin("and", p(0), Ex::Prop(1, 2)), bin("or", p(0), Ex::Prop(1, 2)), isnull(bin("and", p(0), Ex::Prop(1, 2))), bin("or", Ex::Prop(1, 2), p(0))]) })),
        ("3vl-where-not-and", Tpl::Model(St { cls: m3(vec![Cl::Filter(not(bin("and", p(0), Ex::Prop(1, 2))))]), ret: Some(vec![Ex::Prop(1, 0)]) })),
        ("3vl-where-not-or", Tpl::Model(St { cls: m3(vec![Cl::Filter(not(bin("or", p(0), Ex::Prop(1, 2))))]), ret: Some(vec![Ex::Prop(1, 0)]) })),
        ("3vl-where-top-level", Tpl::Model(St { cls: m3(vec![Cl::Filter(bin("or", p(0), Ex::Prop(1, 2)))]), ret: Some(vec![Ex::Prop(1, 0)]) })),
        ("3vl-where-top-level-and", Tpl::Model(St { cls: m3(vec![Cl::Filter(bin("and", Ex::Prop(1, 2), p(0)))]), ret: Some(vec![Ex::Prop(1, 0)]) })),
        ("3vl-where-isnull-of", Tpl::Model(St { cls: m3(vec![Cl::Filter(isnull(bin("and", p(0), Ex::Prop(1, 2))))]), ret: Some(vec![Ex::Prop(1, 0)]) })),
        ("3vl-where-xor", Tpl::Model(St { cls: m3(vec![Cl::Filter(not(bin("xor", p(0), Ex::Prop(1, 2))))]), ret: Some(vec![Ex::Prop(1, 0)]) })),
        ("3vl-optional-filter", Tpl::Model(St { cls: m3(vec![Cl::Filter(bin("or", isnull(p(0)), bin("eq", Ex::Prop(1, 0), p(0))))]), ret: Some(vec![Ex::Prop(1, 0)]) })),
        ("3vl-optional-filter-negated", Tpl::Model(St { cls: m3(vec![Cl::Filter(not(bin("or", isnull(p(0)), bin("eq", Ex::Prop(1, 0), p(0)))))]), ret: Some(vec![Ex::Prop(1, 0)]) })),
        ("3vl-optional-filter-projected", Tpl::Model(St { cls: m3(vec![]), ret: Some(vec![Ex::Prop(1, 0), bin("or", isnull(p(0)), bin("eq", Ex::Prop(1, 2), p(0))), bin("and", Ex::Un("notnull", bx(p(0))), bin("eq", Ex::Prop(1, 2), p(0)))]) })),
        ("3vl-with-where", Tpl::Model(St { cls: m3(vec![Cl::With(vec![1], vec![(4, bin("or", p(0), Ex::Prop(1, 2)))]), Cl::Filter(isnull(Ex::Var(4)))]), ret: Some(vec![Ex::Prop(1, 0), Ex::Var(4)]) })),
        ("3vl-with-where-not", Tpl::Model(St { cls: m3(vec![Cl::With(vec![1], vec![(4, Ex::Prop(1, 2))]), Cl::Filter(not(bin("and", p(0), Ex::Var(4))))]), ret: Some(vec![Ex::Prop(1, 0)]) })),
        ("3vl-set-rhs-or", Tpl::Model(St { cls: m3(vec![Cl::Set(vec![SetItem::Prop(1, 1, bin("or", p(0), Ex::Prop(1, 2)))])]), ret: None })),
        ("3vl-set-rhs-and-isnull", Tpl::Model(St { cls: m3(vec![Cl::Set(vec![SetItem::Prop(1, 1, bin("and", p(0), Ex::Prop(1, 2))), SetItem::Prop(1, 0, isnull(bin("or", p(0), Ex::Prop(1, 2))))])]), ret: None })),
        ("3vl-case-condition", Tpl::Model(St { cls: vec![], ret: Some(vec![Ex::Ite(bx(p(0)), bx(int(1)), bx(int(2))), Ex::Ite(bx(bin("and", p(0), lb(true))), bx(int(1)), bx(int(2))), Ex::Ite(bx(not(bin("or", p(0), lb(false)))), bx(int(1)), bx(int(2))), Ex::Ite(bx(isnull(bin("or", p(0), lb(false)))), bx(int(1)), bx(int(2)))]) })),
        ("3vl-coalesce", Tpl::Model(St { cls: vec![], ret: Some(vec![bin("coalesce", p(0), int(7)), bin("coalesce", bin("and", p(0), lb(true)), int(7)), bin("coalesce", bin("or", p(0), lb(false)), p(1)), bin("coalesce", not(p(0)), int(7))]) })),
        ("3vl-arith-null", Tpl::Model(St { cls: vec![], ret: Some(vec![bin("add", p(0), int(1)), bin("sub", int(1), p(0)), bin("mul", p(0), p(1)), Ex::Un("neg", bx(p(0))), isnull(bin("add", p(0), int(1)))]) })),
        ("3vl-in", Tpl::Model(St { cls: vec![], ret: Some(vec![bin("in", p(0), Ex::List(vec![int(1), int(2)])), bin("in", int(1), Ex::List(vec![p(0), int(2)])), bin("in", int(1), Ex::List(vec![p(0), int(1)])), bin("in", p(0), Ex::List(vec![])), not(bin("in", p(0), Ex::List(vec![int(1), int(2)]))), isnull(bin("in", int(1), Ex::List(vec![p(0), int(2)])))]) })),
        ("3vl-comparison", Tpl::Model(St { cls: vec![], ret: Some(vec![bin("eq", p(0), p(1)), bin("ne", p(0), int(1)), bin("lt", p(0), int(2)), not(bin("eq", p(0), int(1))), isnull(bin("eq", p(0), int(1))), bin("eq", p(0), p(0)), bin("and", bin("lt", int(0), p(0)), bin("lt", p(0), int(10)))]) })),
        ("3vl-comparison-chain", Tpl::Raw("RETURN 0 < $p0 < 10 AS c0, NOT (0 < $p0 < 10) AS c1, (0 < $p0 < 10) IS NULL AS c2".into())),
        ("3vl-orderby-key", Tpl::Raw("MATCH (v1:L3) WITH v1 ORDER BY ($p0 OR v1.k2), v1.k0 RETURN collect(v1.k0) AS c0".into())),
        ("3vl-orderby-limit", Tpl::Raw("MATCH (v1:L3) RETURN v1.k0 AS c0 ORDER BY ($p0 AND v1.k2) DESC, v1.k0 DESC LIMIT 1".into())),
        ("3vl-aggregate-arg", Tpl::Raw("MATCH (v1:L3) RETURN count($p0 OR v1.k2) AS c0, count($p0 AND v1.k2) AS c1, count(NOT ($p0 AND v1.k2)) AS c2".into())),
        ("3vl-where-not-xor-raw", Tpl::Raw("MATCH (v1:L3) WHERE NOT ($p0 XOR v1.k2) RETURN v1.k0 AS c0".into())),
        ("3vl-rel-where-not", Tpl::Raw("MATCH (v1:L0)-[v2:T0]->(v3:L2) WHERE NOT ($p0 AND v2.k0 = 1) RETURN v3.k0 AS c0".into())),
        ("3vl-optional-match-where", Tpl::Raw("OPTIONAL MATCH (v1:L3) WHERE NOT ($p0 OR v1.k2) RETURN v1.k0 AS c0".into())),
        ("3vl-set-then-return", Tpl::Raw("MATCH (v1:L3) SET v1.k1 = NOT ($p0 AND v1.k2) RETURN v1.k0 AS c0, v1.k1 AS c1".into())),
        ("3vl-distinct-bool", Tpl::Raw("MATCH (v1:L3) RETURN DISTINCT ($p0 AND v1.k2) AS c0".into())),
        ("3vl-list-of-conn", Tpl::Raw("RETURN [$p0 AND true, $p0 OR false, NOT $p0] AS c0, {k0: ($p0 OR false)} AS c1".into())),
        // --- nested collection literals holding a parameter as an OPERAND of IN / + / = / <> / comparison (class of the
        // seeded change C35-c: a Value::List operand lowered element-wise, nested lists / maps becoming null)
        ("nest-in-list", Tpl::Raw("RETURN [1] IN [[$p0], [2]] AS c0, [$p0] IN [[$p0], [2]] AS c1, NOT ([1] IN [[$p0]]) AS c2, ([1] IN [[$p0], [2]]) IS NULL AS c3".into())),
        ("nest-in-where", Tpl::Raw("MATCH (v1:L3) WHERE [v1.k0, v1.k2] IN [[$p0, true], [2, false]] RETURN v1.k0 AS c0".into())),
        ("nest-in-where-not", Tpl::Raw("MATCH (v1:L3) WHERE NOT ([v1.k0] IN [[$p0], [$p1]]) RETURN v1.k0 AS c0".into())),
        ("nest-with-where", Tpl::Raw("MATCH (v1:L3) WITH v1 WHERE [v1.k0] IN [[$p0], [2]] RETURN v1.k0 AS c0".into())),
        ("nest-concat", Tpl::Raw("RETURN [[$p0], 2] + [3] AS c0, [3] + [[$p0, $p1]] AS c1, [{k0: $p0}] + [4] AS c2".into())),
        ("nest-eq", Tpl::Raw("RETURN [[$p0], 2] = [[1], 2] AS c0, [[$p0]] <> [[1]] AS c1, [{k0: $p0}] = [{k0: 1}] AS c2, [[$p0]] = [[$p0]] AS c3".into())),
        ("nest-map-in", Tpl::Raw("RETURN {k0: 1} IN [{k0: $p0}] AS c0, {k0: [$p0]} IN [{k0: [1]}, {k0: [$p1]}] AS c1".into())),
        ("nest-compare", Tpl::Raw("RETURN [[$p0], 1] < [[2], 1] AS c0, [[$p0]] >= [[1]] AS c1".into())),
        ("nest-size-head", Tpl::Raw("RETURN size([[$p0], [2]] + [[3]]) AS c0, head([[$p0], 2] + [3]) AS c1".into())),
        ("nest-set-concat", Tpl::Raw("MATCH (v1:L3) SET v1.k1 = ([[$p0], 2] + [3]) RETURN v1.k0 AS c0".into())),
        ("nest-set-in", Tpl::Raw("MATCH (v1:L3) SET v1.k1 = ([v1.k0] IN [[$p0], [2]])".into())),
        ("nest-create-from-in", Tpl::Raw("MATCH (v1:L3) WHERE [v1.k0, 1] IN [[$p0, $p1]] CREATE (v1)-[:T1]->(:L1 {k0: 9})".into())),
        ("flat-in-control", Tpl::Raw("RETURN 1 IN [$p0, 2] AS c0, [1, $p0] + [3] AS c1, [$p0, 2] = [1, 2] AS c2".into())),
        ("3vl-comprehension-filter", Tpl::Raw("RETURN [x IN [true, false, null] WHERE NOT ($p0 AND x) | x] AS c0, [x IN [true, false, null] | ($p0 OR x)] AS c1".into())),
    ]
    .into_iter()
    .chain(case_templates())
    .collect()
}

/// Class of the seeded change C35-d (one child of CASE skipped by `substitute_expr`): a parameter in every
/// sub-position of CASE — operand / WHEN / THEN / ELSE, searched and simple form, a second WHEN clause, a CASE
/// nested in ELSE — with the CASE placed where the engine does NOT propagate an evaluation error but reads it as
/// NULL (sort keys of RETURN ... ORDER BY and of WITH ... ORDER BY) or as false (WITH ... WHERE), so a leftover
/// `$p` would silently change the answer instead of being refused; plain RETURN / WHERE as controls.  Rows are
/// compared as a bag, so the order is observed through LIMIT / SKIP (RETURN) and collect() (WITH).  Over :L3
/// (k0 = 1, 2, 3) every CASE has at least one row taking a WHEN branch and one falling through to ELSE.
/// `$p0` is the focal position; `$p1` (= 1, 2, null in the exhaustive part) fills the others in the `*-all` forms.
/// Also the sibling optional children of `substitute_expr` (slice bounds, comprehension filter) in the same places.
fn case_templates() -> Vec<(&'static str, Tpl)> {
    // (name of the CASE shape, text); the key is finite for every row when the parameters are numbers
    let shapes: Vec<(&str, &str)> = vec![
        ("s-when", "CASE WHEN v1.k0 <= $p0 THEN 0 ELSE v1.k0 END"),
        ("s-then", "CASE WHEN v1.k0 >= 2 THEN $p0 ELSE v1.k0 END"),
        ("s-else", "CASE WHEN v1.k0 < 2 THEN v1.k0 ELSE $p0 END"),
        ("s-all", "CASE WHEN v1.k0 <= $p1 THEN $p1 ELSE $p0 END"),
        ("s-when2", "CASE WHEN v1.k0 = 3 THEN 3 WHEN v1.k0 = $p1 THEN $p0 ELSE 2 END"),
        ("s-nested", "CASE WHEN v1.k0 = 1 THEN 1 ELSE CASE WHEN v1.k0 = 2 THEN $p0 ELSE $p1 END END"),
        ("c-operand", "CASE $p0 WHEN v1.k0 THEN 0 ELSE v1.k0 END"),
        ("c-when", "CASE v1.k0 WHEN $p0 THEN 0 ELSE v1.k0 END"),
        ("c-then", "CASE v1.k0 WHEN 2 THEN $p0 ELSE v1.k0 END"),
        ("c-else", "CASE v1.k0 WHEN 1 THEN v1.k0 ELSE $p0 END"),
        ("c-all", "CASE $p1 WHEN v1.k0 THEN $p1 ELSE $p0 END"),
        ("c-no-else", "CASE v1.k0 WHEN 2 THEN $p0 WHEN 3 THEN $p1 END"),
    ];
    // (name of the place, text with `{K}` for the CASE)
    let sites: Vec<(&str, &str)> = vec![
        ("ctl", "MATCH (v1:L3) WHERE ({K}) IS NOT NULL RETURN v1.k0 AS c0, {K} AS c1"),
        ("ret-orderby-first", "MATCH (v1:L3) RETURN v1.k0 AS c0 ORDER BY {K}, v1.k0 DESC LIMIT 1"),
        ("ret-orderby-last", "MATCH (v1:L3) RETURN v1.k0 AS c0 ORDER BY {K} DESC, v1.k0 SKIP 2"),
        ("with-orderby", "MATCH (v1:L3) WITH v1 ORDER BY {K}, v1.k0 DESC RETURN collect(v1.k0) AS c0"),
        ("with-where-notnull", "MATCH (v1:L3) WITH v1 WHERE ({K}) IS NOT NULL RETURN v1.k0 AS c0"),
        ("with-where-cmp", "MATCH (v1:L3) WITH v1 WHERE v1.k0 >= {K} RETURN v1.k0 AS c0"),
    ];
    let mut out: Vec<(&'static str, Tpl)> = vec![];
    for (sn, site) in &sites {
        for (kn, k) in &shapes {
            let name: &'static str = Box::leak(format!("case-{}-{}", sn, kn).into_boxed_str());
            out.push((name, Tpl::Raw(site.replace("{K}", k))));
        }
    }
    let extra: Vec<(&'static str, &str)> = vec![
        // a null parameter in ELSE / THEN: the row is kept by the inlined text only through IS NULL
        ("case-with-where-isnull-else", "MATCH (v1:L3) WITH v1 WHERE (CASE WHEN v1.k0 < 2 THEN v1.k0 ELSE $p0 END) IS NULL OR v1.k0 = 1 RETURN v1.k0 AS c0"),
        ("case-with-where-isnull-then", "MATCH (v1:L3) WITH v1 WHERE (CASE v1.k0 WHEN 2 THEN $p0 ELSE v1.k0 END) IS NULL OR v1.k0 = 1 RETURN v1.k0 AS c0"),
        // string keys over :L0 (k1 = 'a', 'it\'s', absent, 'é漢 🙂', true), the shape of the seeded demo
        ("case-with-orderby-str", "MATCH (v1:L0) WITH v1 ORDER BY CASE v1.k1 WHEN $p0 THEN 'zzz' ELSE $p1 END, v1.k0 DESC RETURN collect(v1.k0) AS c0"),
        ("case-with-orderby-str-else", "MATCH (v1:L0) WITH v1 ORDER BY CASE WHEN v1.k1 = 'a' THEN 'zzz' ELSE $p0 END, v1.k0 DESC RETURN collect(v1.k0) AS c0"),
        ("case-with-where-startswith", "MATCH (v1:L0) WITH v1 WHERE v1.k0 >= CASE WHEN v1.k1 STARTS WITH $p0 THEN $p1 ELSE 0 END RETURN v1.k0 AS c0"),
        ("case-with-where-threshold", "MATCH (v1:L0) WITH v1 WHERE v1.k0 >= CASE WHEN v1.k1 STARTS WITH 'a' THEN 5 ELSE $p0 END RETURN v1.k0 AS c0"),
        // other shapes of the statement around the sort / the barrier
        ("case-distinct-orderby", "MATCH (v1:L3) RETURN DISTINCT v1.k0 AS c0 ORDER BY CASE WHEN v1.k0 < 2 THEN v1.k0 ELSE $p0 END, v1.k0 DESC LIMIT 1"),
        ("case-orderby-alias", "MATCH (v1:L3) RETURN v1.k0 AS c0 ORDER BY CASE WHEN c0 < 2 THEN c0 ELSE $p0 END, c0 DESC LIMIT 1"),
        ("case-agg-orderby", "MATCH (v1:L3) RETURN v1.k0 AS c0, count(v1) AS c1 ORDER BY CASE WHEN c0 < 2 THEN c0 ELSE $p0 END, c0 DESC LIMIT 1"),
        ("case-with-alias-orderby", "MATCH (v1:L3) WITH v1.k0 AS v4 ORDER BY CASE v4 WHEN 1 THEN v4 ELSE $p0 END, v4 DESC RETURN collect(v4) AS c0"),
        ("case-with-orderby-limit", "MATCH (v1:L3) WITH v1 ORDER BY CASE WHEN v1.k0 < 2 THEN v1.k0 ELSE $p0 END DESC, v1.k0 LIMIT 2 RETURN collect(v1.k0) AS c0"),
        ("case-unwind-with-where", "UNWIND [1, 2, 3] AS v0 WITH v0 WHERE v0 >= CASE WHEN v0 < 2 THEN v0 ELSE $p0 END RETURN v0 AS c0"),
        ("case-unwind-with-orderby", "UNWIND [1, 2, 3] AS v0 WITH v0 ORDER BY CASE v0 WHEN $p1 THEN v0 ELSE $p0 END, v0 DESC RETURN collect(v0) AS c0"),
        // a parameter in an EARLIER WITH stage (`Query::extra_with_stages`; `substitute_params` visited only the last WITH:
        // p0 = 0 gave no rows vs 1, 2, 3, and p0 = -1 gave [1,2,3] vs [3,2,1]) — repaired, corpus/C35/earlier-with-stage
        ("earlier-with-where", "MATCH (v1:L3) WITH v1 WHERE v1.k0 >= $p0 WITH v1 RETURN v1.k0 AS c0"),
        ("earlier-with-orderby", "MATCH (v1:L3) WITH v1 ORDER BY v1.k0 * $p0 WITH v1 RETURN collect(v1.k0) AS c0"),
        ("earlier-with-item", "MATCH (v1:L3) WITH v1, v1.k0 + $p0 AS v4 WITH v1, v4 WHERE v4 >= $p1 WITH v1, v4 ORDER BY v4 * $p0, v1.k0 RETURN collect(v1.k0) AS c0, collect(v4) AS c1"),
        ("earlier-with-post-where", "MATCH (v1:L3) WITH v1 MATCH (v2:L3) WHERE v2.k0 > v1.k0 + $p0 WITH v1, v2 RETURN v1.k0 AS c0, v2.k0 AS c1"),
        ("case-two-barriers", "MATCH (v1:L3) WITH v1 WHERE v1.k0 >= CASE WHEN v1.k0 < 2 THEN 0 ELSE $p0 END WITH v1 ORDER BY CASE WHEN v1.k0 > 2 THEN $p0 ELSE $p1 END, v1.k0 DESC RETURN collect(v1.k0) AS c0"),
        ("case-set-ctl", "MATCH (v1:L3) SET v1.k1 = CASE WHEN v1.k0 < 2 THEN v1.k0 ELSE $p0 END RETURN v1.k0 AS c0"),
        ("case-in-list-orderby", "MATCH (v1:L3) WITH v1 ORDER BY [CASE WHEN v1.k0 < 2 THEN v1.k0 ELSE $p0 END][0], v1.k0 DESC RETURN collect(v1.k0) AS c0"),
        ("case-in-fn-orderby", "MATCH (v1:L3) WITH v1 ORDER BY coalesce(CASE WHEN v1.k0 < 2 THEN null ELSE $p0 END, 2), v1.k0 DESC RETURN collect(v1.k0) AS c0"),
        // the other optional children: slice bounds, comprehension filter
        ("opt-slice-end-orderby", "MATCH (v1:L3) WITH v1 ORDER BY [0, 30, 20, 10][v1.k0..$p0][0], v1.k0 DESC RETURN collect(v1.k0) AS c0"),
        ("opt-slice-start-orderby", "MATCH (v1:L3) RETURN v1.k0 AS c0 ORDER BY [30, 20, 10, 40 - v1.k0, 5][$p0..4][2], v1.k0 DESC LIMIT 1"),
        ("opt-slice-with-where", "MATCH (v1:L3) WITH v1 WHERE size([1, 2, 3, 4][$p0..v1.k0]) >= 1 RETURN v1.k0 AS c0"),
        ("opt-comp-filter-with-where", "MATCH (v1:L3) WITH v1 WHERE size([x IN [1, 2, 3] WHERE x >= $p0 | x]) >= v1.k0 RETURN v1.k0 AS c0"),
        ("opt-comp-filter-orderby", "MATCH (v1:L3) WITH v1 ORDER BY size([x IN [1, 2, 3] WHERE x >= $p0 AND x <> v1.k0 | x]) + v1.k0 * $p1, v1.k0 DESC RETURN collect(v1.k0) AS c0"),
        ("opt-comp-map-orderby", "MATCH (v1:L3) RETURN v1.k0 AS c0 ORDER BY [x IN [v1.k0] | CASE WHEN x < 2 THEN x ELSE $p0 END][0], v1.k0 DESC LIMIT 1"),
    ];
    for (n, t) in extra {
        out.push((n, Tpl::Raw(t.to_string())));
    }
    out
}

fn build_store() -> GraphStore {
    let mut s = GraphStore::new();
    for t in SETUP {
        let o = exec(&mut s, t, None);
        assert!(o.rows.is_ok(), "setup failed: {}", t);
    }
    s
}

fn obs_text(o: &Outcome, post: &str) -> String {
    match &o.rows {
        Ok(rows) => format!("ok@{}@{}", rows_text(rows), post),
        Err((k, _)) => format!("err@{}@{}", k.tag(), post),
    }
}

fn main() {
    let args = Args::parse();
    let known = Known::load(&args.known, "C35");
    let mut rep = Report::new(
        "C35",
        "statement templates with $p in every position x boundary values (pairs for two-parameter templates); each run with \
         parameters and with the parameters written as literals on identically built stores; non-trivial = the parameterised run \
         answered (no error) and produced rows or changed the graph; distinct = distinct (template, values)",
        &args.replays,
        args.seed,
    );
    let exe = args.driver_exe("drv_cyw");
    let vals = boundary_values();
    let tpls = templates();

    struct Case {
        name: String,
        text_p: String,
        text_i: String,
        term: Option<String>,
        params: Vec<(u32, PropertyValue)>,
        pre: String,
        obs_p: String,
        obs_i: String,
        ok_p: bool,
        changed: bool,
        rows_p: String,
    }
    let mut cases: Vec<Case> = vec![];
    let mut run = |name: &str, tpl: &Tpl, v0: &PropertyValue, v1: &PropertyValue, cases: &mut Vec<Case>| {
        let mut pm: HashMap<u32, PropertyValue> = HashMap::new();
        pm.insert(0, v0.clone());
        pm.insert(1, v1.clone());
        let (text_p, text_i, term) = match tpl {
            Tpl::Model(st) => (st.cypher(), st.inline(&pm).cypher(), Some(st.model())),
            Tpl::Raw(t) => (t.clone(), t.replace("$p0", &lit_cypher(v0)).replace("$p1", &lit_cypher(v1)), None),
        };
        let mut named: HashMap<String, PropertyValue> = HashMap::new();
        named.insert("p0".into(), v0.clone());
        named.insert("p1".into(), v1.clone());
        let mut sp = build_store();
        let pre = dump(&sp);
        let op = exec(&mut sp, &text_p, Some(&named));
        let post_p = dump(&sp);
        let mut si = build_store();
        let oi = exec(&mut si, &text_i, None);
        let post_i = dump(&si);
        // the read-only executor has its own call of substitute_params: compare it too
        let is_read = match tpl {
            Tpl::Model(st) => !st.cls.iter().any(|c| c.is_write()),
            Tpl::Raw(t) => !["CREATE", "MERGE", " SET ", "DELETE", "REMOVE"].iter().any(|k| t.contains(k)),
        };
        if is_read {
            let s0 = build_store();
            let d0 = dump(&s0);
            let rp = exec_read(&s0, &text_p, Some(&named));
            let ri = exec_read(&s0, &text_i, None);
            cases.push(Case {
                name: format!("{}:read-executor", name),
                obs_p: obs_text(&rp, &d0),
                obs_i: obs_text(&ri, &d0),
                ok_p: rp.rows.is_ok(),
                changed: false,
                rows_p: rp.rows.as_ref().map(|r| rows_text(r)).unwrap_or_default(),
                text_p: text_p.clone(),
                text_i: text_i.clone(),
                term: None,
                params: vec![(0, v0.clone()), (1, v1.clone())],
                pre: d0,
            });
        }
        cases.push(Case {
            name: name.to_string(),
            obs_p: obs_text(&op, &post_p),
            obs_i: obs_text(&oi, &post_i),
            ok_p: op.rows.is_ok(),
            changed: post_p != pre,
            rows_p: op.rows.as_ref().map(|r| rows_text(r)).unwrap_or_default(),
            text_p,
            text_i,
            term,
            params: vec![(0, v0.clone()), (1, v1.clone())],
            pre,
        });
    };

    // ---- scripts: several statements on ONE executor (state carried from one statement to the next)
    let tpl_texts = |tpl: &Tpl, v0: &PropertyValue, v1: &PropertyValue| -> (String, String, bool) {
        let mut pm: HashMap<u32, PropertyValue> = HashMap::new();
        pm.insert(0, v0.clone());
        pm.insert(1, v1.clone());
        match tpl {
            Tpl::Model(st) => (st.cypher(), st.inline(&pm).cypher(), !st.cls.iter().any(|c| c.is_write())),
            Tpl::Raw(t) => (t.clone(), t.replace("$p0", &lit_cypher(v0)).replace("$p1", &lit_cypher(v1)), !["CREATE", "MERGE", " SET ", "DELETE", "REMOVE"].iter().any(|k| t.contains(k))),
        }
    };
    let named_of = |v0: &PropertyValue, v1: &PropertyValue| -> HashMap<String, PropertyValue> {
        let mut named = HashMap::new();
        named.insert("p0".to_string(), v0.clone());
        named.insert("p1".to_string(), v1.clone());
        named
    };
    // steps: (template name, template, $p0, $p1); `kind` = "script" (one with_params), "script-reparam" (new
    // parameter values before a later statement) — each also through the read executor when every step is read-only
    let mut run_script = |kind: &str, steps: &[(&str, &Tpl, PropertyValue, PropertyValue)], cases: &mut Vec<Case>| {
        let texts: Vec<(String, String, bool)> = steps.iter().map(|(_, t, a, b)| tpl_texts(t, a, b)).collect();
        let script_p: Vec<(String, Option<HashMap<String, PropertyValue>>)> = steps.iter().zip(texts.iter()).map(|((_, _, a, b), (tp, _, _))| (tp.clone(), Some(named_of(a, b)))).collect();
        let all_text_p = texts.iter().map(|t| t.0.clone()).collect::<Vec<_>>().join(" ;; ");
        let all_text_i = texts.iter().map(|t| t.1.clone()).collect::<Vec<_>>().join(" ;; ");
        let mut push = |cases: &mut Vec<Case>, label: &str, outs_p: &[Outcome], outs_i: &[Outcome], final_p: &str, final_i: &str, pre: &str| {
            // an (admissible) error of the parameterised run where the inlined statement went through leaves the
            // two stores in different states: later statements are no longer comparable
            let cut = outs_p.iter().zip(outs_i.iter()).position(|(a, b)| a.rows.is_err() != b.rows.is_err());
            for (k, (op, oi)) in outs_p.iter().zip(outs_i.iter()).enumerate() {
                if let Some(c) = cut {
                    if k > c {
                        break;
                    }
                }
                let last = k + 1 == outs_p.len() && cut.is_none();
                let (gp, gi) = if last { (final_p, final_i) } else { ("-|-", "-|-") };
                cases.push(Case {
                    name: format!("{}:{}", label, steps[k].0),
                    obs_p: obs_text(op, gp),
                    obs_i: obs_text(oi, gi),
                    ok_p: op.rows.is_ok(),
                    changed: last && final_p != pre,
                    rows_p: op.rows.as_ref().map(|r| rows_text(r)).unwrap_or_default(),
                    text_p: format!("[stmt {} of] {}", k + 1, all_text_p),
                    text_i: format!("[stmt {} of] {}", k + 1, all_text_i),
                    term: None,
                    params: vec![(0, steps[k].2.clone()), (1, steps[k].3.clone())],
                    pre: pre.to_string(),
                });
            }
        };
        // one MutQueryExecutor for the whole script  vs  fresh executors on the inlined text
        let mut sp = build_store();
        let pre = dump(&sp);
        let outs_p = exec_script_mut(&mut sp, &script_p);
        let final_p = dump(&sp);
        let mut si = build_store();
        let outs_i: Vec<Outcome> = texts.iter().map(|t| exec(&mut si, &t.1, None)).collect();
        let final_i = dump(&si);
        push(cases, kind, &outs_p, &outs_i, &final_p, &final_i, &pre);
        // one read-only QueryExecutor (same parameters throughout)
        if kind == "script" && texts.iter().all(|t| t.2) {
            let s0 = build_store();
            let named = named_of(&steps[0].2, &steps[0].3);
            let rp = exec_script_read(&s0, &texts.iter().map(|t| t.0.clone()).collect::<Vec<_>>(), Some(&named));
            let ri: Vec<Outcome> = texts.iter().map(|t| exec_read(&s0, &t.1, None)).collect();
            push(cases, "script-read", &rp, &ri, &pre, &pre, &pre);
        }
    };

    // corpus / replay: `<template name> ||| <value name> ||| <value name>`
    let mut files: Vec<std::path::PathBuf> = vec![];
    if let Some(r) = &args.replay {
        files.push(r.clone());
    } else if let Ok(rd) = std::fs::read_dir(args.corpus.join("C35")) {
        files = rd.filter_map(|e| e.ok().map(|e| e.path())).collect();
        files.sort();
    }
    let find_val = |n: &str| vals.iter().find(|(k, _)| *k == n).map(|(_, v)| v.clone());
    let mut n_corpus = 0;
    for f in &files {
        for line in std::fs::read_to_string(f).unwrap_or_default().lines() {
            let line = line.trim();
            if let Some(rest) = line.strip_prefix("script ") {
                // `script <tpl> > <tpl> [> <tpl>] ||| <value of $p0> ||| <value of $p1>`
                let fs: Vec<&str> = rest.split(" ||| ").collect();
                if fs.len() == 3 {
                    if let (Some(a), Some(b)) = (find_val(fs[1]), find_val(fs[2])) {
                        let steps: Vec<(&str, &Tpl, PropertyValue, PropertyValue)> =
                            fs[0].split(" > ").filter_map(|n| tpls.iter().find(|(m, _)| *m == n.trim())).map(|(n, t)| (*n, t, a.clone(), b.clone())).collect();
                        if steps.len() >= 2 {
                            run_script("script", &steps, &mut cases);
                            n_corpus += 1;
                        }
                    }
                }
                continue;
            }
            let line = line.strip_prefix("case ").unwrap_or(line);
            if line.is_empty() || line.starts_with('#') {
                continue;
            }
            let fs: Vec<&str> = line.split(" ||| ").collect();
            if fs.len() < 3 {
                continue;
            }
            if let (Some((n, t)), Some(a), Some(b)) = (tpls.iter().find(|(n, _)| *n == fs[0]), find_val(fs[1]), find_val(fs[2])) {
                run(n, t, &a, &b, &mut cases);
                n_corpus += 1;
            }
        }
    }
    rep.count_n("corpus_cases", n_corpus);

    if args.replay.is_none() {
        // exhaustive: every template x every boundary value for $p0 ($p1 = a fixed companion),
        // then random pairs
        for (name, tpl) in &tpls {
            for (_, v0) in &vals {
                run(name, tpl, v0, &PropertyValue::Integer(1), &mut cases);
                if name.starts_with("3vl-") {
                    // the three truth values as the companion parameter
                    for v1 in [PropertyValue::Null, PropertyValue::Boolean(true), PropertyValue::Boolean(false)] {
                        run(name, tpl, v0, &v1, &mut cases);
                    }
                }
                if name.starts_with("union") {
                    // the same value on every branch: UNION must collapse the rows with parameters and with literals alike
                    run(name, tpl, v0, v0, &mut cases);
                }
                if name.starts_with("case-") && matches!(tpl, Tpl::Raw(t) if t.contains("$p1")) {
                    // another row selected by the companion / a null companion
                    for v1 in [PropertyValue::Integer(2), PropertyValue::Null] {
                        run(name, tpl, v0, &v1, &mut cases);
                    }
                }
            }
        }
        rep.exhaustive = true;
        rep.exhaustive_note = format!("{} templates x {} boundary values for $p0 with $p1 = 1 (the 3vl-* templates also with $p1 in null/true/false, the case-* templates that use $p1 also with $p1 in 2/null, the union* templates also with $p1 = $p0); plus random (template, $p0, $p1) triples; plus scripts on ONE executor: every template as the second statement x 6 values, and random 2-4 statement scripts (a third of them re-parameterised between statements)", tpls.len(), vals.len());
        // scripts: every template as the SECOND statement after a parameterised first one (same executor),
        // with three characteristic values; then random scripts of 2-4 statements and re-parameterised ones
        let script_tpls: Vec<&(&'static str, Tpl)> = tpls.iter().filter(|(n, _)| *n != "param-map-access").collect();
        let probe_vals = [PropertyValue::Integer(5), PropertyValue::Boolean(false), PropertyValue::Null, PropertyValue::Integer(1), PropertyValue::String("a".into()), PropertyValue::Array(vec![PropertyValue::Integer(1), PropertyValue::Integer(2), PropertyValue::Integer(3)])];
        let first = tpls.iter().find(|(n, _)| *n == "return").unwrap();
        for (name, tpl) in script_tpls.iter().map(|x| (x.0, &x.1)) {
            for v0 in &probe_vals {
                let one = PropertyValue::Integer(1);
                run_script("script", &[(first.0, &first.1, v0.clone(), one.clone()), (name, tpl, v0.clone(), one.clone())], &mut cases);
            }
        }
        let mut rng = Rng::new(vharness::util::fnv(&format!("c35-{}", args.seed)));
        let n_scripts = if args.thorough() { 3000 } else { 300 };
        for _ in 0..n_scripts {
            let len = 2 + rng.usize(3);
            let v0 = vals[rng.usize(vals.len())].1.clone();
            let v1 = vals[rng.usize(vals.len())].1.clone();
            let reparam = rng.chance(1, 3);
            let mut steps: Vec<(&str, &Tpl, PropertyValue, PropertyValue)> = vec![];
            for _ in 0..len {
                let t = script_tpls[rng.usize(script_tpls.len())];
                let (a, b) = if reparam { (vals[rng.usize(vals.len())].1.clone(), vals[rng.usize(vals.len())].1.clone()) } else { (v0.clone(), v1.clone()) };
                steps.push((t.0, &t.1, a, b));
            }
            run_script(if reparam { "script-reparam" } else { "script" }, &steps, &mut cases);
        }
        let n_rand = if args.thorough() { 6000 } else { 500 };
        for _ in 0..n_rand {
            let (name, tpl) = &tpls[rng.usize(tpls.len())];
            let v0 = vals[rng.usize(vals.len())].1.clone();
            let v1 = vals[rng.usize(vals.len())].1.clone();
            run(name, tpl, &v0, &v1, &mut cases);
        }
    }

    let mut lines = vec![];
    for c in &cases {
        lines.push(format!("specp {} {}", c.obs_p, c.obs_i));
        match &c.term {
            Some(t) => {
                lines.push(format!("param {} {} {}", params_model(&c.params), c.pre, t));
                lines.push(format!("inline {} {} {}", params_model(&c.params), c.pre, t));
            }
            None => {
                lines.push("skip".into());
                lines.push("skip".into());
            }
        }
    }
    let replies = driver::par_batch(&exe, &lines, 8);

    let mut first_break: Option<String> = None;
    for (i, c) in cases.iter().enumerate() {
        let sv = &replies[3 * i];
        let mp = &replies[3 * i + 1];
        let mi = &replies[3 * i + 2];
        let nontrivial = c.ok_p && (c.changed || (c.rows_p != "-" && !c.rows_p.is_empty()));
        rep.case(&format!("{} {:?}", c.name, c.params), nontrivial);
        rep.count(&format!("template:{}:{}", c.name, if c.ok_p { "answered" } else { "error" }));
        if nontrivial && rep.samples.len() < 4 {
            rep.sample(json!({"with_params": c.text_p, "inlined": c.text_i, "obs_params": c.obs_p, "obs_inlined": c.obs_i}));
        }
        let body = format!(
            "case {} ||| {} ||| {}\n# with params: {}\n# params      : {}\n# inlined    : {}\n# R_p {}\n# R_i {}\n# M_p {}\n# M_i {}\n# spec {}",
            c.name,
            vals.iter().find(|(_, v)| pv_text(v) == pv_text(&c.params[0].1)).map(|x| x.0).unwrap_or("?"),
            vals.iter().find(|(_, v)| pv_text(v) == pv_text(&c.params[1].1)).map(|x| x.0).unwrap_or("?"),
            c.text_p,
            params_model(&c.params),
            c.text_i,
            c.obs_p,
            c.obs_i,
            mp,
            mi,
            sv
        );
        if sv == "bad-op" {
            // an observation the driver cannot read (an entity or unknown value class in a row)
            rep.count("spec_unreadable_observation");
            if first_break.is_none() {
                first_break = Some(body.clone());
            }
            continue;
        }
        if sv != "ok" {
            rep.count(&format!("spec_violation:{}", c.name));
            let kind = if c.obs_i.starts_with("err@") { ":inlined-text-errors" } else { "" };
            rep.spec_violation(&known, &format!("differs:{}{}", c.name, kind), &format!("`{}` with {} answered {} but the inlined `{}` answered {}", c.text_p, params_model(&c.params), c.obs_p, c.text_i, c.obs_i), &body);
            continue;
        }
        // model vs engine, where the model has an opinion
        if c.term.is_some() && mp != "bad-op" && mi != "bad-op" {
            let cmp = |m: &str, obs: &str, what: &str, rep: &mut Report| -> bool {
                if m == "err unsup" {
                    rep.count(&format!("model_unsupported:{}", what));
                    return true;
                }
                let (mok, mrows, mgraph) = split_reply(m);
                let mut it = obs.splitn(3, '@');
                let ok = it.next() == Some("ok");
                let rows = it.next().unwrap_or("");
                let graph = it.next().unwrap_or("");
                if what == "param" && mok && !ok {
                    // the engine refuses where the model answers: admissible for the parameter
                    // path (the property allows an error), counted, not a disagreement
                    rep.count("param_path_refused_where_model_answers");
                    return true;
                }
                if mok != ok {
                    return false;
                }
                if !ok {
                    return true;
                }
                sort_rows_text(&mrows) == rows && matches!((parse_dump(graph), parse_dump(&mgraph)), (Some(a), Some(b)) if find_renaming(&a, &b).is_some())
            };
            let okp = cmp(mp, &c.obs_p, "param", &mut rep);
            let oki = cmp(mi, &c.obs_i, "inline", &mut rep);
            if !okp || !oki {
                rep.count(&format!("model_mismatch:{}:{}", c.name, if !okp { "param" } else { "inline" }));
                if first_break.is_none() {
                    first_break = Some(body);
                }
            }
        } else if c.term.is_some() {
            rep.count("driver_rejected");
            if first_break.is_none() {
                first_break = Some(body);
            }
        }
    }
    if let Some(body) = first_break {
        if rep.spec_violations.is_empty() {
            rep.correspondence_break(
                "SgModel.CyW.{paramPath, Stmt.inline + exec} = MutQueryExecutor::{with_params, execute}",
                "the model of the parameter path / of the inlined statement and the engine differ although param-vs-inlined agree on all explored cases",
                &body,
            );
        }
    }
    rep.write(&args.out);
}
