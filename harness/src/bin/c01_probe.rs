//! scratch REPL for C01 (not part of any check): lines `W <cypher>` (write) / `R <cypher>` (read) / `P <cypher>` (plan)
use samyama::graph::GraphStore;
use samyama::query::QueryEngine;
use std::io::BufRead;

fn main() {
    let mut store = GraphStore::new();
    let eng = QueryEngine::new();
    let stdin = std::io::stdin();
    for line in stdin.lock().lines() {
        let line = line.unwrap();
        let line = line.trim();
        if line.is_empty() || line.starts_with('#') {
            continue;
        }
        let (k, q) = line.split_at(1);
        let q = q.trim();
        println!(">> {}", line);
        let r = std::panic::catch_unwind(std::panic::AssertUnwindSafe(|| match k {
            "W" => match eng.execute_mut(q, &mut store, "default") {
                Ok(b) => println!("   ok {} rows", b.records.len()),
                Err(e) => println!("   ERR {}", e),
            },
            "P" => match samyama::query::parse_query(q) {
                Ok(ast) => {
                    let planner = samyama::query::executor::planner::QueryPlanner::new();
                    match planner.plan(&ast, &store) {
                        Ok(p) => println!("{}", p.root.describe().format(1)),
                        Err(e) => println!("   PLAN-ERR {}", e),
                    }
                }
                Err(e) => println!("   PARSE-ERR {}", e),
            },
            _ => match eng.execute(q, &store) {
                Ok(b) => {
                    println!("   cols {:?}", b.columns);
                    for r in &b.records {
                        let vs: Vec<String> = b
                            .columns
                            .iter()
                            .map(|c| match r.get(c) {
                                Some(v) => short(v),
                                None => "<unbound>".into(),
                            })
                            .collect();
                        println!("   | {}", vs.join(" | "));
                    }
                }
                Err(e) => println!("   ERR {}", e),
            },
        }));
        if r.is_err() {
            println!("   PANIC");
        }
    }
}

fn short(v: &samyama::query::Value) -> String {
    use samyama::query::Value::*;
    match v {
        Node(id, n) => {
            let mut ls: Vec<String> = n.labels.iter().map(|l| l.as_str().to_string()).collect();
            ls.sort();
            format!("node#{}:{}", id.as_u64(), ls.join(":"))
        }
        NodeRef(id) => format!("noderef#{}", id.as_u64()),
        Edge(id, _) => format!("edge#{}", id.as_u64()),
        EdgeRef(id, ..) => format!("edgeref#{}", id.as_u64()),
        Property(p) => format!("{:?}", p),
        List(l) => format!("L[{}]", l.iter().map(short).collect::<Vec<_>>().join(", ")),
        Null => "NULL".into(),
        other => format!("{:?}", other),
    }
}
