//! C34 — optimisation solvers return consistent, in-bounds, reproducible results.
//!
//! (a) the shared decision functions of `samyama_optimization` (`moo::constrained_dominates`,
//!     `moo::fast_non_dominated_sort`, `moo::EliteArchive::insert`, `rng::child_rng`, `f64::clamp`)
//!     against the Lean model `SgModel.Moo` (driver `drv_moo`), exactly;
//! (b) every public solver configuration at populations {5, 8, 12, 16, 30, 33, 50, 64} (both sides of
//!     the thresholds 12 and 32), short and long iteration counts, dimensions 1-6, run four times in
//!     child processes of this binary (`RAYON_NUM_THREADS` = 1, 2, 8 and 8 again): the four results
//!     must be bit-identical (thread-count independence and same-pool repeatability) and the
//!     result is judged by the Lean predicates InBounds / BestIsFitness / HistoryAntitone /
//!     FrontNonDominated (`so` / `mo` requests).  This part is a monitor with a formally stated
//!     oracle, not a proof about the solvers.
//!
//! f64 values cross the protocol as order-preserving integer keys (IEEE total-order key of the
//! bit pattern, -0.0 normalised to +0.0, NaN reported separately), so every comparison the
//! predicates make is exact.
use ndarray::Array1;
use samyama_optimization::algorithms::*;
use samyama_optimization::common::{MultiObjectiveIndividual, MultiObjectiveProblem, Problem, SolverConfig};
use samyama_optimization::moo;
use serde_json::json;
use std::io::Write;
use std::process::{Command, Stdio};
use vharness::{driver, Args, Known, Report, Rng};

// ---------------------------------------------------------------- problems

#[derive(Clone, Debug)]
struct Spec {
    lo: Vec<f64>,
    hi: Vec<f64>,
    kind: u8,         // objective family
    target: Vec<f64>, // c_j (kind 0), a_j (MO f1)
    target2: Vec<f64>, // b_j (MO f2)
    pen: u8,          // 0 none, 1 linear-sum threshold
    t: f64,
}

impl Spec {
    fn objective_of(&self, x: &Array1<f64>) -> f64 {
        match self.kind {
            0 => x.iter().zip(&self.target).enumerate().map(|(j, (v, c))| ((j + 1) as f64) * (v - c).abs().floor()).sum(),
            1 => x.iter().map(|v| v.floor() * v.floor()).sum(),
            2 => 7.0,
            3 => -x.iter().map(|v| v.floor()).sum::<f64>(),
            // real-valued families for the decimal boxes (the in-bounds check needs no exactness of f; fitness is
            // compared by re-evaluating the same deterministic function)
            4 => x.iter().zip(&self.target).map(|(v, c)| if *c < 0.0 { -*v } else { *v }).sum(), // linear: optimum in a corner
            5 => -x.iter().zip(&self.target).map(|(v, c)| (v - c).abs()).sum::<f64>(),          // two basins: both bounds are local optima
            _ => x.iter().zip(&self.target).map(|(v, c)| (v - c).abs()).sum(),                   // |x - c|, c on a bound or outside the box
        }
    }
    fn penalty_of(&self, x: &Array1<f64>) -> f64 {
        match self.pen {
            0 => 0.0,
            1 => 5.0 * (x.iter().sum::<f64>() - self.t).max(0.0).floor(),
            _ => 1000.0 * (x.iter().sum::<f64>() - self.t).max(0.0),
        }
    }
}

struct SoProblem(Spec);
impl Problem for SoProblem {
    fn objective(&self, x: &Array1<f64>) -> f64 {
        self.0.objective_of(x)
    }
    fn penalty(&self, x: &Array1<f64>) -> f64 {
        self.0.penalty_of(x)
    }
    fn dim(&self) -> usize {
        self.0.lo.len()
    }
    fn bounds(&self) -> (Array1<f64>, Array1<f64>) {
        (Array1::from(self.0.lo.clone()), Array1::from(self.0.hi.clone()))
    }
}

struct MoProblem(Spec);
impl MoProblem {
    fn objs(&self, x: &Array1<f64>) -> Vec<f64> {
        let fl = |d: f64| if self.0.kind >= 4 { d } else { d.floor() };
        let f1: f64 = x.iter().zip(&self.0.target).map(|(v, c)| fl((v - c).abs())).sum();
        let f2: f64 = x.iter().zip(&self.0.target2).map(|(v, c)| fl((v - c).abs())).sum();
        if self.0.kind % 2 == 0 {
            vec![f1, f2]
        } else {
            vec![f1, f2, self.0.objective_of(x)]
        }
    }
}
impl MultiObjectiveProblem for MoProblem {
    fn objectives(&self, x: &Array1<f64>) -> Vec<f64> {
        self.objs(x)
    }
    fn penalties(&self, x: &Array1<f64>) -> Vec<f64> {
        match self.0.pen {
            0 => vec![],
            1 => vec![self.0.penalty_of(x), (x[0] - self.0.t).max(0.0).floor()],
            _ => vec![self.0.penalty_of(x), (x[0] - self.0.t).max(0.0)],
        }
    }
    fn dim(&self) -> usize {
        self.0.lo.len()
    }
    fn bounds(&self) -> (Array1<f64>, Array1<f64>) {
        (Array1::from(self.0.lo.clone()), Array1::from(self.0.hi.clone()))
    }
    fn num_objectives(&self) -> usize {
        if self.0.kind % 2 == 0 {
            2
        } else {
            3
        }
    }
}

// ---------------------------------------------------------------- jobs

#[derive(Clone, Debug)]
struct Job {
    solver: String,
    pop: usize,
    iters: usize,
    seed: u64,
    spec: Spec,
}

fn csv(v: &[f64]) -> String {
    v.iter().map(|x| format!("{:?}", x)).collect::<Vec<_>>().join(",")
}
fn uncsv(s: &str) -> Option<Vec<f64>> {
    s.split(',').map(|x| x.parse::<f64>().ok()).collect()
}
fn show_job(j: &Job) -> String {
    format!(
        "{} {} {} {} {} {} {} {} {} {} {:?}",
        j.solver, j.pop, j.iters, j.seed, csv(&j.spec.lo), csv(&j.spec.hi), j.spec.kind, csv(&j.spec.target), csv(&j.spec.target2), j.spec.pen, j.spec.t
    )
}
fn parse_job(s: &str) -> Option<Job> {
    let f: Vec<&str> = s.split_whitespace().collect();
    if f.len() != 11 {
        return None;
    }
    let spec = Spec { lo: uncsv(f[4])?, hi: uncsv(f[5])?, kind: f[6].parse().ok()?, target: uncsv(f[7])?, target2: uncsv(f[8])?, pen: f[9].parse().ok()?, t: f[10].parse().ok()? };
    if spec.lo.len() != spec.hi.len() || spec.lo.len() != spec.target.len() || spec.lo.len() != spec.target2.len() || spec.lo.is_empty() {
        return None;
    }
    Some(Job { solver: f[0].into(), pop: f[1].parse().ok()?, iters: f[2].parse().ok()?, seed: f[3].parse().ok()?, spec })
}

const SO_SOLVERS: &[&str] = &[
    "jaya", "rao1", "rao2", "rao3", "tlbo", "bmr", "bwr", "qojaya", "itlbo", "pso", "de", "gotlbo", "firefly", "cuckoo", "gwo", "ga", "sa", "bat",
    "abc", "gsa", "hs", "fpa", "bmwr", "sampjaya", "ehrjaya", "qorao1", "qorao2", "qorao3", "saphr",
];
const MO_SOLVERS: &[&str] = &["nsga2", "motlbo", "mobmr", "mobwr", "mobmwr", "moraode"];

fn bits(v: f64) -> String {
    format!("{:016x}", v.to_bits())
}
fn bits_csv<'a>(v: impl Iterator<Item = &'a f64>) -> String {
    let s: Vec<String> = v.map(|x| bits(*x)).collect();
    if s.is_empty() {
        "-".into()
    } else {
        s.join(",")
    }
}

/// run one job in this process; the line it returns is what the two thread-pool runs must agree on
fn run_job(j: &Job) -> String {
    let cfg = SolverConfig { population_size: j.pop, max_iterations: j.iters };
    let seed = j.seed;
    let r = std::panic::catch_unwind(std::panic::AssertUnwindSafe(|| {
        macro_rules! so {
            ($s:expr) => {{
                let p = SoProblem(j.spec.clone());
                let r = $s.with_seed(seed).solve(&p);
                let refit = p.fitness(&r.best_variables);
                format!("so {} {} {} {}", bits_csv(r.best_variables.iter()), bits(r.best_fitness), bits(refit), bits_csv(r.history.iter()))
            }};
        }
        macro_rules! mo {
            ($s:expr) => {{
                let p = MoProblem(j.spec.clone());
                let r = $s.with_seed(seed).solve(&p);
                let inds: Vec<String> = r
                    .pareto_front
                    .iter()
                    .map(|m| {
                        let re = p.objectives(&m.variables);
                        let rcv: f64 = p.penalties(&m.variables).iter().sum();
                        format!("{}|{}|{}|{}|{}", bits_csv(m.variables.iter()), bits_csv(m.fitness.iter()), bits(m.constraint_violation), bits_csv(re.iter()), bits(rcv))
                    })
                    .collect();
                format!("mo {} {}", if inds.is_empty() { "-".to_string() } else { inds.join(";") }, bits_csv(r.history.iter()))
            }};
        }
        match j.solver.as_str() {
            "jaya" => so!(JayaSolver::new(cfg)),
            "rao1" => so!(RaoSolver::new(cfg, RaoVariant::Rao1)),
            "rao2" => so!(RaoSolver::new(cfg, RaoVariant::Rao2)),
            "rao3" => so!(RaoSolver::new(cfg, RaoVariant::Rao3)),
            "tlbo" => so!(TLBOSolver::new(cfg)),
            "bmr" => so!(BMRSolver::new(cfg)),
            "bwr" => so!(BWRSolver::new(cfg)),
            "qojaya" => so!(QOJayaSolver::new(cfg)),
            "itlbo" => so!(ITLBOSolver::new(cfg)),
            "pso" => so!(PSOSolver::new(cfg)),
            "de" => so!(DESolver::new(cfg)),
            "gotlbo" => so!(GOTLBOSolver::new(cfg)),
            "firefly" => so!(FireflySolver::new(cfg)),
            "cuckoo" => so!(CuckooSolver::new(cfg)),
            "gwo" => so!(GWOSolver::new(cfg)),
            "ga" => so!(GASolver::new(cfg)),
            "sa" => so!(SASolver::new(cfg)),
            "bat" => so!(BatSolver::new(cfg)),
            "abc" => so!(ABCSolver::new(cfg)),
            "gsa" => so!(GSASolver::new(cfg)),
            "hs" => so!(HSSolver::new(cfg)),
            "fpa" => so!(FPASolver::new(cfg)),
            "bmwr" => so!(BMWRSolver::new(cfg)),
            "sampjaya" => so!(SAMPJayaSolver::new(cfg)),
            "ehrjaya" => so!(EHRJayaSolver::new(cfg)),
            "qorao1" => so!(QORaoSolver::new(cfg, RaoVariant::Rao1)),
            "qorao2" => so!(QORaoSolver::new(cfg, RaoVariant::Rao2)),
            "qorao3" => so!(QORaoSolver::new(cfg, RaoVariant::Rao3)),
            "saphr" => so!(SAPHRSolver::new(cfg)),
            "nsga2" => mo!(NSGA2Solver::new(cfg)),
            "motlbo" => mo!(MOTLBOSolver::new(cfg)),
            "mobmr" => mo!(MOBMWRSolver::new(cfg, MOBMWRVariant::MOBMR)),
            "mobwr" => mo!(MOBMWRSolver::new(cfg, MOBMWRVariant::MOBWR)),
            "mobmwr" => mo!(MOBMWRSolver::new(cfg, MOBMWRVariant::MOBMWR)),
            "moraode" => mo!(MORaoDESolver::new(cfg)),
            other => format!("unknown-solver {}", other),
        }
    }));
    match r {
        Ok(s) => s,
        Err(e) => {
            let msg = e.downcast_ref::<String>().cloned().or_else(|| e.downcast_ref::<&str>().map(|s| s.to_string())).unwrap_or_default();
            format!("panic {}", msg.replace(['\n', ' '], "_"))
        }
    }
}

/// child mode: `c34 --child <jobs file> <out file>`; one result line per job, flushed as it goes
fn child(jobs: &str, out: &str) {
    std::panic::set_hook(Box::new(|_| {}));
    let txt = std::fs::read_to_string(jobs).expect("jobs file");
    let mut o = std::fs::File::create(out).expect("out file");
    for line in txt.lines() {
        let res = match parse_job(line) {
            Some(j) => run_job(&j),
            None => "bad-job".into(),
        };
        writeln!(o, "{}", res).unwrap();
        o.flush().unwrap();
    }
}

/// the runs every job gets: (label, RAYON_NUM_THREADS).  `8b` repeats the 8-thread run: same seed twice
/// in the same pool must also agree.
const POOLS: [(&str, usize); 4] = [("1", 1), ("2", 2), ("8", 8), ("8b", 8)];

/// run the jobs in `n_chunks` x POOLS child processes; returns one result line per pool, per job
fn run_children(args: &Args, jobs: &[Job], n_chunks: usize, timeout_s: u64) -> Vec<Vec<String>> {
    let exe = std::env::current_exe().expect("current exe");
    let chunk = ((jobs.len() + n_chunks - 1) / n_chunks).max(1);
    let mut procs = vec![];
    for (ci, c) in jobs.chunks(chunk).enumerate() {
        let jf = args.work.join(format!("jobs-{}.txt", ci));
        std::fs::write(&jf, c.iter().map(show_job).collect::<Vec<_>>().join("\n") + "\n").expect("write jobs");
        for (pi, (label, th)) in POOLS.iter().enumerate() {
            let of = args.work.join(format!("out-{}-{}.txt", ci, label));
            let _ = std::fs::remove_file(&of);
            let ch = Command::new(&exe)
                .arg("--child")
                .arg(&jf)
                .arg(&of)
                .env("RAYON_NUM_THREADS", th.to_string())
                .stdin(Stdio::null())
                .stdout(Stdio::null())
                .stderr(Stdio::null())
                .spawn()
                .expect("spawn child");
            procs.push((ci, pi, c.len(), of, ch));
        }
    }
    let start = std::time::Instant::now();
    let mut results: Vec<Vec<String>> = vec![vec![String::new(); POOLS.len()]; jobs.len()];
    for (ci, pi, n, of, mut ch) in procs {
        loop {
            match ch.try_wait() {
                Ok(Some(_)) => break,
                Ok(None) => {
                    if start.elapsed().as_secs() > timeout_s {
                        let _ = ch.kill();
                        let _ = ch.wait();
                        break;
                    }
                    std::thread::sleep(std::time::Duration::from_millis(20));
                }
                Err(_) => break,
            }
        }
        let txt = std::fs::read_to_string(&of).unwrap_or_default();
        let got: Vec<&str> = txt.lines().collect();
        for k in 0..n {
            let r = match got.get(k) {
                Some(l) => l.to_string(),
                None if k == got.len() => "hang-or-abort".to_string(), // the job the child was in when it died / was killed
                None => "not-run".to_string(),
            };
            results[ci * chunk + k][pi] = r;
        }
    }
    results
}

// ---------------------------------------------------------------- keys

fn f_of_bits(s: &str) -> Option<f64> {
    u64::from_str_radix(s, 16).ok().map(f64::from_bits)
}
/// order-preserving integer key of a non-NaN f64 (with -0.0 = +0.0)
fn key(x: f64) -> i64 {
    let x = x + 0.0;
    let b = x.to_bits() as i64;
    b ^ ((((b >> 63) as u64) >> 1) as i64)
}
fn keys_of_bits_csv(s: &str, nan: &mut bool) -> String {
    if s == "-" {
        return "-".into();
    }
    s.split(',')
        .map(|b| {
            let v = f_of_bits(b).unwrap_or(f64::NAN);
            if v.is_nan() {
                *nan = true;
            }
            key(v).to_string()
        })
        .collect::<Vec<_>>()
        .join(",")
}
fn keys_csv(v: &[f64]) -> String {
    if v.is_empty() {
        return "-".into();
    }
    v.iter().map(|x| key(*x).to_string()).collect::<Vec<_>>().join(",")
}

// ---------------------------------------------------------------- generators

fn gen_spec(rng: &mut Rng, shape: u8, dim: Option<usize>) -> Spec {
    // shape 0: all proper intervals; 1: some degenerate; 2: all degenerate
    let dim = dim.unwrap_or_else(|| 1 + rng.usize(6));
    const PROPER: &[(f64, f64)] = &[(-3.5, 10.25), (2.0, 7.0), (-8.0, -1.0), (0.0, 0.5), (-0.25, 0.25), (1.0, 1000.0), (-100.0, 3.0)];
    const DEGEN: &[(f64, f64)] = &[(2.5, 2.5), (0.0, 0.0), (-1.0, -1.0), (7.0, 7.0)];
    let mut lo = vec![];
    let mut hi = vec![];
    let forced = rng.usize(dim);
    for j in 0..dim {
        let deg = match shape {
            0 => false,
            1 => j == forced || rng.chance(1, 3),
            _ => true,
        };
        let (l, h) = if deg { *rng.pick(DEGEN) } else { *rng.pick(PROPER) };
        lo.push(l);
        hi.push(h);
    }
    // targets: mostly outside the box (optimum on the boundary), sometimes inside
    let tgt = |rng: &mut Rng, l: f64, h: f64| match rng.below(4) {
        0 => l - 3.0,
        1 => h + 2.0,
        2 => l,
        _ => ((l + h) / 2.0).floor(),
    };
    let target: Vec<f64> = (0..dim).map(|j| tgt(rng, lo[j], hi[j])).collect();
    let target2: Vec<f64> = (0..dim).map(|j| tgt(rng, lo[j], hi[j])).collect();
    let pen = if rng.chance(1, 3) { 1 } else { 0 };
    let t = (lo.iter().sum::<f64>() + hi.iter().sum::<f64>()) / 2.0;
    Spec { lo, hi, kind: rng.below(4) as u8, target, target2, pen, t: t.floor() }
}

/// Intervals whose end points are decimal fractions (not dyadic), of very different magnitudes: sums and
/// differences of the bounds are inexact in binary, so an unclamped `lo + hi - x`, `lo + r * (hi - lo)` or
/// `mid +- half` can land one ulp outside the box.
const DECIMAL: &[(f64, f64)] = &[
    (0.1, 0.3),
    (0.7, 1.9),
    (-0.3, 0.1),
    (-1.9, -0.7),
    (0.001, 0.003),
    (-0.007, 0.001),
    (0.1, 0.7),
    (1.1, 2.3),
    (-2.3, -1.1),
    (0.2, 0.6),
    (1e15 + 0.3, 1e15 + 0.7),
    (-1e15 - 0.7, 1e9 + 0.1),
    (1e-300, 3e-300),
    (-3e-300, 7e-300),
    (1e-9, 1.0),
    (0.3, 1e6 + 0.1),
    (123.456, 123.457),
    (-0.1, 0.2),
];

/// does the reflection `lo + hi - x` leave the box at one of its ends, in f64?
fn reflection_inexact(l: f64, h: f64) -> bool {
    (l + h) - l > h || (l + h) - h < l
}

/// a box of decimal intervals with an objective whose optimum lies on a bound or just outside the box
fn gen_decimal_spec(rng: &mut Rng, dim: usize, kind: u8, force_inexact: bool) -> Spec {
    let mut lo = vec![];
    let mut hi = vec![];
    for _ in 0..dim {
        let (l, h) = loop {
            // a listed family, or a random pair of thousandths
            let c = if rng.chance(2, 3) {
                *rng.pick(DECIMAL)
            } else {
                let l = rng.range(-3000, 3000) as f64 / 1000.0;
                (l, l + rng.range(1, 4000) as f64 / 1000.0)
            };
            if !force_inexact || reflection_inexact(c.0, c.1) {
                break c;
            }
        };
        lo.push(l);
        hi.push(h);
    }
    let target: Vec<f64> = (0..dim)
        .map(|j| {
            let (l, h) = (lo[j], hi[j]);
            match kind {
                4 => if rng.chance(1, 2) { -1.0 } else { 1.0 },               // sign of the slope
                5 => {
                    // interior centre: both bounds are local optima and the bound farther from c is the better one.
                    // Three times out of four c sits nearer to the bound whose reflection overshoots, so that a point
                    // resting on that bound sees a better value just past the opposite one.
                    let towards_lo = if (l + h) - l > h { true } else if (l + h) - h < l { false } else { rng.chance(1, 2) };
                    let near = [0.25, 0.4, 0.45][rng.usize(3)];
                    let frac = if rng.chance(3, 4) == towards_lo { near } else { 1.0 - near };
                    l + (h - l) * frac
                }
                _ => match rng.below(4) { 0 => l, 1 => h, 2 => l - (h - l) * 0.5, _ => h + (h - l) * 0.5 },
            }
        })
        .collect();
    let target2: Vec<f64> = (0..dim).map(|j| if rng.chance(1, 2) { lo[j] } else { hi[j] + (hi[j] - lo[j]) }).collect();
    let pen = if rng.chance(1, 5) { 2 } else { 0 };
    let t = lo.iter().zip(&hi).map(|(l, h)| l + (h - l) * 0.9).sum::<f64>();
    Spec { lo, hi, kind, target, target2, pen, t }
}

fn nontrivial(s: &Spec) -> bool {
    let odd_bounds = s.lo.iter().zip(&s.hi).any(|(l, h)| l == h || *l != -*h);
    let boundary_opt = match s.kind {
        0 => s.target.iter().zip(s.lo.iter().zip(&s.hi)).any(|(c, (l, h))| c <= l || c >= h),
        3 | 4 | 5 => true,
        6 => s.target.iter().zip(s.lo.iter().zip(&s.hi)).any(|(c, (l, h))| c <= l || c >= h),
        _ => false,
    };
    odd_bounds && boundary_opt
}

fn is_degenerate(s: &Spec) -> bool {
    s.lo.iter().zip(&s.hi).any(|(l, h)| l == h)
}

fn mk_ind(f: &[f64], v: f64) -> MultiObjectiveIndividual {
    MultiObjectiveIndividual::new(Array1::zeros(1), f.to_vec(), v)
}
fn show_ind(f: &[f64], v: f64) -> String {
    format!("{}|{}", keys_csv(f), key(v))
}

fn main() {
    let args = Args::parse();
    if args.extra.first().map(|s| s.as_str()) == Some("--child") {
        child(&args.extra[1], &args.extra[2]);
        return;
    }
    let known = Known::load(&args.known, "C34");
    let mut rep = Report::new(
        "C34",
        "(a) shared decision functions (dominance, non-dominated sort, archive insert, child seed, clamp) on generated integer-valued populations, compared exactly with the Lean model; \
         (b) every public solver (29 structs, 35 configurations) x populations {5,8,12,16,30,33,50,64} x iteration counts {2..64} x generated box problems (dim 1-6; asymmetric, tiny and degenerate lo = hi intervals, and decimal-fraction bounds of magnitudes 1e-300..1e15 whose sums are inexact in binary, with linear / two-basin / |x-c| objectives whose optimum lies on a bound or outside; penalties) x seeds, \
         each run under rayon pools of 1, 2, 8 and 8 (again) threads and compared bit-for-bit, result judged by the Lean predicates; quick samples boxes/iterations per (solver, population) pair, thorough runs the full product; non-trivial = solver run whose box is asymmetric or degenerate and whose optimum lies on the boundary; distinct = distinct job line",
        &args.replays,
        args.seed,
    );
    let exe = args.driver_exe("drv_moo");
    let mut rng = Rng::new(args.seed);
    std::fs::create_dir_all(&args.work).ok();

    // ================= (a) shared functions =================================================
    let mut lines: Vec<String> = vec![];
    let mut expect: Vec<(String, String)> = vec![]; // (what, expected reply)
    let n_a = if args.thorough() { 6000 } else { 800 };
    let gen_vals = |rng: &mut Rng, m: usize| -> Vec<f64> { (0..m).map(|_| rng.range(-2, 3) as f64).collect() };
    let gen_viol = |rng: &mut Rng| -> f64 { [0.0, 0.0, 0.0, 1.0, 2.0, 5.0][rng.usize(6)] };
    for _ in 0..n_a {
        // dominance
        let m = 1 + rng.usize(3);
        let (f1, f2) = (gen_vals(&mut rng, m), gen_vals(&mut rng, m));
        let (v1, v2) = (gen_viol(&mut rng), gen_viol(&mut rng));
        let r = moo::constrained_dominates(&f1, v1, &f2, v2);
        lines.push(format!("dom {} {} {} {}", keys_csv(&f1), key(v1), keys_csv(&f2), key(v2)));
        expect.push(("constrained_dominates".into(), format!("ok {}", r)));
        // non-dominated sort
        let n = rng.usize(9);
        let pop: Vec<(Vec<f64>, f64)> = (0..n).map(|_| (gen_vals(&mut rng, m), gen_viol(&mut rng))).collect();
        let mut real: Vec<MultiObjectiveIndividual> = pop.iter().map(|(f, v)| mk_ind(f, *v)).collect();
        moo::fast_non_dominated_sort(&mut real);
        let ranks: Vec<String> = real.iter().map(|i| i.rank.to_string()).collect();
        lines.push(format!("sort {}", if pop.is_empty() { "-".to_string() } else { pop.iter().map(|(f, v)| show_ind(f, *v)).collect::<Vec<_>>().join(";") }));
        expect.push(("fast_non_dominated_sort".into(), format!("ok {}", if ranks.is_empty() { "-".to_string() } else { ranks.join(",") })));
        // archive: a sequence of inserts, each step judged relationally (truncation choice is free)
        let cap = 1 + rng.usize(4);
        let mut arch = moo::EliteArchive::new(cap);
        let mut prev: Vec<(Vec<f64>, f64)> = vec![];
        for _ in 0..(2 + rng.usize(6)) {
            let (f, v) = (gen_vals(&mut rng, 2), gen_viol(&mut rng));
            arch.insert(mk_ind(&f, v));
            let next: Vec<(Vec<f64>, f64)> = arch.members.iter().map(|m| (m.fitness.clone(), m.constraint_violation)).collect();
            let show = |l: &Vec<(Vec<f64>, f64)>| if l.is_empty() { "-".to_string() } else { l.iter().map(|(f, v)| show_ind(f, *v)).collect::<Vec<_>>().join(";") };
            lines.push(format!("archstep {} {} {} {}", cap, show(&prev), show_ind(&f, v), show(&next)));
            expect.push(("EliteArchive::insert".into(), "ok".into()));
            prev = next;
        }
        // child seed: the real child_rng must be the generator seeded with the model's seed
        let (s, it, ix) = (rng.next_u64(), rng.usize(1 << 20), rng.usize(1 << 20));
        lines.push(format!("seed {} {} {}", s, it, ix));
        expect.push((format!("child_rng {} {} {}", s, it, ix), "?".into()));
        // clamp (std) on keys
        let (a, b, x) = (rng.range(-5, 5) as f64 / 2.0, rng.range(-5, 5) as f64 / 2.0, rng.range(-9, 9) as f64 / 2.0);
        let (lo, hi) = if a <= b { (a, b) } else { (b, a) };
        lines.push(format!("clamp {} {} {}", key(lo), key(hi), key(x)));
        expect.push(("f64::clamp".into(), format!("ok {}", key(x.clamp(lo, hi)))));
    }
    let replies = driver::par_batch(&exe, &lines, 8);
    let mut first_break: Option<(String, String)> = None;
    for ((what, want), (line, got)) in expect.iter().zip(lines.iter().zip(replies.iter())) {
        rep.evaluations += 1;
        let ok = if what.starts_with("child_rng") {
            let f: Vec<&str> = what.split(' ').collect();
            let (s, it, ix): (u64, usize, usize) = (f[1].parse().unwrap(), f[2].parse().unwrap(), f[3].parse().unwrap());
            match got.strip_prefix("ok ").and_then(|x| x.parse::<u64>().ok()) {
                Some(ms) => {
                    let real = samyama_optimization::common::rng::child_rng(Some(s), it, ix);
                    real == samyama_optimization::common::rng::solver_rng(Some(ms)) && real != samyama_optimization::common::rng::solver_rng(Some(ms ^ 1))
                }
                None => false,
            }
        } else {
            got == want
        };
        rep.count(&format!("shared:{}", what.split(' ').next().unwrap_or("?")));
        if !ok {
            rep.count("model_mismatch:shared");
            if what.starts_with("EliteArchive") {
                // the relational archive spec is S, not M: a failure is a specification violation
                rep.spec_violation(&known, "archive-invariant", &format!("EliteArchive::insert broke the archive specification: {}", got), &format!("request {}\nreply {}", line, got));
            } else if first_break.is_none() {
                first_break = Some((format!("SgModel.Moo vs {}", what), format!("request {}\nimpl  {}\nmodel {}", line, want, got)));
            }
        }
    }

    // ================= (b) solvers ==========================================================
    let mut jobs: Vec<Job> = vec![];
    let mut files: Vec<std::path::PathBuf> = vec![];
    if let Some(r) = &args.replay {
        files.push(r.clone());
    } else if let Ok(rd) = std::fs::read_dir(args.corpus.join("C34")) {
        files = rd.filter_map(|e| e.ok().map(|e| e.path())).collect();
        files.sort();
    }
    for f in &files {
        for line in std::fs::read_to_string(f).unwrap_or_default().lines() {
            if let Some(j) = line.trim().strip_prefix("job ") {
                if let Some(j) = parse_job(j) {
                    jobs.push(j);
                    rep.count("corpus_jobs");
                }
            }
        }
    }
    // The matrix.  A parameter of a run may only matter above a size threshold (sub-population counts,
    // stagnation limits, chunking), so every solver configuration is run at populations on both sides of
    // 12 and of 32, at short and long iteration counts, in dimensions 1-6.  quick: every (solver, population)
    // pair with boxes / iteration counts / seeds sampled from the seed; thorough: the full product.
    const POPS: [usize; 8] = [5, 8, 12, 16, 30, 33, 50, 64];
    const ITERS: [usize; 4] = [2, 9, 25, 60];
    if args.replay.is_none() {
        for s in SO_SOLVERS.iter().chain(MO_SOLVERS.iter()) {
            for &pop in POPS.iter() {
                if args.thorough() {
                    for &iters in ITERS.iter() {
                        for dim in 1..=6usize {
                            let shape = rng.below(3) as u8;
                            let spec = gen_spec(&mut rng, shape, Some(dim));
                            jobs.push(Job { solver: s.to_string(), pop, iters, seed: rng.next_u64() >> 1, spec });
                        }
                    }
                } else {
                    for k in 0..3 {
                        // the first job of every pair is one where a run parameter can show: proper box, non-constant objective, long run
                        let shape = if k == 0 { 0 } else { rng.below(3) as u8 };
                        let mut spec = gen_spec(&mut rng, shape, None);
                        if k == 0 && spec.kind == 2 {
                            spec.kind = [0u8, 1, 3][rng.usize(3)];
                        }
                        // one long and one short run per pair
                        let iters = if k % 2 == 0 { ITERS[2 + rng.usize(2)] } else { ITERS[rng.usize(2)] + rng.usize(5) };
                        jobs.push(Job { solver: s.to_string(), pop, iters, seed: rng.next_u64() >> 1, spec });
                    }
                }
            }
        }
    }
    // Rounding-sized margins: boxes with decimal-fraction bounds, mostly 1-D and 2-D (in more dimensions a later
    // clamped move tends to overwrite a stray coordinate), objectives with the optimum on a bound or outside.
    // Every solver, populations on both sides of 12 (and 50 in thorough), every run long enough to reach the bounds.
    if args.replay.is_none() {
        let pops: &[usize] = if args.thorough() { &[5, 10, 16, 30, 50] } else { &[10, 16, 30] };
        for s in SO_SOLVERS.iter().chain(MO_SOLVERS.iter()) {
            for &pop in pops {
                // (dimension, objective family, reflection forced inexact)
                let plan: Vec<(usize, u8, bool)> = if args.thorough() {
                    let mut v = vec![];
                    for dim in 1..=3usize {
                        for kind in 4..=6u8 {
                            for rep_ in 0..(if dim == 1 { 16 } else { 4 }) {
                                v.push((dim, kind, rep_ % 2 == 0));
                            }
                        }
                    }
                    v
                } else {
                    let mut v = vec![(1usize, 5u8, true); 14];
                    v.extend([(1, 4, true), (1, 4, false), (1, 4, false), (1, 6, true), (1, 6, false)]);
                    v.extend([(2, 5, true), (2, 5, true), (2, 4 + rng.below(3) as u8, false), (3, 5, false)]);
                    v
                };
                for (dim, kind, force) in plan {
                    let spec = gen_decimal_spec(&mut rng, dim, kind, force);
                    jobs.push(Job { solver: s.to_string(), pop, iters: 12 + rng.usize(30), seed: rng.next_u64() >> 1, spec });
                }
            }
        }
    }
    let results = run_children(&args, &jobs, 4, if args.thorough() { 2400 } else { 200 });

    let mut req: Vec<String> = vec![];
    let mut req_job: Vec<usize> = vec![];
    let mut pending: Vec<(usize, String, String)> = vec![]; // job, signature, what  (violations found without the driver)
    for (ji, (j, rs)) in jobs.iter().zip(results.iter()).enumerate() {
        let r1 = &rs[0];
        let jl = show_job(j);
        rep.case(&jl, nontrivial(&j.spec));
        let status = r1.split(' ').next().unwrap_or("?").to_string();
        rep.count(&format!("solver:{}:{}", j.solver, status));
        if rep.samples.len() < 4 && nontrivial(&j.spec) && status != "panic" && ji % 37 == 0 {
            rep.sample(json!({"job": jl, "result_threads1": r1}));
        }
        let shape = if is_degenerate(&j.spec) { "degenerate-bounds" } else { "proper-bounds" };
        rep.count(&format!("pop:{}", j.pop));
        if let Some(pi) = (1..3).find(|&pi| rs[pi] != *r1) {
            // first pool whose result differs from the 1-thread run
            let dead = |r: &str| r.starts_with("hang-or-abort") || r.starts_with("not-run");
            let kind = if dead(r1) || dead(&rs[pi]) { "hang" } else { "thread-count" };
            pending.push((
                ji,
                format!("{}:{}:{}", kind, j.solver, shape),
                format!("same seed, different result with {} and {} rayon threads\n{}: {}\n{}: {}", POOLS[0].0, POOLS[pi].0, POOLS[0].0, r1, POOLS[pi].0, rs[pi]),
            ));
            continue;
        }
        if rs[3] != rs[2] {
            pending.push((ji, format!("same-pool:{}:{}", j.solver, shape), format!("same seed run twice in the same 8-thread pool gave different results\n8 : {}\n8b: {}", rs[2], rs[3])));
            continue;
        }
        match status.as_str() {
            "so" => {
                let f: Vec<&str> = r1.split(' ').collect();
                let mut nan = false;
                let line = format!(
                    "so {} {} {} {} {} {}",
                    keys_csv(&j.spec.lo),
                    keys_csv(&j.spec.hi),
                    keys_of_bits_csv(f[1], &mut nan),
                    keys_of_bits_csv(f[2], &mut nan),
                    keys_of_bits_csv(f[3], &mut nan),
                    keys_of_bits_csv(f[4], &mut nan)
                );
                if nan {
                    pending.push((ji, format!("nan:{}:{}", j.solver, shape), format!("NaN in the result: {}", r1)));
                } else {
                    req.push(line);
                    req_job.push(ji);
                }
            }
            "mo" => {
                let f: Vec<&str> = r1.split(' ').collect();
                let mut nan = false;
                let front = if f[1] == "-" {
                    "-".to_string()
                } else {
                    f[1].split(';')
                        .map(|ind| ind.split('|').map(|part| keys_of_bits_csv(part, &mut nan)).collect::<Vec<_>>().join("|"))
                        .collect::<Vec<_>>()
                        .join(";")
                };
                if nan {
                    pending.push((ji, format!("nan:{}:{}", j.solver, shape), format!("NaN in the result: {}", r1)));
                } else {
                    req.push(format!("mo {} {} {}", keys_csv(&j.spec.lo), keys_csv(&j.spec.hi), front));
                    req_job.push(ji);
                }
            }
            "panic" => {
                let msg = r1.splitn(2, ' ').nth(1).unwrap_or("");
                let cls = if msg.contains("empty_range") { "empty-range" } else if msg.contains("partial_cmp") || msg.contains("None") { "unwrap-none" } else { "other" };
                pending.push((ji, format!("panic:{}:{}", cls, shape), format!("solver {} panicked: {}", j.solver, msg)));
            }
            other => pending.push((ji, format!("{}:{}:{}", other, j.solver, shape), format!("solver did not return: {}", r1))),
        }
    }
    let verdicts = driver::par_batch(&exe, &req, 8);
    for ((ji, line), v) in req_job.iter().zip(req.iter()).zip(verdicts.iter()) {
        if v != "ok" {
            let j = &jobs[*ji];
            let shape = if is_degenerate(&j.spec) { "degenerate-bounds" } else { "proper-bounds" };
            let cls = v.strip_prefix("viol ").unwrap_or("driver-rejected");
            pending.push((*ji, format!("{}:{}:{}", cls, j.solver, shape), format!("Lean predicate failed ({}) on the result\nrequest {}", v, line)));
        }
    }
    for (ji, sig, what) in pending {
        rep.count(&format!("spec_violation:{}", sig));
        let j = &jobs[ji];
        rep.spec_violation(&known, &sig, &format!("{}: {}", j.solver, what.lines().next().unwrap_or("")), &format!("job {}\n{}", show_job(j), what));
    }
    if let Some((name, body)) = first_break {
        if rep.spec_violations.is_empty() {
            rep.correspondence_break(&name, "a shared decision function of samyama_optimization and its Lean model disagree", &body);
        }
    }
    rep.write(&args.out);
}
