//! C23 — RESP and HTTP run every supported statement like the engine does.
//!
//! Every case is one statement, given as a token sequence (words / quoted text / punctuation,
//! each followed by a separator) which the **Lean model renders** to text (`drv_route render`),
//! so the inputs are exactly the renderings the theorems of `Props/C23.lean` quantify over.
//! The text is run three ways on three identically seeded stores — `MutQueryExecutor`
//! directly, `CommandHandler::handle_command` (RESP values built in-process) and the shipped
//! axum router (`tower::ServiceExt::oneshot`) — and outcomes (canonical rows or error class)
//! and full id-free store dumps are compared by the executable specification `specFront`
//! (evaluated by the Lean driver on the implementation's observations).  Independently the
//! planner's `is_write` (observed as the read executor's refusal) is compared with the model's
//! `routeNew`.
#[path = "front/mod.rs"]
mod front;
use front::*;
use serde_json::json;
use std::sync::Arc;
use tokio::sync::RwLock;
use vharness::{driver, Args, Known, Report, Rng};

const SEED: &[&str] = &[
    "CREATE (a:P {id: 1, name: 'a'})",
    "CREATE (b:P {id: 2, name: 'b'})",
    "CREATE (c:P {id: 3, name: ' SET '})",
    "CREATE (d:Q {id: 4, name: 'create'})",
    "MATCH (a:P {id: 1}), (b:P {id: 2}) CREATE (a)-[:R {w: 1}]->(b)",
];

/// (statement, is a write).  A single blank is a *flexible* gap (rendered with the case's
/// separator style); tokens written without a blank stay glued.
const TEMPLATES: &[(&str, bool)] = &[
    // reads, every leading clause
    ("MATCH (n:P) RETURN n.id", false),
    ("MATCH (n:P) WHERE n.id > 1 RETURN n.id, n.name", false),
    ("MATCH (n:P) WHERE n.name = ' SET ' RETURN n.id", false),
    ("MATCH (n:Q) WHERE n.name = \"create\" RETURN n.id", false),
    ("MATCH (a:P)-[r:R]->(b:P) RETURN a.id, r.w, b.id", false),
    ("OPTIONAL MATCH (n:Nope) RETURN n.id", false),
    ("OPTIONAL MATCH (n:P) RETURN count(n) AS c", false),
    ("UNWIND [1, 2, 3] AS x RETURN x", false),
    ("UNWIND [1, 2] AS x MATCH (n:P) WHERE n.id = x RETURN n.name", false),
    ("WITH 1 AS x RETURN x", false),
    ("WITH 2 AS x MATCH (n:P) WHERE n.id = x RETURN n.name", false),
    ("CALL db.labels() YIELD label RETURN label", false),
    ("RETURN ' DELETE ' AS s", false),
    ("RETURN 1 AS one", false),
    ("MATCH (n:P) WITH n WHERE n.id < 3 RETURN count(n) AS c", false),
    // writes led by a write keyword
    ("CREATE (n:L {k: 1})", true),
    ("CREATE (n:L {k: 1}) RETURN n.k", true),
    ("CREATE (a:L {k: 1})-[:T {w: 2}]->(b:L {k: 2})", true),
    ("MERGE (n:P {id: 1})", true),
    ("MERGE (n:M {id: 9}) ON CREATE SET n.c = 1 RETURN n.c", true),
    ("MERGE (n:P {id: 2}) ON MATCH SET n.seen = 1", true),
    ("FOREACH (x IN [1, 2] | CREATE (:L {k: x}))", true),
    // writes led by a reading clause
    ("MATCH (n:P) SET n.x = 1", true),
    ("MATCH (n:P) SET n.x = 1 RETURN n.x", true),
    ("MATCH (n:P) WHERE n.id = 2 SET n.name = 'z', n.y = 7", true),
    ("MATCH (n:P) SET n:Extra", true),
    ("MATCH (n:P) SET n += {m: 5}", true),
    ("MATCH (n:P) REMOVE n.name", true),
    ("MATCH (n:P) REMOVE n.name RETURN n.id", true),
    ("MATCH (n:P) WHERE n.id = 3 REMOVE n:P", true),
    ("MATCH (n:Q) DELETE n", true),
    ("MATCH (n:P) WHERE n.id = 1 DETACH DELETE n", true),
    ("MATCH (n:P) DETACH DELETE n", true),
    ("MATCH (a:P)-[r:R]->(b:P) DELETE r", true),
    ("MATCH (a:P {id: 2}), (b:P {id: 3}) CREATE (a)-[:R {w: 9}]->(b)", true),
    ("MATCH (n:P) CREATE (m:L {src: n.id})", true),
    ("MATCH (n:P) MERGE (m:M {id: n.id})", true),
    ("MATCH (n:P) FOREACH (x IN [1] | SET n.f = x)", true),
    ("MATCH (n:P) WITH n WHERE n.id > 1 SET n.big = 1", true),
    ("OPTIONAL MATCH (n:P) SET n.o = 1", true),
    ("OPTIONAL MATCH (n:P) WHERE n.id = 1 DETACH DELETE n", true),
    ("UNWIND [1] AS x CREATE (:L)", true),
    ("UNWIND [1, 2] AS x CREATE (:L {k: x})", true),
    ("UNWIND [1, 2] AS x CREATE (n:L {k: x}) RETURN n.k", true),
    ("UNWIND [7, 8] AS x MERGE (m:M {id: x})", true),
    ("UNWIND [1, 2] AS x MATCH (n:P) WHERE n.id = x SET n.u = x", true),
    ("UNWIND [1] AS x MATCH (n:P) WHERE n.id = x DETACH DELETE n", true),
    ("WITH 5 AS x CREATE (:L {k: x})", true),
    ("WITH 1 AS x MATCH (n:P) WHERE n.id = x SET n.w = x", true),
    ("WITH 1 AS x MATCH (n:P) WHERE n.id = x REMOVE n.name", true),
    ("CREATE (a:L {k: 1}) WITH a CREATE (b:L {k: 2})", true),
];

const KEYWORDS: &[&str] = &[
    "MATCH", "OPTIONAL", "UNWIND", "WITH", "CALL", "YIELD", "CREATE", "MERGE", "FOREACH", "SET", "REMOVE", "DELETE",
    "DETACH", "RETURN", "WHERE", "AS", "IN", "ON", "AND",
];
const WRITE_LEADS: &[&str] = &["CREATE", "MERGE", "FOREACH", "SET", "DELETE", "DETACH", "REMOVE"];

#[derive(Clone, Debug)]
enum T {
    Word(String),
    Str(char, String),
    Sym(char),
}

/// tokens of a template and, after each, whether the gap was a blank (flexible)
fn tokenize(s: &str) -> Vec<(T, bool)> {
    let cs: Vec<char> = s.chars().collect();
    let mut out: Vec<(T, bool)> = vec![];
    let mut i = 0;
    while i < cs.len() {
        let c = cs[i];
        if c == ' ' {
            if let Some(l) = out.last_mut() {
                l.1 = true;
            }
            i += 1;
        } else if c.is_ascii_alphanumeric() || c == '_' {
            let mut w = String::new();
            while i < cs.len() && (cs[i].is_ascii_alphanumeric() || cs[i] == '_') {
                w.push(cs[i]);
                i += 1;
            }
            out.push((T::Word(w), false));
        } else if c == '\'' || c == '"' || c == '`' {
            let mut b = String::new();
            i += 1;
            while i < cs.len() && cs[i] != c {
                b.push(cs[i]);
                i += 1;
            }
            i += 1;
            out.push((T::Str(c, b), false));
        } else {
            out.push((T::Sym(c), false));
            i += 1;
        }
    }
    out
}

#[derive(Clone, Copy, Debug, PartialEq)]
enum CaseStyle {
    Upper,
    Lower,
    Mixed,
    Random,
}
#[derive(Clone, Copy, Debug, PartialEq)]
enum SepStyle {
    Space,
    Tab,
    Lf,
    Crlf,
    Tight,
    Random,
}

fn recase(w: &str, st: CaseStyle, rng: &mut Rng) -> String {
    if !KEYWORDS.contains(&w.to_uppercase().as_str()) {
        return w.to_string();
    }
    w.chars()
        .enumerate()
        .map(|(i, c)| {
            let upper = match st {
                CaseStyle::Upper => true,
                CaseStyle::Lower => false,
                CaseStyle::Mixed => i % 2 == 1,
                CaseStyle::Random => rng.chance(1, 2),
            };
            if upper {
                c.to_ascii_uppercase()
            } else {
                c.to_ascii_lowercase()
            }
        })
        .collect()
}

const GLUE: &str = "()[]{},=:.|<>-+";

/// items line for the Lean driver + which separators were used
fn items(toks: &[(T, bool)], cs: CaseStyle, ss: SepStyle, rng: &mut Rng) -> (String, bool) {
    let mut parts = vec![];
    let mut nonspace = false;
    for (k, (t, flex)) in toks.iter().enumerate() {
        let tok = match t {
            T::Word(w) => format!("W{}", hex(&recase(w, cs, rng))),
            T::Str(q, b) => format!("S{:02x}{}", *q as u32, hex(b)),
            T::Sym(c) => format!("Y{:02x}", *c as u32),
        };
        let last = k + 1 == toks.len();
        let sep = if !*flex || last {
            // trailing whitespace after the statement, sometimes
            if last && ss == SepStyle::Random && rng.chance(1, 4) {
                'l'
            } else {
                'n'
            }
        } else {
            let can_glue = |t: &T| matches!(t, T::Sym(c) if GLUE.contains(*c));
            let gluable = can_glue(t) || can_glue(&toks[k + 1].0);
            match ss {
                SepStyle::Space => 's',
                SepStyle::Tab => 't',
                SepStyle::Lf => 'l',
                SepStyle::Crlf => 'c',
                SepStyle::Tight => {
                    if gluable {
                        'n'
                    } else {
                        's'
                    }
                }
                SepStyle::Random => {
                    let r = rng.usize(if gluable { 6 } else { 5 });
                    ['s', 't', 'l', 'c', 's', 'n'][r]
                }
            }
        };
        if sep != 's' && sep != 'n' || (sep == 'n' && *flex && !last) {
            nonspace = true;
        }
        parts.push(format!("{}:{}", tok, sep));
    }
    (parts.join(","), nonspace)
}

struct Case {
    label: String,
    /// driver request that yields the text and the model's verdicts
    request: String,
    is_write_tpl: Option<bool>,
    nonspace: bool,
    lead: String,
}

struct Run {
    pre: String,
    eng: Outcome,
    eng_post: String,
    resp: Outcome,
    resp_post: String,
    http: Outcome,
    http_post: String,
    plan_write: Option<bool>,
}

fn run_case(rt: &tokio::runtime::Runtime, text: &str) -> Run {
    let mut s_eng = seeded_store(SEED);
    let pre = dump(&s_eng);
    let plan_write = plan_is_write(&s_eng, text);
    let eng = run_engine(&mut s_eng, text);
    let eng_post = dump(&s_eng);

    let s_resp: Shared = Arc::new(RwLock::new(seeded_store(SEED)));
    let s_http: Shared = Arc::new(RwLock::new(seeded_store(SEED)));
    let handler = new_handler(None);
    let (resp, resp_post, http, http_post) = rt.block_on(async {
        let r = run_resp(&handler, &s_resp, text).await;
        let rp = dump(&*s_resp.read().await);
        let (st, body) = run_http(&s_http, None, text).await;
        let hp = dump(&*s_http.read().await);
        (resp_outcome(&r), rp, http_outcome(st, &body), hp)
    });
    Run { pre, eng, eng_post, resp, resp_post, http, http_post, plan_write }
}

fn h(s: &str) -> String {
    format!("{:016x}", vharness::util::fnv(s))
}

fn main() {
    let args = Args::parse();
    let known = Known::load(&args.known, "C23");
    let mut rep = Report::new(
        "C23",
        "one statement (token sequence rendered by the Lean model) run on MutQueryExecutor, CommandHandler::handle_command and the axum router over identically seeded stores; \
         non-trivial = the engine accepts it, it has a write clause, and its leading clause is not a write keyword or some separator is not a single space; \
         distinct = distinct statement text",
        &args.replays,
        args.seed,
    );
    let exe = args.driver_exe("drv_route");
    let rt = tokio::runtime::Builder::new_current_thread().enable_all().build().unwrap();
    // `Rng::new(s)` and `Rng::new(s + 1)` are the same stream shifted by one draw; fork once so
    // that consecutive seeds give unrelated cases
    let mut rng = Rng::new(args.seed).fork();

    // ---- cases -------------------------------------------------------------------------
    let mut cases: Vec<Case> = vec![];
    let mut files: Vec<std::path::PathBuf> = vec![];
    if let Some(r) = &args.replay {
        files.push(r.clone());
    } else if let Ok(rd) = std::fs::read_dir(args.corpus.join("C23")) {
        files = rd.filter_map(|e| e.ok().map(|e| e.path())).collect();
        files.sort();
    }
    for f in &files {
        for line in std::fs::read_to_string(f).unwrap_or_default().lines() {
            let line = line.trim_end_matches('\n');
            if let Some(q) = line.strip_prefix("q ") {
                let text = unescape(q);
                let lead = text.trim().split(|c: char| !c.is_ascii_alphanumeric()).next().unwrap_or("").to_uppercase();
                cases.push(Case { label: format!("corpus:{}", q), request: format!("route {}", hex(&text)), is_write_tpl: None, nonspace: text.contains(['\n', '\t', '\r']), lead });
            }
        }
    }
    rep.count_n("corpus_statements", cases.len() as u64);

    if args.replay.is_none() {
        let toks: Vec<Vec<(T, bool)>> = TEMPLATES.iter().map(|(s, _)| tokenize(s)).collect();
        let lead_of = |t: &Vec<(T, bool)>| match &t[0].0 {
            T::Word(w) => w.to_uppercase(),
            _ => "?".into(),
        };
        // exhaustive: every template x keyword case x uniform separator style
        for (ti, t) in toks.iter().enumerate() {
            for cs in [CaseStyle::Upper, CaseStyle::Lower, CaseStyle::Mixed] {
                for ss in [SepStyle::Space, SepStyle::Tab, SepStyle::Lf, SepStyle::Crlf, SepStyle::Tight] {
                    let (it, nonspace) = items(t, cs, ss, &mut rng);
                    cases.push(Case {
                        label: format!("t{} {:?} {:?}", ti, cs, ss),
                        request: format!("render {}", it),
                        is_write_tpl: Some(TEMPLATES[ti].1),
                        nonspace,
                        lead: lead_of(t),
                    });
                }
            }
        }
        rep.exhaustive = true;
        rep.exhaustive_note = format!(
            "all {} statement templates (leading clause MATCH / OPTIONAL MATCH / UNWIND / WITH / CALL / RETURN / CREATE / MERGE / FOREACH) x keyword case {{upper, lower, alternating}} x separator {{space, tab, LF, CRLF, none-next-to-punctuation}}; plus PRNG cases with per-letter case and per-gap separators (not exhaustive)",
            TEMPLATES.len()
        );
        let n_rand = if args.thorough() { 12_000 } else { 900 };
        for _ in 0..n_rand {
            let ti = rng.usize(toks.len());
            let (it, nonspace) = items(&toks[ti], CaseStyle::Random, SepStyle::Random, &mut rng);
            cases.push(Case {
                label: format!("t{} random", ti),
                request: format!("render {}", it),
                is_write_tpl: Some(TEMPLATES[ti].1),
                nonspace,
                lead: lead_of(&toks[ti]),
            });
        }
    }

    // ---- model: render + verdicts ------------------------------------------------------
    let reqs: Vec<String> = cases.iter().map(|c| c.request.clone()).collect();
    let replies = driver::par_batch(&exe, &reqs, 8);

    struct Ev {
        text: String,
        m_write: bool,
        leg_resp: bool,
        leg_http: bool,
        run: Run,
    }
    let mut evs: Vec<Option<Ev>> = vec![];
    let mut spec_reqs: Vec<String> = vec![];
    for (c, r) in cases.iter().zip(replies.iter()) {
        let f: Vec<&str> = r.split(' ').collect();
        let (text, m_write, lr, lh) = if c.request.starts_with("render ") {
            if f.len() != 7 || f[0] != "ok" || f[1] != "1" {
                // the harness produced a token sequence the model does not accept: a harness bug
                rep.correspondence_break("generator produces valid token sequences", &format!("driver answered `{}`", r), &format!("{}\n{}", c.label, c.request));
                evs.push(None);
                spec_reqs.push("noop".into());
                continue;
            }
            // hasWriteClause (f[3]) and routeNew (f[4]) agree by C23_route_reads_tokens
            assert_eq!(f[3], f[4], "model: hasWriteClause != routeNew on a valid rendering: {}", c.request);
            (unhex(f[2]), f[4] == "1", f[5] == "1", f[6] == "1")
        } else {
            if f.len() != 4 || f[0] != "ok" {
                panic!("driver rejected corpus line {}: {}", c.label, r);
            }
            (unhex(c.request.strip_prefix("route ").unwrap()), f[1] == "1", f[2] == "1", f[3] == "1")
        };
        let run = run_case(&rt, &text);
        spec_reqs.push(format!(
            "spec {} {} {} {} {} {} {} {} {} {}",
            m_write as u8,
            h(&run.pre),
            h(&run.eng.canon),
            h(&run.eng_post),
            h(&run.resp.canon),
            h(&run.resp_post),
            run.resp.refused as u8,
            h(&run.http.canon),
            h(&run.http_post),
            run.http.refused as u8
        ));
        evs.push(Some(Ev { text, m_write, leg_resp: lr, leg_http: lh, run }));
    }
    let spec_replies = driver::par_batch(&exe, &spec_reqs, 8);

    // ---- verdicts ----------------------------------------------------------------------
    let mut first_break: Option<(String, String)> = None;
    for ((c, ev), s) in cases.iter().zip(evs.iter()).zip(spec_replies.iter()) {
        let Some(ev) = ev else { continue };
        let run = &ev.run;
        let accepted = !run.eng.is_err;
        let lead_is_write = WRITE_LEADS.contains(&c.lead.as_str());
        let nontrivial = accepted && ev.m_write && (!lead_is_write || c.nonspace);
        rep.case(&ev.text, nontrivial);
        rep.count(&format!("lead:{}", c.lead));
        rep.count(if ev.m_write { "kind:write" } else { "kind:read" });
        rep.count(if accepted {
            "engine:accepted"
        } else if run.eng.is_parse_err {
            "engine:parse-error"
        } else {
            "engine:runtime-error"
        });
        if ev.m_write && !ev.leg_resp {
            rep.count("legacy-resp-would-misroute");
        }
        if ev.m_write && !ev.leg_http {
            rep.count("legacy-http-would-misroute");
        }
        if run.eng_post != run.pre {
            rep.count("engine:graph-changed");
        }
        if nontrivial && rep.samples.len() < 4 {
            rep.sample(json!({"statement": escape(&ev.text), "engine": run.eng.canon, "resp": run.resp.canon, "http": run.http.canon, "graph_changed": run.eng_post != run.pre}));
        }
        let body = format!(
            "q {}\n# {}\n# model: hasWrite={} legacyResp={} legacyHttp={}; planner is_write={:?}\n# pre        {}\n# engine     {}\n#   post     {}\n# resp       {}\n#   post     {}\n# http       {}\n#   post     {}\n# spec       {}",
            escape(&ev.text), c.label, ev.m_write, ev.leg_resp, ev.leg_http, run.plan_write, run.pre, run.eng.canon, run.eng_post, run.resp.canon, run.resp_post, run.http.canon, run.http_post, s
        );
        if s != "ok" {
            let code: u32 = s.strip_prefix("viol ").and_then(|x| x.parse().ok()).unwrap_or(0);
            let fe = match code {
                1 | 2 | 6 => "resp",
                3 | 4 | 7 => "http",
                5 => "read-modifies",
                _ => "driver-rejected",
            };
            let refused = (fe == "resp" && run.resp.refused) || (fe == "http" && run.http.refused);
            let why = if refused {
                // structural class of the statement that was refused
                if !lead_is_write && c.nonspace {
                    "write-after-read-clause+non-space-separator"
                } else if !lead_is_write {
                    "write-after-read-clause"
                } else {
                    "non-space-separator"
                }
            } else if code == 2 || code == 4 {
                "graph-differs"
            } else {
                "outcome-differs"
            };
            let sig = format!("{}:{}:{}", fe, if refused { "write-refused" } else { "mismatch" }, why);
            rep.count(&format!("spec_violation:{}", sig));
            rep.spec_violation(&known, &sig, &format!("front end disagrees with the engine on `{}` ({})", escape(&ev.text), s), &body);
        } else {
            // R vs M: the planner's verdict against the model's word scan
            if let Some(pw) = run.plan_write {
                if pw != ev.m_write {
                    rep.count("model_mismatch:is_write");
                    if first_break.is_none() {
                        first_break = Some(("routeNew = ExecutionPlan::is_write (read executor refusal)".into(), body.clone()));
                    }
                }
            }
            if let Some(tw) = c.is_write_tpl {
                if tw != ev.m_write {
                    rep.count("model_mismatch:template");
                    if first_break.is_none() {
                        first_break = Some(("hasWriteClause = the template's declared kind".into(), body.clone()));
                    }
                }
            }
        }
    }
    if let Some((name, body)) = first_break {
        if rep.spec_violations.is_empty() {
            rep.correspondence_break(&name, "model and implementation disagree on whether the statement is a write, but the specification holds on all explored cases", &body);
        }
    }
    rep.write(&args.out);
}
