//! C23 — RESP and HTTP run every supported statement like the engine does.
//!
//! Every case is one statement, given as a token sequence (words / quoted text / punctuation,
//! each followed by a separator) which the **Lean model renders** to text (`drv_route render`),
//! so the inputs are exactly the renderings the theorems of `Props/C23.lean` quantify over.
//! The text is run three ways on three identically seeded stores — `MutQueryExecutor`
//! directly, `CommandHandler::handle_command` (RESP values built in-process) and the shipped
//! axum router (`tower::ServiceExt::oneshot`) — and outcomes (canonical rows or error class)
//! and full id-free store dumps are compared by the executable specification `specFront`
//! (evaluated by the Lean driver on the implementation's observations).  Independently the
//! planner's `is_write` (observed as the read executor's refusal) is compared with the model's
//! `routeNew`.
#[path = "front/mod.rs"]
mod front;
use front::*;
use serde_json::json;
use std::sync::Arc;
use tokio::sync::RwLock;
use vharness::{driver, Args, Known, Report, Rng};

const SEED: &[&str] = &[
    "CREATE (a:P {id: 1, name: 'a'})",
    "CREATE (b:P {id: 2, name: 'b'})",
    "CREATE (c:P {id: 3, name: ' SET '})",
    "CREATE (d:Q {id: 4, name: 'create'})",
    "MATCH (a:P {id: 1}), (b:P {id: 2}) CREATE (a)-[:R {w: 1}]->(b)",
];

/// (statement, is a write).  A single blank is a *flexible* gap (rendered with the case's
/// separator style); tokens written without a blank stay glued.
const TEMPLATES: &[(&str, bool)] = &[
    // reads, every leading clause
    ("MATCH (n:P) RETURN n.id", false),
    ("MATCH (n:P) WHERE n.id > 1 RETURN n.id, n.name", false),
    ("MATCH (n:P) WHERE n.name = ' SET ' RETURN n.id", false),
    ("MATCH (n:Q) WHERE n.name = \"create\" RETURN n.id", false),
    ("MATCH (a:P)-[r:R]->(b:P) RETURN a.id, r.w, b.id", false),
    ("OPTIONAL MATCH (n:Nope) RETURN n.id", false),
    ("OPTIONAL MATCH (n:P) RETURN count(n) AS c", false),
    ("UNWIND [1, 2, 3] AS x RETURN x", false),
    ("UNWIND [1, 2] AS x MATCH (n:P) WHERE n.id = x RETURN n.name", false),
    ("WITH 1 AS x RETURN x", false),
    ("WITH 2 AS x MATCH (n:P) WHERE n.id = x RETURN n.name", false),
    ("CALL db.labels() YIELD label RETURN label", false),
    ("RETURN ' DELETE ' AS s", false),
    ("RETURN 1 AS one", false),
    ("MATCH (n:P) WITH n WHERE n.id < 3 RETURN count(n) AS c", false),
    // writes led by a write keyword
    ("CREATE (n:L {k: 1})", true),
    ("CREATE (n:L {k: 1}) RETURN n.k", true),
    ("CREATE (a:L {k: 1})-[:T {w: 2}]->(b:L {k: 2})", true),
    ("MERGE (n:P {id: 1})", true),
    ("MERGE (n:M {id: 9}) ON CREATE SET n.c = 1 RETURN n.c", true),
    ("MERGE (n:P {id: 2}) ON MATCH SET n.seen = 1", true),
    ("FOREACH (x IN [1, 2] | CREATE (:L {k: x}))", true),
    // writes led by a reading clause
    ("MATCH (n:P) SET n.x = 1", true),
    ("MATCH (n:P) SET n.x = 1 RETURN n.x", true),
    ("MATCH (n:P) WHERE n.id = 2 SET n.name = 'z', n.y = 7", true),
    ("MATCH (n:P) SET n:Extra", true),
    ("MATCH (n:P) SET n += {m: 5}", true),
    ("MATCH (n:P) REMOVE n.name", true),
    ("MATCH (n:P) REMOVE n.name RETURN n.id", true),
    ("MATCH (n:P) WHERE n.id = 3 REMOVE n:P", true),
    ("MATCH (n:Q) DELETE n", true),
    ("MATCH (n:P) WHERE n.id = 1 DETACH DELETE n", true),
    ("MATCH (n:P) DETACH DELETE n", true),
    ("MATCH (a:P)-[r:R]->(b:P) DELETE r", true),
    ("MATCH (a:P {id: 2}), (b:P {id: 3}) CREATE (a)-[:R {w: 9}]->(b)", true),
    ("MATCH (n:P) CREATE (m:L {src: n.id})", true),
    ("MATCH (n:P) MERGE (m:M {id: n.id})", true),
    ("MATCH (n:P) FOREACH (x IN [1] | SET n.f = x)", true),
    ("MATCH (n:P) WITH n WHERE n.id > 1 SET n.big = 1", true),
    ("OPTIONAL MATCH (n:P) SET n.o = 1", true),
    ("OPTIONAL MATCH (n:P) WHERE n.id = 1 DETACH DELETE n", true),
    ("UNWIND [1] AS x CREATE (:L)", true),
    ("UNWIND [1, 2] AS x CREATE (:L {k: x})", true),
    ("UNWIND [1, 2] AS x CREATE (n:L {k: x}) RETURN n.k", true),
    ("UNWIND [7, 8] AS x MERGE (m:M {id: x})", true),
    ("UNWIND [1, 2] AS x MATCH (n:P) WHERE n.id = x SET n.u = x", true),
    ("UNWIND [1] AS x MATCH (n:P) WHERE n.id = x DETACH DELETE n", true),
    ("WITH 5 AS x CREATE (:L {k: x})", true),
    ("WITH 1 AS x MATCH (n:P) WHERE n.id = x SET n.w = x", true),
    ("WITH 1 AS x MATCH (n:P) WHERE n.id = x REMOVE n.name", true),
    ("CREATE (a:L {k: 1}) WITH a CREATE (b:L {k: 2})", true),
    // write statements that return rows / whole entities
    ("CREATE (n:L {k: 1}) RETURN n", true),
    ("CREATE (a:L {k: 1})-[r:T {w: 2}]->(b:L {k: 2}) RETURN a, r, b", true),
    ("MATCH (n:P) WHERE n.id = 1 SET n.v = 7 RETURN n", true),
    ("MATCH (n:P) SET n.v = n.id RETURN n.id, n.v", true),
    ("MERGE (n:P {id: 3}) RETURN n.name", true),
    ("MATCH (n:P) WHERE n.id = 2 DETACH DELETE n RETURN count(n) AS c", true),
    // column order and names: a row is a mapping column -> value.  RETURN-less CALL … YIELD with
    // the outputs in native order, reversed, a subset, aliased; YIELD … RETURN reordered and
    // aliased; RETURN items reordered, aliased, repeated; RETURN *; writes returning several columns
    ("CALL algo.pageRank('P', 'R') YIELD node, score", false),
    ("CALL algo.pageRank('P', 'R') YIELD score, node", false),
    ("CALL algo.pageRank('P', 'R') YIELD score", false),
    ("CALL algo.pageRank('P', 'R') YIELD node", false),
    ("CALL algo.pageRank('P', 'R') YIELD node AS n, score AS s", false),
    ("CALL algo.pageRank('P', 'R') YIELD node, score RETURN score, node", false),
    ("CALL algo.pageRank('P', 'R') YIELD node, score RETURN score AS s, node.id AS i, node.name", false),
    ("CALL algo.wcc() YIELD node, componentId", false),
    ("CALL algo.wcc() YIELD componentId, node", false),
    ("CALL algo.wcc() YIELD componentId, node RETURN node.id, componentId", false),
    ("CALL db.labels() YIELD label", false),
    ("MATCH (n:P) RETURN n.name, n.id", false),
    ("MATCH (n:P) RETURN n.id AS a, n.name AS b, n.id AS c", false),
    ("MATCH (n:P) RETURN n.id, n.name, n.id", false),
    ("MATCH (n:P) RETURN n.name AS id, n.id AS name", false),
    ("MATCH (a:P)-[r:R]->(b:P) RETURN b.id, r.w, a.id, a.name, b", false),
    ("MATCH (n:Q) RETURN *", false),
    ("MATCH (a:P)-[r:R]->(b:P) RETURN *", false),
    ("CREATE (n:L {k: 1, s: 'x'}) RETURN n.s, n.k, n", true),
    ("MATCH (n:P) SET n.v = n.id RETURN n.v AS v, n.name AS name, n.id AS id, n", true),
    ("MERGE (n:P {id: 2}) ON MATCH SET n.seen = 1 RETURN n.seen, n.name, n.id", true),
    ("UNWIND [1, 2] AS x CREATE (n:L {k: x}) RETURN x, n.k, n", true),
    // `;` inside quoted text: plain, after an escaped delimiter (\' and \"), in a back-quoted name
    ("CREATE (n:Note {text: 'it\\'s late; call Bob'})", true),
    ("CREATE (n:Note {text: 'it\\'s late; call Bob'}) RETURN n.text", true),
    ("CREATE (n:Note {text: \"say \\\"hi\\\"; bye\"}) RETURN n.text", true),
    ("MATCH (n:P) WHERE n.id = 1 SET n.note = 'a; b', n.q = 'c\\'; d' RETURN n.note, n.q", true),
    ("MATCH (n:P) WHERE n.name = 'x\\'; y' RETURN n.id", false),
    ("RETURN 'one; two' AS s, \"three\\\"; four\" AS t", false),
    ("MATCH (n:`P;x`) RETURN n.id", false),
    ("CREATE (n:`L;1` {k: 1}) RETURN n.k", true),
    ("MATCH (n:P) RETURN n.id AS `a;b`", false),
    // parameters: neither front end accepts a parameter map, the engine is run without one
    ("MATCH (n:P) WHERE n.id = $p RETURN n.id", false),
    ("CREATE (n:L {k: $p})", true),
    ("MATCH (n:P) SET n.v = $p", true),
];

const KEYWORDS: &[&str] = &[
    "MATCH", "OPTIONAL", "UNWIND", "WITH", "CALL", "YIELD", "CREATE", "MERGE", "FOREACH", "SET", "REMOVE", "DELETE",
    "DETACH", "RETURN", "WHERE", "AS", "IN", "ON", "AND", "EXPLAIN", "PROFILE",
];
const WRITE_LEADS: &[&str] = &["CREATE", "MERGE", "FOREACH", "SET", "DELETE", "DETACH", "REMOVE"];

#[derive(Clone, Debug)]
enum T {
    Word(String),
    Str(char, String),
    /// quoted text with escaped delimiters: the parts between the `\q`
    StrEsc(char, Vec<String>),
    Sym(char),
    /// `// …` up to the line feed
    Line(String),
    /// `/* … */`
    Block(String),
}

/// tokens of a template and, after each, whether the gap was a blank (flexible)
fn tokenize(s: &str) -> Vec<(T, bool)> {
    let cs: Vec<char> = s.chars().collect();
    let mut out: Vec<(T, bool)> = vec![];
    let mut i = 0;
    while i < cs.len() {
        let c = cs[i];
        if c == ' ' {
            if let Some(l) = out.last_mut() {
                l.1 = true;
            }
            i += 1;
        } else if c.is_ascii_alphanumeric() || c == '_' {
            let mut w = String::new();
            while i < cs.len() && (cs[i].is_ascii_alphanumeric() || cs[i] == '_') {
                w.push(cs[i]);
                i += 1;
            }
            out.push((T::Word(w), false));
        } else if c == '\'' || c == '"' || c == '`' {
            let mut parts = vec![String::new()];
            i += 1;
            while i < cs.len() && cs[i] != c {
                if cs[i] == '\\' && i + 1 < cs.len() && cs[i + 1] == c {
                    // escaped delimiter: a new part
                    parts.push(String::new());
                    i += 2;
                    continue;
                }
                parts.last_mut().unwrap().push(cs[i]);
                i += 1;
            }
            i += 1;
            if parts.len() == 1 {
                out.push((T::Str(c, parts.pop().unwrap()), false));
            } else {
                out.push((T::StrEsc(c, parts), false));
            }
        } else {
            out.push((T::Sym(c), false));
            i += 1;
        }
    }
    out
}

#[derive(Clone, Copy, Debug, PartialEq)]
enum CaseStyle {
    Upper,
    Lower,
    Mixed,
    Random,
}
#[derive(Clone, Copy, Debug, PartialEq)]
enum SepStyle {
    Space,
    Tab,
    Lf,
    Crlf,
    Tight,
    Random,
}

fn recase(w: &str, st: CaseStyle, rng: &mut Rng) -> String {
    if !KEYWORDS.contains(&w.to_uppercase().as_str()) {
        return w.to_string();
    }
    w.chars()
        .enumerate()
        .map(|(i, c)| {
            let upper = match st {
                CaseStyle::Upper => true,
                CaseStyle::Lower => false,
                CaseStyle::Mixed => i % 2 == 1,
                CaseStyle::Random => rng.chance(1, 2),
            };
            if upper {
                c.to_ascii_uppercase()
            } else {
                c.to_ascii_lowercase()
            }
        })
        .collect()
}

const GLUE: &str = "()[]{},=:.|<>-+";

/// what the grammar allows around a statement
#[derive(Clone, Debug, Default)]
struct Wrap {
    /// whitespace before everything (separator letters)
    lead: String,
    /// comments before the statement: (line comment?, text)
    comments: Vec<(bool, String)>,
    /// `EXPLAIN` / `PROFILE`
    prefix: Option<&'static str>,
    /// comment between the prefix and the statement
    inner_comment: Option<(bool, String)>,
    /// comment between two tokens of the statement (at the n-th blank of the template)
    mid_comment: Option<(usize, bool, String)>,
    semicolon: bool,
    /// comment after the closing `;` (or after the statement)
    tail_comment: Option<(bool, String)>,
}

impl Wrap {
    fn tag(&self) -> String {
        format!(
            "{}{}{}{}{}",
            if self.lead.is_empty() { "" } else { "+lead-ws" },
            if self.comments.is_empty() { "" } else { "+comment" },
            match self.prefix {
                Some(p) => format!("+{}", p.to_lowercase()),
                None => String::new(),
            },
            if self.inner_comment.is_some() { "+inner-comment" } else { "" },
            format!("{}{}{}", if self.mid_comment.is_some() { "+mid-comment" } else { "" }, if self.semicolon { "+semicolon" } else { "" }, if self.tail_comment.is_some() { "+tail-comment" } else { "" })
        )
    }
}

const COMMENT_TEXTS: &[&str] = &["note", "SET n.x = 1", " CREATE (x) ", "explain", "it's", "a-b", " readers first; writers later", "a; b", ";", " all of them; no filter "];

fn random_wrap(rng: &mut Rng) -> Wrap {
    let mut w = Wrap::default();
    if rng.chance(1, 3) {
        for _ in 0..1 + rng.usize(2) {
            w.lead.push(['s', 't', 'l', 'c'][rng.usize(4)]);
        }
    }
    if rng.chance(1, 3) {
        for _ in 0..1 + rng.usize(2) {
            w.comments.push((rng.chance(1, 2), rng.pick(COMMENT_TEXTS).to_string()));
        }
    }
    w.prefix = match rng.usize(5) {
        0 => Some("EXPLAIN"),
        1 | 2 => Some("PROFILE"),
        _ => None,
    };
    if w.prefix.is_some() && rng.chance(1, 5) {
        w.inner_comment = Some((rng.chance(1, 2), rng.pick(COMMENT_TEXTS).to_string()));
    }
    if rng.chance(1, 4) {
        w.mid_comment = Some((rng.usize(6), rng.chance(1, 2), rng.pick(COMMENT_TEXTS).to_string()));
    }
    w.semicolon = rng.chance(1, 3);
    if rng.chance(1, 4) {
        w.tail_comment = Some((rng.chance(1, 2), rng.pick(COMMENT_TEXTS).to_string()));
    }
    w
}

fn wrap_tokens(toks: &[(T, bool)], w: &Wrap) -> Vec<(T, bool)> {
    let mut out: Vec<(T, bool)> = vec![];
    let comment = |c: &(bool, String)| (if c.0 { T::Line(c.1.clone()) } else { T::Block(c.1.replace('*', "x")) }, true);
    for c in &w.comments {
        out.push(comment(c));
    }
    if let Some(p) = w.prefix {
        out.push((T::Word(p.to_string()), true));
        if let Some(c) = &w.inner_comment {
            out.push(comment(c));
        }
    }
    match &w.mid_comment {
        Some((nth, line, text)) => {
            // after the (nth mod #blanks)-th blank of the template
            let blanks: Vec<usize> = toks.iter().enumerate().filter(|(k, (_, flex))| *flex && k + 1 < toks.len()).map(|(k, _)| k).collect();
            let at = if blanks.is_empty() { None } else { Some(blanks[nth % blanks.len()]) };
            for (k, t) in toks.iter().enumerate() {
                out.push(t.clone());
                if Some(k) == at {
                    out.push(comment(&(*line, text.clone())));
                }
            }
        }
        None => out.extend(toks.iter().cloned()),
    }
    if w.semicolon {
        if let Some(l) = out.last_mut() {
            l.1 = true;
        }
        out.push((T::Sym(';'), false));
    }
    if let Some(c) = &w.tail_comment {
        if let Some(l) = out.last_mut() {
            l.1 = true;
        }
        let mut t = comment(c);
        t.1 = false;
        out.push(t);
    }
    out
}

/// items line for the Lean driver + which separators were used
fn items(toks: &[(T, bool)], cs: CaseStyle, ss: SepStyle, rng: &mut Rng) -> (String, bool) {
    let mut parts = vec![];
    let mut nonspace = false;
    for (k, (t, flex)) in toks.iter().enumerate() {
        let tok = match t {
            T::Word(w) => format!("W{}", hex(&recase(w, cs, rng))),
            T::Str(q, b) => format!("S{:02x}{}", *q as u32, hex(b)),
            T::StrEsc(q, parts) => format!("E{:02x}{}", *q as u32, parts.iter().map(|p| hex(p)).collect::<Vec<_>>().join("_")),
            T::Sym(c) => format!("Y{:02x}", *c as u32),
            T::Line(b) => format!("L{}", hex(b)),
            T::Block(b) => format!("B{}", hex(b)),
        };
        let last = k + 1 == toks.len();
        let sep = if !*flex || last {
            // trailing whitespace after the statement, sometimes
            if last && ss == SepStyle::Random && rng.chance(1, 4) {
                'l'
            } else {
                'n'
            }
        } else {
            let can_glue = |t: &T| matches!(t, T::Sym(c) if GLUE.contains(*c));
            let gluable = can_glue(t) || can_glue(&toks[k + 1].0);
            match ss {
                SepStyle::Space => 's',
                SepStyle::Tab => 't',
                SepStyle::Lf => 'l',
                SepStyle::Crlf => 'c',
                SepStyle::Tight => {
                    if gluable {
                        'n'
                    } else {
                        's'
                    }
                }
                SepStyle::Random => {
                    let r = rng.usize(if gluable { 6 } else { 5 });
                    ['s', 't', 'l', 'c', 's', 'n'][r]
                }
            }
        };
        if sep != 's' && sep != 'n' || (sep == 'n' && *flex && !last) {
            nonspace = true;
        }
        parts.push(format!("{}:{}", tok, sep));
    }
    (parts.join(","), nonspace)
}

struct Case {
    label: String,
    /// driver request that yields the text and the model's verdicts
    request: String,
    is_write_tpl: Option<bool>,
    nonspace: bool,
    /// first word of the text as sent (a clause keyword, EXPLAIN / PROFILE, or `//` for a comment)
    lead: String,
    wrap: String,
    /// per-front-end request options: RESP command name as written, HTTP explicit `graph`
    resp_name: &'static str,
    http_explicit_graph: bool,
}

struct Run {
    pre: String,
    eng: Outcome,
    eng_post: String,
    resp: Outcome,
    resp_post: String,
    http: Outcome,
    http_post: String,
    plan_write: Option<bool>,
    /// for statements that neither write nor carry a prefix: `MutQueryExecutor` on a fourth
    /// store (Engine.ReadAgree, the hypothesis of C23_front_eq_engine)
    mut_agrees: Option<bool>,
}

fn run_case(rt: &tokio::runtime::Runtime, c: &Case, text: &str, check_read_agree: bool) -> Run {
    let mut s_eng = seeded_store(SEED);
    let pre = dump(&s_eng);
    let (eng, plan_write) = run_engine_split(&mut s_eng, text);
    let eng_post = dump(&s_eng);
    let mut_agrees = if check_read_agree && plan_write == Some(false) {
        let mut s_mut = seeded_store(SEED);
        let o = run_engine(&mut s_mut, text);
        Some(o.canon == eng.canon && dump(&s_mut) == pre)
    } else {
        None
    };

    let s_resp: Shared = Arc::new(RwLock::new(seeded_store(SEED)));
    let s_http: Shared = Arc::new(RwLock::new(seeded_store(SEED)));
    let handler = new_handler(None);
    let (resp, resp_post, http, http_post) = rt.block_on(async {
        let r = run_resp_named(&handler, &s_resp, c.resp_name, text).await;
        let rp = dump(&*s_resp.read().await);
        let (st, body) = run_http_opt(&s_http, None, text, c.http_explicit_graph).await;
        let hp = dump(&*s_http.read().await);
        (resp_outcome(&r), rp, http_outcome(st, &body), hp)
    });
    Run { pre, eng, eng_post, resp, resp_post, http, http_post, plan_write, mut_agrees }
}

fn h(s: &str) -> String {
    format!("{:016x}", vharness::util::fnv(s))
}

fn first_word(text: &str) -> String {
    let t = text.trim_start();
    if t.starts_with("//") || t.starts_with("/*") {
        return "//".into();
    }
    t.split(|c: char| !c.is_ascii_alphanumeric()).next().unwrap_or("").to_uppercase()
}

fn main() {
    let args = Args::parse();
    let known = Known::load(&args.known, "C23");
    let mut rep = Report::new(
        "C23",
        "one statement (token sequence rendered by the Lean model, optionally wrapped in leading whitespace / comments / EXPLAIN / PROFILE / trailing `;`) run directly on the engine (QueryEngine::execute, execute_mut for a write plan), through CommandHandler::handle_command and through the axum router over identically seeded stores; \
         non-trivial = the engine accepts it, it has a write clause, and its first word is not a write keyword or some separator is not a single space; \
         distinct = distinct statement text",
        &args.replays,
        args.seed,
    );
    let exe = args.driver_exe("drv_route");
    let rt = tokio::runtime::Builder::new_current_thread().enable_all().build().unwrap();
    // `Rng::new(s)` and `Rng::new(s + 1)` are the same stream shifted by one draw; fork once so
    // that consecutive seeds give unrelated cases
    let mut rng = Rng::new(args.seed).fork();
    // GRAPH.RO_QUERY is the same handler ("we don't enforce read-only yet", command.rs)
    const RESP_NAMES: &[&str] = &["GRAPH.QUERY", "graph.query", "GRAPH.RO_QUERY", "graph.ro_query"];

    // ---- cases -------------------------------------------------------------------------
    let mut cases: Vec<Case> = vec![];
    let mut files: Vec<std::path::PathBuf> = vec![];
    if let Some(r) = &args.replay {
        files.push(r.clone());
    } else if let Ok(rd) = std::fs::read_dir(args.corpus.join("C23")) {
        files = rd.filter_map(|e| e.ok().map(|e| e.path())).collect();
        files.sort();
    }
    for f in &files {
        for line in std::fs::read_to_string(f).unwrap_or_default().lines() {
            let line = line.trim_end_matches('\n');
            if let Some(q) = line.strip_prefix("q ") {
                let text = unescape(q);
                cases.push(Case {
                    label: format!("corpus:{}", q),
                    request: format!("route {}", hex(&text)),
                    is_write_tpl: None,
                    nonspace: text.contains(['\n', '\t', '\r']),
                    lead: first_word(&text),
                    wrap: "corpus".into(),
                    resp_name: "GRAPH.QUERY",
                    http_explicit_graph: false,
                });
            }
        }
    }
    rep.count_n("corpus_statements", cases.len() as u64);

    if args.replay.is_none() {
        let toks: Vec<Vec<(T, bool)>> = TEMPLATES.iter().map(|(s, _)| tokenize(s)).collect();
        let all_cs = [CaseStyle::Upper, CaseStyle::Lower, CaseStyle::Mixed];
        let all_ss = [SepStyle::Space, SepStyle::Tab, SepStyle::Lf, SepStyle::Crlf, SepStyle::Tight];
        let mut push = |cases: &mut Vec<Case>, rng: &mut Rng, ti: usize, w: &Wrap, cs: CaseStyle, ss: SepStyle, opts: (usize, bool), label: &str| {
            let wt = wrap_tokens(&toks[ti], w);
            let (it, nonspace) = items(&wt, cs, ss, rng);
            cases.push(Case {
                label: format!("t{} {:?} {:?} {}{}", ti, cs, ss, label, w.tag()),
                request: format!("render {} {}", if w.lead.is_empty() { "-" } else { w.lead.as_str() }, it),
                is_write_tpl: Some(TEMPLATES[ti].1),
                nonspace: nonspace || !w.lead.is_empty(),
                lead: String::new(),
                wrap: if w.tag().is_empty() { "plain".into() } else { w.tag() },
                resp_name: RESP_NAMES[opts.0],
                http_explicit_graph: opts.1,
            });
        };
        // (1) exhaustive: every template x keyword case x uniform separator style, unwrapped
        for ti in 0..toks.len() {
            for cs in all_cs {
                for ss in all_ss {
                    // the four spellings of the RESP command rotate over the styles
                    let n = cases.len();
                    push(&mut cases, &mut rng, ti, &Wrap::default(), cs, ss, (n % 4, n % 3 == 0), "");
                }
            }
        }
        // (2) every template x {EXPLAIN, PROFILE}; the 15 (case, separator) styles rotate over the
        //     templates, so every style meets every prefix and every template meets both prefixes
        let mut k = 0usize;
        for ti in 0..toks.len() {
            for p in ["EXPLAIN", "PROFILE"] {
                let w = Wrap { prefix: Some(p), ..Wrap::default() };
                push(&mut cases, &mut rng, ti, &w, all_cs[k % 3], all_ss[(k / 3) % 5], (k % 4, k % 2 == 1), "");
                k += 1;
            }
        }
        // (3) every template x one of the other wrappers (leading whitespace, // and /* */ comments
        //     holding write keywords, trailing `;`, all of them at once), rotating
        for ti in 0..toks.len() {
            let w = match ti % 9 {
                0 => Wrap { lead: "l".into(), ..Wrap::default() },
                1 => Wrap { comments: vec![(true, "SET n.x = 1".into())], ..Wrap::default() },
                2 => Wrap { comments: vec![(false, " CREATE (x) ".into())], ..Wrap::default() },
                3 => Wrap { semicolon: true, ..Wrap::default() },
                4 => Wrap { lead: "cs".into(), comments: vec![(false, "explain".into()), (true, "it's".into())], prefix: Some("PROFILE"), inner_comment: Some((true, "DELETE".into())), semicolon: true, ..Wrap::default() },
                5 => Wrap { lead: "t".into(), comments: vec![(true, "profile".into())], prefix: Some("EXPLAIN"), semicolon: true, ..Wrap::default() },
                // `;` that is text, not a separator
                6 => Wrap { mid_comment: Some((ti / 9, true, " readers first; writers later".into())), ..Wrap::default() },
                7 => Wrap { mid_comment: Some((ti / 9 + 1, false, " all of them; no filter ".into())), semicolon: ti % 2 == 0, ..Wrap::default() },
                _ => Wrap { semicolon: true, tail_comment: Some((ti % 2 == 0, " everyone; really".into())), ..Wrap::default() },
            };
            push(&mut cases, &mut rng, ti, &w, all_cs[ti % 3], all_ss[(ti / 3) % 5], (ti % 4, ti % 2 == 0), "");
            let w2 = match ti % 3 {
                0 => Wrap { mid_comment: Some((ti / 3, true, "a; b".into())), ..Wrap::default() },
                1 => Wrap { mid_comment: Some((ti / 3, false, ";".into())), ..Wrap::default() },
                _ => Wrap { semicolon: true, tail_comment: Some((ti % 2 == 1, "done; next".into())), ..Wrap::default() },
            };
            push(&mut cases, &mut rng, ti, &w2, all_cs[(ti + 1) % 3], all_ss[(ti / 3 + 2) % 5], (ti % 4, ti % 2 == 1), "");
        }
        rep.exhaustive = true;
        rep.exhaustive_note = format!(
            "all {} statement templates (first clause MATCH / OPTIONAL MATCH / UNWIND / WITH / CALL / RETURN / CREATE / MERGE / FOREACH; reads, writes, writes returning rows and entities, parameters) x keyword case {{upper, lower, alternating}} x separator {{space, tab, LF, CRLF, none-next-to-punctuation}}; every template x {{EXPLAIN, PROFILE}} and x one further wrapper (leading whitespace, // comment, /* */ comment, trailing `;`, all at once) with rotating styles; plus PRNG cases with random wrappers, per-letter case, per-gap separators and per-front-end request options (not exhaustive)",
            TEMPLATES.len()
        );
        // (4) random
        let n_rand = if args.thorough() { 12_000 } else { 250 };
        for _ in 0..n_rand {
            let ti = rng.usize(toks.len());
            let w = random_wrap(&mut rng);
            let o = (rng.usize(4), rng.chance(1, 2));
            push(&mut cases, &mut rng, ti, &w, CaseStyle::Random, SepStyle::Random, o, "random");
        }
    }

    // ---- model: render + verdicts ------------------------------------------------------
    let reqs: Vec<String> = cases.iter().map(|c| c.request.clone()).collect();
    let replies = driver::par_batch(&exe, &reqs, 8);

    struct Ev {
        text: String,
        m_write: bool,
        m_executes: bool,
        m_prefix: String,
        leg_resp: bool,
        leg_http: bool,
        veto: bool,
        run: Run,
    }
    let mut evs: Vec<Option<Ev>> = vec![];
    let mut spec_reqs: Vec<String> = vec![];
    for (c, r) in cases.iter_mut().zip(replies.iter()) {
        let f: Vec<&str> = r.split(' ').collect();
        let (text, off) = if c.request.starts_with("render ") {
            if f.len() != 10 || f[0] != "ok" || f[1] != "1" {
                // the harness produced a token sequence the model does not accept: a harness bug
                rep.correspondence_break("generator produces valid token sequences", &format!("driver answered `{}`", r), &format!("{}\n{}", c.label, c.request));
                evs.push(None);
                spec_reqs.push("noop".into());
                continue;
            }
            // hasWriteClause (f[3]) and routeNew (f[4]) agree by C23_route_reads_tokens
            assert_eq!(f[3], f[4], "model: hasWriteClause != routeNew on a valid rendering: {}", c.request);
            (unhex(f[2]), 4)
        } else {
            if f.len() != 7 || f[0] != "ok" {
                panic!("driver rejected corpus line {}: {}", c.label, r);
            }
            (unhex(c.request.strip_prefix("route ").unwrap()), 1)
        };
        let (m_write, lr, lh, m_prefix, m_executes, veto) = (f[off] == "1", f[off + 1] == "1", f[off + 2] == "1", f[off + 3].to_string(), f[off + 4] == "1", f[off + 5] == "1");
        c.lead = first_word(&text);
        let run = run_case(&rt, c, &text, !m_write && m_prefix == "n");
        spec_reqs.push(format!(
            "spec {} {} {} {} {} {} {} {} {} {}",
            m_executes as u8,
            h(&run.pre),
            h(&run.eng.canon),
            h(&run.eng_post),
            h(&run.resp.canon),
            h(&run.resp_post),
            run.resp.refused as u8,
            h(&run.http.canon),
            h(&run.http_post),
            run.http.refused as u8
        ));
        evs.push(Some(Ev { text, m_write, m_executes, m_prefix, leg_resp: lr, leg_http: lh, veto, run }));
    }
    let spec_replies = driver::par_batch(&exe, &spec_reqs, 8);

    // ---- verdicts ----------------------------------------------------------------------
    let mut first_break: Option<(String, String)> = None;
    for ((c, ev), s) in cases.iter().zip(evs.iter()).zip(spec_replies.iter()) {
        let Some(ev) = ev else { continue };
        let run = &ev.run;
        let accepted = !run.eng.is_err;
        let lead_is_write = WRITE_LEADS.contains(&c.lead.as_str());
        let nontrivial = accepted && ev.m_write && (!lead_is_write || c.nonspace);
        rep.case(&ev.text, nontrivial);
        rep.count(&format!("lead:{}", c.lead));
        rep.count(&format!("wrap:{}", c.wrap));
        rep.count(&format!(
            "kind:{}{}",
            match ev.m_prefix.as_str() {
                "e" => "explain-",
                "p" => "profile-",
                _ => "",
            },
            if ev.m_write { "write" } else { "read" }
        ));
        rep.count(if accepted {
            "engine:accepted"
        } else if run.eng.is_parse_err {
            "engine:parse-error"
        } else {
            "engine:runtime-error"
        });
        if ev.m_write && !ev.leg_resp {
            rep.count("legacy-resp-would-misroute");
        }
        if ev.m_write && !ev.leg_http {
            rep.count("legacy-http-would-misroute");
        }
        if ev.m_executes && !ev.veto {
            rep.count("plan-veto-would-misroute");
        }
        if run.eng_post != run.pre {
            rep.count("engine:graph-changed");
        }
        if nontrivial && rep.samples.len() < 5 && (rep.samples.len() < 2 || c.wrap != "plain") {
            rep.sample(json!({"statement": escape(&ev.text), "engine": run.eng.canon, "resp": run.resp.canon, "http": run.http.canon, "graph_changed": run.eng_post != run.pre}));
        }
        let body = format!(
            "q {}\n# {} (RESP command {}, HTTP explicit graph: {})\n# model: hasWrite={} prefix={} executesWrite={} legacyResp={} legacyHttp={} planVeto={}; planner is_write={:?}\n# pre        {}\n# engine     {}\n#   post     {}\n# resp       {}\n#   post     {}\n# http       {}\n#   post     {}\n# spec       {}",
            escape(&ev.text), c.label, c.resp_name, c.http_explicit_graph, ev.m_write, ev.m_prefix, ev.m_executes, ev.leg_resp, ev.leg_http, ev.veto, run.plan_write, run.pre, run.eng.canon, run.eng_post, run.resp.canon, run.resp_post, run.http.canon, run.http_post, s
        );
        if s != "ok" {
            let code: u32 = s.strip_prefix("viol ").and_then(|x| x.parse().ok()).unwrap_or(0);
            let fe = match code {
                1 | 2 | 6 => "resp",
                3 | 4 | 7 => "http",
                5 => "read-modifies",
                _ => "driver-rejected",
            };
            let refused = (fe == "resp" && run.resp.refused) || (fe == "http" && run.http.refused);
            let why = if refused {
                // structural class of the statement that was refused
                if ev.m_prefix == "p" {
                    "profile-prefix"
                } else if ev.m_prefix == "e" {
                    "explain-prefix"
                } else if c.lead == "//" {
                    "leading-comment"
                } else if !lead_is_write && c.nonspace {
                    "write-after-read-clause+non-space-separator"
                } else if !lead_is_write {
                    "write-after-read-clause"
                } else {
                    "non-space-separator"
                }
            } else if code == 2 || code == 4 {
                "graph-differs"
            } else {
                // rows are mappings column -> value: say what differs
                let fe_canon = if fe == "resp" { &run.resp.canon } else { &run.http.canon };
                let parts = |c: &str| -> Option<(String, Vec<Vec<String>>)> {
                    let mut it = c.splitn(3, '|');
                    if it.next()? != "ok" {
                        return None;
                    }
                    let cols = it.next()?.to_string();
                    let rows = it.next()?.split(';').map(|r| r.split(',').map(|x| x.to_string()).collect()).collect();
                    Some((cols, rows))
                };
                match (parts(&run.eng.canon), parts(fe_canon)) {
                    (Some((ec, er)), Some((fc, fr))) => {
                        let norm = |rows: &Vec<Vec<String>>| {
                            let mut v: Vec<Vec<String>> = rows
                                .iter()
                                .map(|r| {
                                    let mut r = r.clone();
                                    r.sort();
                                    r
                                })
                                .collect();
                            v.sort();
                            v
                        };
                        if ec != fc {
                            "header-differs"
                        } else if norm(&er) == norm(&fr) {
                            "values-under-wrong-column"
                        } else {
                            "outcome-differs"
                        }
                    }
                    _ => "outcome-differs",
                }
            };
            let sig = format!("{}:{}:{}", fe, if refused { "write-refused" } else { "mismatch" }, why);
            rep.count(&format!("spec_violation:{}", sig));
            rep.spec_violation(&known, &sig, &format!("front end disagrees with the engine on `{}` ({})", escape(&ev.text), s), &body);
        } else {
            // R vs M: the planner's verdict against the model's word scan
            if let Some(pw) = run.plan_write {
                if pw != ev.m_write {
                    rep.count("model_mismatch:is_write");
                    if first_break.is_none() {
                        first_break = Some(("routeNew = ExecutionPlan::is_write (read executor refusal)".into(), body.clone()));
                    }
                }
            }
            if let Some(tw) = c.is_write_tpl {
                if tw != ev.m_write {
                    rep.count("model_mismatch:template");
                    if first_break.is_none() {
                        first_break = Some(("hasWriteClause = the template's declared kind".into(), body.clone()));
                    }
                }
            }
            // the hypothesis of C23_front_eq_engine on unprefixed reads
            match run.mut_agrees {
                Some(true) => rep.count("read-agree:checked"),
                Some(false) => {
                    rep.count("model_mismatch:read-executors-disagree");
                    if first_break.is_none() {
                        first_break = Some(("Engine.ReadAgree: MutQueryExecutor = QueryExecutor on an unprefixed read".into(), body.clone()));
                    }
                }
                None => {}
            }
        }
    }
    if let Some((name, body)) = first_break {
        if rep.spec_violations.is_empty() {
            rep.correspondence_break(&name, "model and implementation disagree, but the specification holds on all explored cases", &body);
        }
    }
    rep.write(&args.out);
}
