//! C22 — every server reply is exactly one well-formed RESP frame.
//! Commands with CR / LF / CRLF planted at every position go through the real
//! `CommandHandler::handle_command`; the reply is encoded by the real `RespValue::encode`;
//! the reply bytes are judged by the specification (`specOneFrame`, Lean) and by the real
//! decoder, and compared with the model's `encode`.  Thorough tier: the same commands over
//! a live `RespServer` socket, replies counted.
#[path = "resp_common/mod.rs"]
mod resp_common;
use resp_common::*;
use bytes::BytesMut;
use samyama::graph::GraphStore;
use samyama::protocol::resp::RespValue;
use samyama::protocol::CommandHandler;
use serde_json::json;
use std::io::Write;
use std::sync::Arc;
use tokio::sync::RwLock;
use vharness::{driver, Args, Known, Report, Rng};

fn bulk(b: &[u8]) -> RespValue { RespValue::BulkString(Some(b.to_vec())) }
fn cmd(parts: &[&[u8]]) -> RespValue { RespValue::Array(parts.iter().map(|p| bulk(p)).collect()) }

/// status-line texts inside a reply
fn status_texts<'a>(v: &'a RespValue, out: &mut Vec<&'a str>) {
    match v {
        RespValue::SimpleString(s) | RespValue::Error(s) => out.push(s),
        RespValue::Array(items) => for i in items { status_texts(i, out); },
        _ => {}
    }
}
fn has_break(v: &RespValue) -> bool {
    let mut t = vec![];
    status_texts(v, &mut t);
    t.iter().any(|s| s.contains('\r') || s.contains('\n'))
}
/// what a client must read back: status lines with CR/LF as spaces
fn expected_readback(v: &RespValue) -> RespValue {
    match v {
        RespValue::SimpleString(s) => RespValue::SimpleString(s.replace(['\r', '\n'], " ")),
        RespValue::Error(s) => RespValue::Error(s.replace(['\r', '\n'], " ")),
        RespValue::Array(items) => RespValue::Array(items.iter().map(expected_readback).collect()),
        other => other.clone(),
    }
}
fn reply_kind(v: &RespValue) -> &'static str {
    match v {
        RespValue::SimpleString(_) => "reply:simple", RespValue::Error(_) => "reply:error", RespValue::Integer(_) => "reply:integer",
        RespValue::BulkString(_) => "reply:bulk", RespValue::Array(_) => "reply:array", RespValue::Null => "reply:null",
    }
}

struct Case { origin: String, command: Option<RespValue>, reply: RespValue }

fn inject_all(template: &str, inj: &[&str]) -> Vec<String> {
    let mut out = vec![template.to_string()];
    let idx: Vec<usize> = template.char_indices().map(|(i, _)| i).chain(std::iter::once(template.len())).collect();
    for i in idx {
        for j in inj {
            let mut s = String::with_capacity(template.len() + j.len());
            s.push_str(&template[..i]); s.push_str(j); s.push_str(&template[i..]);
            out.push(s);
        }
    }
    out
}

fn gen_reply(rng: &mut Rng, depth: usize) -> RespValue {
    let texts = ["", "OK", "ERR x", "a\r\nb", "\r", "\n", "\r\n", "ERR unknown command 'X\r\n+OK'", "x\n\r\ny", "\u{e9}\r\n\u{65e5}", "-\r\n-ERR", "$5\r\nhello", "a\rb", "tail\r\n"];
    let k = if depth == 0 { rng.usize(6) } else { rng.usize(8) };
    match k {
        0 => RespValue::SimpleString(rng.pick(&texts).to_string()),
        1 => RespValue::Error(rng.pick(&texts).to_string()),
        2 => RespValue::Integer(match rng.usize(4) { 0 => 0, 1 => i64::MIN, 2 => i64::MAX, _ => rng.range(-99, 99) }),
        3 => RespValue::BulkString(if rng.chance(1, 4) { None } else { Some((0..rng.usize(9)).map(|_| *rng.pick(&[b'\r', b'\n', b'a', b'+', 0xff, 0])).collect()) }),
        4 => RespValue::Null,
        5 => {
            let n = rng.usize(10);
            let s: String = (0..n).map(|_| *rng.pick(&['\r', '\n', 'a', ' ', '+', '-', '\u{e9}'])).collect();
            if rng.chance(1, 2) { RespValue::Error(s) } else { RespValue::SimpleString(s) }
        }
        _ => { let n = rng.usize(5); RespValue::Array((0..n).map(|_| gen_reply(rng, depth - 1)).collect()) }
    }
}

fn main() {
    let args = Args::parse();
    silence_panics();
    let known = Known::load(&args.known, "C22");
    let mut rep = Report::new(
        "C22",
        "commands through the real handle_command with CR, LF, CRLF and CRLF+forged-frame planted at every position of \
         command names, graph names, query texts, string literals, identifiers and stored property values (failing and succeeding \
         statements), plus generated reply values through the real encoder; non-trivial = a status line of the reply \
         (simple string / error, at any depth) contains CR or LF; distinct = distinct (origin, reply)",
        &args.replays,
        args.seed,
    );
    let exe = args.driver_exe("drv_resp");
    let mut rng = Rng::new(args.seed);
    let rt = tokio::runtime::Builder::new_current_thread().enable_all().build().unwrap();
    let handler = CommandHandler::new(None);
    let store = Arc::new(RwLock::new(GraphStore::new()));
    let mut cases: Vec<Case> = vec![];
    let mut commands_for_live: Vec<RespValue> = vec![];

    // 1. corpus / replay:  `cmd <value>` (a command for handle_command)  |  `reply <value>` (a reply value)
    let mut n_corpus = 0;
    for (k, rest) in corpus_lines(&args.corpus.join("C22"), &args.replay) {
        let mut pos = 0;
        let v = match parse_val(rest.as_bytes(), &mut pos) { Some(v) => v, None => continue };
        n_corpus += 1;
        match k.as_str() {
            "cmd" => {
                let r = rt.block_on(handler.handle_command(&v, &store));
                commands_for_live.push(v.clone());
                cases.push(Case { origin: "corpus-cmd".into(), command: Some(v), reply: r });
            }
            "reply" => cases.push(Case { origin: "corpus-reply".into(), command: None, reply: v }),
            _ => {}
        }
    }
    rep.count_n("corpus_cases", n_corpus);

    if args.replay.is_none() {
        let inj: Vec<&str> = if args.thorough() { vec!["\r", "\n", "\r\n", "\r\n+OK\r\n", "\n\r", "\r\n-ERR x\r\n:1"] } else { vec!["\r", "\n", "\r\n", "\r\n+OK\r\n"] };
        // 2a. unknown command names, non-array / null / non-UTF-8 commands
        for name in inject_all("FOO", &inj).into_iter().chain(inject_all("graph.querx", &inj)) {
            cases.push(run(&rt, &handler, &store, "unknown-command", cmd(&[name.as_bytes(), b"x"]), &mut commands_for_live));
        }
        for v in [RespValue::SimpleString("PING\r\nX".into()), RespValue::Array(vec![]), RespValue::Array(vec![RespValue::BulkString(None)]),
                  cmd(&[b"\xff\r\nFOO"]), RespValue::Array(vec![RespValue::Integer(1)]), RespValue::Null] {
            cases.push(run(&rt, &handler, &store, "malformed-command", v, &mut commands_for_live));
        }
        // 2b. graph names
        for g in inject_all("mygraph", &inj).into_iter().chain(inject_all("default", &inj)) {
            cases.push(run(&rt, &handler, &store, "graph-name", cmd(&[b"GRAPH.QUERY", g.as_bytes(), b"RETURN 1"]), &mut commands_for_live));
            cases.push(run(&rt, &handler, &store, "graph-name", cmd(&[b"GRAPH.RO_QUERY", g.as_bytes(), b"RETURN 1"]), &mut commands_for_live));
        }
        // 2c. query texts: syntax errors, literals, identifiers, runtime errors, stored values
        let templates = [
            "MATCH (n) RETURN n", "RETURN 'lit'", "RETURN \"lit\" AS x", "RETURN 1 AS `id`", "RETURN 1/0", "RETURN nosuchfn(1)",
            "MATCH (n:Lbl) RETURN n.prop", "CREATE (n:P {k: 'val'}) RETURN n.k", "FOO BAR", "RETURN $param", "MATCH (n) WHERE n.k = 'v' RETURN n.k",
            "RETURN [1, 'a']", "MATCH (n:P) SET n.k = 'new' RETURN n.k", "RETURN x",
        ];
        for t in templates.iter() {
            for q in inject_all(t, &inj) {
                cases.push(run(&rt, &handler, &store, "query-text", cmd(&[b"GRAPH.QUERY", b"default", q.as_bytes()]), &mut commands_for_live));
            }
        }
        // stored values with line breaks, read back
        for (i, j) in inj.iter().enumerate() {
            let q = format!("CREATE (n:S{} {{k: 'a{}b', `w{}x`: 1}}) RETURN n.k", i, j, j);
            cases.push(run(&rt, &handler, &store, "stored-value", cmd(&[b"GRAPH.QUERY", b"default", q.as_bytes()]), &mut commands_for_live));
            let q = format!("MATCH (n:S{}) RETURN n.k, n", i);
            cases.push(run(&rt, &handler, &store, "stored-value", cmd(&[b"GRAPH.QUERY", b"default", q.as_bytes()]), &mut commands_for_live));
            let q = format!("MATCH (n:S{}) RETURN n.k AS `c{}d`", i, j);
            cases.push(run(&rt, &handler, &store, "stored-value", cmd(&[b"GRAPH.QUERY", b"default", q.as_bytes()]), &mut commands_for_live));
        }
        // 2d. other commands
        for p in inject_all("msg", &inj) {
            cases.push(run(&rt, &handler, &store, "echo", cmd(&[b"ECHO", p.as_bytes()]), &mut commands_for_live));
            cases.push(run(&rt, &handler, &store, "ping", cmd(&[b"PING", p.as_bytes()]), &mut commands_for_live));
            cases.push(run(&rt, &handler, &store, "graph-delete", cmd(&[b"GRAPH.DELETE", p.as_bytes()]), &mut commands_for_live));
        }
        // null values: `RETURN null` is the RESP3 null `_`, a null *property* is rendered as the bulk
        // string "Null" (value fidelity is C23's subject); either way it must be one frame
        for q in ["RETURN null", "CREATE (n:NullP {k: 1}) RETURN n.missing", "MATCH (n:NullP) RETURN n.missing, n.k, null"] {
            cases.push(run(&rt, &handler, &store, "null-value", cmd(&[b"GRAPH.QUERY", b"default", q.as_bytes()]), &mut commands_for_live));
        }
        for c in [cmd(&[b"PING"]), cmd(&[b"INFO"]), cmd(&[b"GRAPH.LIST"]), cmd(&[b"ECHO"]), cmd(&[b"GRAPH.QUERY"]), cmd(&[b"GRAPH.QUERY", b"default"])] {
            cases.push(run(&rt, &handler, &store, "other", c, &mut commands_for_live));
        }
        // 3. generated reply values straight through the encoder
        let n = if args.thorough() { 200_000 } else { 20_000 };
        for _ in 0..n {
            let d = rng.usize(4);
            cases.push(Case { origin: "generated-reply".into(), command: None, reply: gen_reply(&mut rng, d) });
        }
    }

    // evaluate
    let mut first_break: Option<(String, String)> = None;
    let mut mismatches = 0u64;
    for chunk in cases.chunks(50_000) {
        let mut lines = Vec::with_capacity(chunk.len() * 3);
        let mut obs = Vec::with_capacity(chunk.len());
        for c in chunk {
            let mut bytes = Vec::new();
            c.reply.encode(&mut bytes).expect("encode");
            // the real decoder on the reply bytes: all frames it yields + what is left
            let mut buf = BytesMut::from(&bytes[..]);
            let mut frames = vec![];
            loop {
                match std::panic::catch_unwind(std::panic::AssertUnwindSafe(|| RespValue::decode(&mut buf))) {
                    Ok(Ok(Some(v))) => frames.push(v),
                    _ => break,
                }
                if buf.is_empty() { break; }
            }
            let h = hexd(&bytes);
            lines.push(format!("enc {}", vtext(&c.reply)));
            lines.push(format!("spec22 {}", h));
            lines.push(format!("dec {}", h));
            obs.push((bytes, frames, buf.to_vec()));
        }
        let replies = driver::par_batch(&exe, &lines, 12);
        for (k, c) in chunk.iter().enumerate() {
            let (bytes, frames, left) = &obs[k];
            let (m_enc, m_spec, m_dec) = (&replies[3 * k], &replies[3 * k + 1], &replies[3 * k + 2]);
            let nt = has_break(&c.reply);
            let canon = format!("{} {}", c.origin, vtext(&c.reply));
            rep.case(&canon, nt);
            rep.count(&format!("origin:{}", c.origin));
            rep.count(reply_kind(&c.reply));
            if nt { rep.count(&format!("linebreak_in_status_line:{}", c.origin)); }
            if nt && c.command.is_some() && rep.samples.len() < 4 {
                rep.sample(json!({"command": c.command.as_ref().map(vtext), "reply": format!("{:?}", c.reply), "wire": String::from_utf8_lossy(bytes)}));
            }
            let line = match &c.command { Some(cm) => format!("cmd {}", vtext(cm)), None => format!("reply {}", vtext(&c.reply)) };
            let body = format!("{}\n# origin {}\n# reply  {:?}\n# wire   {}\n# real decoder: {} frame(s) {:?} leftover={}\n# model enc {}\n# model spec {}\n# model dec {}",
                line, c.origin, c.reply, hexd(bytes), frames.len(), frames.iter().map(vtext).collect::<Vec<_>>(), hexd(left), m_enc, m_spec, m_dec);
            // S on R: exactly one frame by the specification's decoder and by the real decoder
            let one_real = frames.len() == 1 && left.is_empty();
            if m_spec != "ok" || !one_real {
                let sig = format!("{}-{}", match &c.reply { RespValue::Error(_) => "error-line", RespValue::SimpleString(_) => "simple-line", RespValue::Array(_) => "nested-status-line", _ => "other" },
                    if nt { "with-linebreak" } else { "clean" });
                rep.count(&format!("spec_violation:{}", sig));
                rep.spec_violation(&known, &sig, &format!("reply decodes as {} frame(s), {} bytes left (spec: {})", frames.len(), left.len(), m_spec), &body);
                continue;
            }
            // R = M: wire bytes, and what is read back
            let want_dec = format!("ok V {} - ", vtext(&frames[0]));
            if *m_enc != format!("ok {}", hexd(bytes)) || !m_dec.starts_with(&want_dec) || frames[0] != expected_readback(&c.reply) {
                rep.count("model_mismatch");
                mismatches += 1;
                if first_break.is_none() { first_break = Some(("SgModel.Resp.encode / sanitize = RespValue::encode, read back by RespValue::decode".into(), body)); }
            }
        }
    }

    // 4. live server: every command gets exactly one reply frame on the socket
    if args.replay.is_none() {
        let per_conn = 25;
        let max_conns = if args.thorough() { 120 } else { 6 };
        if let Some(live) = Live::start() {
            for (ci, group) in commands_for_live.chunks(per_conn).enumerate().take(max_conns) {
                let stream: Vec<Vec<u8>> = group.iter().map(|c| { let mut b = Vec::new(); c.encode(&mut b).unwrap(); b }).collect();
                let (got, raw) = live.exchange(&stream, group.len(), 20000);
                rep.count("live_connections");
                rep.count_n("live_commands", group.len() as u64);
                rep.case(&format!("live {}", ci), true);
                if got.len() != group.len() {
                    let body = format!("# live connection {}: {} commands, {} reply frames\n{}\n# raw replies {}", ci, group.len(), got.len(),
                        group.iter().map(|c| format!("cmd {}", vtext(c))).collect::<Vec<_>>().join("\n"), hexd(&raw));
                    rep.count("spec_violation:live-reply-count");
                    rep.spec_violation(&known, "live-reply-count", &format!("{} commands answered with {} frames on the socket", group.len(), got.len()), &body);
                }
            }
        } else {
            rep.notes.push("live server did not come up; live part skipped".into());
        }
    }

    // 5. malformed wire input on a live connection: the `-ERR <protocol error>` reply of
    //    handle_connection's error arm must be exactly one (error) frame
    if args.replay.is_none() {
        if let Some(live) = Live::start() {
            let garbage: Vec<&[u8]> = vec![b":abc\r\n", b"$abc\r\n", b"*1\r\n$-5\r\n", b"\"unclosed\r\n", b"\xff\xfe\r\n", b"\r\n", b"*x\r\n", b"$3\r\nabcde\r\n", b"_x\r\n", b"+\xff\r\n", b"*1\r\n:\r\n+OK\r\n"];
            for g in garbage {
                let (got, raw) = live.exchange(&[g.to_vec()], 1, 3000);
                rep.case(&format!("live-garbage {}", hexd(g)), false);
                rep.count("live_malformed_input");
                // (what follows the first error reply depends on read timing; only the first reply is judged)
                let ok = matches!(got.first(), Some(RespValue::Error(m)) if m.starts_with("ERR "));
                if !ok {
                    let body = format!("# live connection, wire input {}\n# replies {:?}\n# raw {}", hexd(g), got.iter().map(vtext).collect::<Vec<_>>(), hexd(&raw));
                    rep.count("spec_violation:live-protocol-error-reply");
                    rep.spec_violation(&known, "live-protocol-error-reply", "malformed input was not answered with one error frame", &body);
                }
            }
        }
    }

    // 5b. per-connection state must not leak between replies: live sessions interleaving good commands and
    //     malformed requests in every order; after EACH request exactly the frames the model predicts for that
    //     read (one per decoded command, one error frame per protocol error), of the expected kind
    {
        let mut scripted: Vec<Vec<Vec<u8>>> = vec![];
        for (k, rest) in corpus_lines(&args.corpus.join("C22"), &args.replay) {
            if k == "session" { if let Some(c) = parse_chunks(rest.split_whitespace().next().unwrap_or("-")) { scripted.push(c.into_iter().filter(|x| !x.is_empty()).collect()); } }
        }
        if args.replay.is_none() || !scripted.is_empty() {
            session_part(&args, &mut rep, &known, &exe, scripted);
        }
    }

    // 6. the forwarding branch (sharding): the only reply bytes not produced by RespValue::encode on
    //    this node.  A scripted owning node writes its reply in given segments; the client sends
    //    GRAPH.QUERY remote … followed by PING and must read exactly [that reply, +PONG].
    {
        let mut scripted: Vec<Vec<Vec<u8>>> = vec![];
        for (k, rest) in corpus_lines(&args.corpus.join("C22"), &args.replay) {
            if k == "forward" { if let Some(c) = parse_chunks(rest.split_whitespace().next().unwrap_or("-")) { scripted.push(c.into_iter().filter(|x| !x.is_empty()).collect()); } }
        }
        if args.replay.is_none() || !scripted.is_empty() {
            forward_part(&args, &mut rep, &known, &exe, &mut rng, &mut first_break, &mut mismatches, scripted);
        }
    }

    if let Some((name, body)) = first_break {
        if rep.spec_violations.is_empty() {
            rep.correspondence_break(&name, &format!("model and implementation disagree on {} cases while the specification holds on all explored cases", mismatches), &body);
        }
    }
    rep.write(&args.out);
}

#[derive(Debug, Clone, PartialEq)]
enum Expect { Value(Option<RespValue>), ProtoErr }

/// events text of the driver -> per-event expectation (a decoded command / a protocol error)
fn parse_events(t: &str) -> Vec<Expect> {
    let mut out = vec![];
    if t == "-" { return out; }
    let b = t.as_bytes();
    let mut pos = 0;
    while pos < b.len() {
        if b[pos] == b'X' || b[pos] == b'P' { out.push(Expect::ProtoErr); pos += 2; }
        else if parse_val(b, &mut pos).is_some() { out.push(Expect::Value(None)); }
        else { break; }
    }
    out
}

/// one request at a time on one connection: write it, collect the frames that come back
/// (until `want` frames, then a short quiet window to catch anything extra)
fn request(s: &mut std::net::TcpStream, req: &[u8], want: usize) -> (Vec<RespValue>, Vec<u8>) {
    use std::io::Read;
    let _ = s.write_all(req);
    let _ = s.flush();
    let mut got = vec![];
    let mut buf = BytesMut::new();
    let mut tmp = [0u8; 8192];
    let t0 = std::time::Instant::now();
    loop {
        let waiting = got.len() < want;
        s.set_read_timeout(Some(std::time::Duration::from_millis(if waiting { 2000 } else { 40 }))).ok();
        match s.read(&mut tmp) {
            Ok(0) => break,
            Ok(k) => { buf.extend_from_slice(&tmp[..k]); while let Ok(Some(v)) = RespValue::decode(&mut buf) { got.push(v); } }
            Err(_) => break,   // timed out: nothing (more) arrived
        }
        if t0.elapsed() > std::time::Duration::from_secs(5) { break; }
    }
    (got, buf.to_vec())
}

fn session_part(args: &Args, rep: &mut Report, known: &Known, exe: &std::path::Path, scripted: Vec<Vec<Vec<u8>>>) {
    let enc = |v: &RespValue| { let mut b = Vec::new(); v.encode(&mut b).unwrap(); b };
    let remote = FakeRemote::start();
    let Some(live) = Live::start_with(remote.as_ref().map(|r| r.port)) else { rep.notes.push("live server did not come up; session part skipped".into()); return; };
    let bad: Vec<&[u8]> = vec![b":abc\r\n", b"$abc\r\n", b"*1\r\n$-5\r\n", b"\"unclosed\r\n", b"\xff\xfe\r\n", b"\r\n", b"*x\r\n", b"$3\r\nabcde\r\n", b"_x\r\n", b"+\xff\r\n", b"*1\r\n:\r\n+OK\r\n"];
    // good commands with known replies
    let goods: Vec<(Vec<u8>, RespValue)> = vec![
        (enc(&cmd(&[b"PING"])), RespValue::SimpleString("PONG".into())),
        (enc(&cmd(&[b"ECHO", b"previous reply"])), bulk(b"previous reply")),
        (b"PING\r\n".to_vec(), RespValue::SimpleString("PONG".into())),
        (enc(&cmd(&[b"GRAPH.QUERY", b"default", b"RETURN 1 AS one"])), RespValue::Null /* placeholder: any single frame */),
    ];
    // (label, requests: (bytes, Some(expected reply) for a good command))
    let mut sessions: Vec<(String, Vec<(Vec<u8>, Option<RespValue>)>)> = vec![];
    rep.count_n("corpus_sessions", scripted.len() as u64);
    for sc in scripted { sessions.push(("corpus".into(), sc.into_iter().map(|r| (r, None)).collect())); }
    for (bi, b) in bad.iter().enumerate() {
        if args.replay.is_some() { break; }
        let g = |k: usize| { let (r, e) = &goods[(bi + k) % goods.len()]; (r.clone(), Some(e.clone())) };
        sessions.push(("good-bad".into(), vec![g(0), (b.to_vec(), None)]));
        sessions.push(("bad-good".into(), vec![(b.to_vec(), None), g(1)]));
        sessions.push(("good-bad-good".into(), vec![g(2), (b.to_vec(), None), g(3)]));
        sessions.push(("bad-bad".into(), vec![(b.to_vec(), None), (bad[(bi + 1) % bad.len()].to_vec(), None)]));
        if args.thorough() {
            sessions.push(("good-good-bad-bad-good".into(), vec![g(0), g(1), (b.to_vec(), None), (bad[(bi + 3) % bad.len()].to_vec(), None), g(2)]));
        }
    }
    // mixed with a forwarded reply (sharding): forwarded, bad, good
    let fwd_req = enc(&cmd(&[b"GRAPH.QUERY", b"remote", b"RETURN 1"]));
    let fwd_reply = bulk(b"from the owning node");
    if remote.is_some() && args.replay.is_none() {
        for b in [bad[0], bad[7]] {
            sessions.push(("forwarded-bad-good".into(), vec![(fwd_req.clone(), Some(fwd_reply.clone())), (b.to_vec(), None), (goods[0].0.clone(), Some(goods[0].1.clone()))]));
            sessions.push(("good-bad-forwarded".into(), vec![(goods[1].0.clone(), Some(goods[1].1.clone())), (b.to_vec(), None), (fwd_req.clone(), Some(fwd_reply.clone()))]));
        }
    }
    // the model: events after each prefix of the session (one read per request)
    let mut lines = vec![];
    for (_, reqs) in &sessions {
        for k in 1..=reqs.len() { lines.push(format!("feed {}", chunks_text(&reqs[..k].iter().map(|r| r.0.clone()).collect::<Vec<_>>()))); }
    }
    let model = driver::batch(exe, &lines);
    let mut li = 0;
    for (label, reqs) in &sessions {
        let Ok(mut s) = std::net::TcpStream::connect(("127.0.0.1", live.port)) else { rep.notes.push("live connect failed".into()); return; };
        s.set_nodelay(true).ok();
        let mut prev_events = 0usize;
        let mut transcript = vec![];
        let mut failure: Option<String> = None;
        for (req, good_reply) in reqs.iter() {
            let m = &model[li]; li += 1;
            let evs = parse_events(m.split(' ').nth(1).unwrap_or("-"));
            let mine: Vec<Expect> = evs[prev_events.min(evs.len())..].to_vec();
            prev_events = evs.len();
            if failure.is_some() { continue; }
            if *req == fwd_req { if let Some(r) = &remote { r.push(vec![enc(&fwd_reply)]); } }
            let (got, left) = request(&mut s, req, mine.len());
            transcript.push(format!("# request {} -> {} frame(s) {:?} (model: {} event(s))", hexd(req), got.len(), got.iter().map(vtext).collect::<Vec<_>>(), mine.len()));
            let mut ok = got.len() == mine.len() && left.is_empty();
            if ok {
                for (g, e) in got.iter().zip(mine.iter()) {
                    match e {
                        Expect::ProtoErr => if !matches!(g, RespValue::Error(t) if t.starts_with("ERR ")) { ok = false; },
                        Expect::Value(_) => {}
                    }
                }
                // a good command is the last event of its read and has a known reply
                if let (Some(want), Some(last)) = (good_reply, got.last()) {
                    if *want != RespValue::Null && last != want { ok = false; }
                }
            }
            if !ok { failure = Some(format!("request {} answered with {} frame(s), expected {}", hexd(req), got.len(), mine.len())); }
        }
        let canon = format!("session {} {}", label, reqs.iter().map(|r| hexd(&r.0)).collect::<Vec<_>>().join(","));
        rep.case(&canon, true);
        rep.count(&format!("live_session:{}", label));
        if let Some(what) = failure {
            let sig = format!("session-{}", label);
            rep.count(&format!("spec_violation:{}", sig));
            let body = format!("session {}\n# live session ({}): one request per write, replies collected after each\n{}",
                chunks_text(&reqs.iter().map(|r| r.0.clone()).collect::<Vec<_>>()), label, transcript.join("\n"));
            rep.spec_violation(known, &sig, &what, &body);
        }
    }
}

fn forward_part(args: &Args, rep: &mut Report, known: &Known, exe: &std::path::Path, rng: &mut Rng,
                first_break: &mut Option<(String, String)>, mismatches: &mut u64, scripted: Vec<Vec<Vec<u8>>>) {
    let Some(remote) = FakeRemote::start() else { rep.notes.push("fake remote did not start; forwarding part skipped".into()); return; };
    let Some(live) = Live::start_with(Some(remote.port)) else { rep.notes.push("sharded live server did not come up; forwarding part skipped".into()); return; };
    let enc = |v: &RespValue| { let mut b = Vec::new(); v.encode(&mut b).unwrap(); b };
    let big: Vec<u8> = (0..6000).map(|i| b'a' + (i % 26) as u8).collect();
    // (kind, reads the proxy gets from the owning node)
    let classify = |cs: &Vec<Vec<u8>>| -> &'static str {
        let all: Vec<u8> = cs.concat();
        let mut b = bytes::BytesMut::from(&all[..]);
        match RespValue::decode(&mut b) {
            Ok(Some(_)) if !b.is_empty() => "extra",
            Ok(Some(_)) => if cs.len() > 1 { "torn" } else if all.len() > 4096 { "long" } else { "whole" },
            _ => "closed",
        }
    };
    let mut scripts: Vec<(&'static str, Vec<Vec<u8>>)> = scripted.into_iter().map(|c| (classify(&c), c)).collect();
    rep.count_n("corpus_forward_scripts", scripts.len() as u64);
    if args.replay.is_none() { scripts.extend(vec![
        ("whole", vec![b"+OK\r\n".to_vec()]),
        ("torn", vec![b"$5\r\nhel".to_vec(), b"lo\r\n".to_vec()]),
        ("torn", vec![b":4".to_vec(), b"2".to_vec(), b"\r".to_vec(), b"\n".to_vec()]),
        ("torn", vec![b"*2\r\n*1\r\n$1\r\nc\r\n".to_vec(), b"*1\r\n:7\r\n".to_vec()]),
        ("long", vec![enc(&RespValue::BulkString(Some(big.clone())))]),
        ("whole", vec![b"-ERR no such graph\r\n".to_vec()]),
        ("extra", vec![b"+OK\r\n+EXTRA\r\n".to_vec()]),
        ("closed", vec![b"$5\r\nhel".to_vec()]),
        ("closed", vec![]),
    ]); }
    if args.thorough() && args.replay.is_none() {
        for _ in 0..60 {
            let d = rng.usize(3);
            let v = gen_reply(rng, d);
            let b = enc(&v);
            let mut cuts: Vec<usize> = (0..rng.usize(3)).map(|_| 1 + rng.usize(b.len().max(2) - 1)).collect();
            cuts.sort(); cuts.dedup();
            let mut chunks = vec![]; let mut prev = 0;
            for c in cuts { if c > prev && c < b.len() { chunks.push(b[prev..c].to_vec()); prev = c; } }
            chunks.push(b[prev..].to_vec());
            scripts.push((if chunks.len() > 1 { "torn" } else { "whole" }, chunks));
        }
    }
    let cmd_bytes = {
        let mut b = enc(&cmd(&[b"GRAPH.QUERY", b"remote", b"RETURN 1"]));
        b.extend_from_slice(&enc(&cmd(&[b"PING"])));
        b
    };
    let lines: Vec<String> = scripts.iter().map(|(_, cs)| format!("relay {}", chunks_text(cs))).collect();
    let model = driver::batch(exe, &lines);
    for (k, (kind, chunks)) in scripts.iter().enumerate() {
        remote.push(chunks.clone());
        let (got, raw) = live.exchange(&[cmd_bytes.clone()], 2, 1500);
        rep.case(&format!("forward {} {}", kind, chunks_text(chunks)), *kind != "whole");
        rep.count(&format!("forwarded:{}", kind));
        let m = &model[k];
        let pong = RespValue::SimpleString("PONG".into());
        // S on R: two commands, two frames, the second is +PONG; the first is the owning node's
        // reply, or an error when that node never completed one
        let first_ok = match (m.as_str(), got.first()) {
            ("ok none", Some(RespValue::Error(e))) => e.starts_with("ERR routing failed"),
            ("ok none", _) => false,
            (_, Some(_)) => true,
            _ => false,
        };
        let body = format!("forward {}\n# forwarding branch: owning node wrote {} then closed; client sent GRAPH.QUERY remote \"RETURN 1\" + PING\n# client read {} frame(s) {:?}\n# raw {}\n# model {}",
            chunks_text(chunks), chunks_text(chunks), got.len(), got.iter().map(vtext).collect::<Vec<_>>(), if raw.len() > 300 { format!("{}..({} bytes)", hex0(&raw[..100]), raw.len()) } else { hexd(&raw) }, if m.len() > 200 { &m[..200] } else { m });
        if got.len() != 2 || got[1] != pong || !first_ok {
            let sig = format!("forward-{}", match *kind { "torn" | "long" => "torn-reply", "extra" => "extra-bytes", "closed" => "remote-closed", _ => "whole-reply" });
            rep.count(&format!("spec_violation:{}", sig));
            rep.spec_violation(known, &sig, &format!("forwarded command + PING answered with {} frame(s)", got.len()), &body);
            continue;
        }
        if m != "ok none" {
            let mut want = unhex(m.trim_start_matches("ok ")).unwrap_or_default();
            want.extend_from_slice(b"+PONG\r\n");
            if raw != want {
                rep.count("model_mismatch");
                *mismatches += 1;
                if first_break.is_none() { *first_break = Some(("SgModel.Resp.relay = sharding::Proxy::forward relayed by handle_connection".into(), body)); }
            }
        }
    }
}

fn run(rt: &tokio::runtime::Runtime, handler: &CommandHandler, store: &Arc<RwLock<GraphStore>>, origin: &str, c: RespValue, live: &mut Vec<RespValue>) -> Case {
    let r = rt.block_on(handler.handle_command(&c, store));
    live.push(c.clone());
    Case { origin: origin.into(), command: Some(c), reply: r }
}
