//! Shared by c16 / c32 / c18: the operation alphabet of the Persist model, the palette that
//! turns the model's tags into real labels / types / keys / values, and the canonical dump
//! of what `PersistenceManager::recover` returns (timestamps dropped, ids kept — ids are
//! chosen by the caller of `persist_*`, not allocated).
#![allow(dead_code)]
use samyama::graph::{Edge, EdgeId, EdgeType, Label, Node, NodeId, PropertyMap, PropertyValue};
use samyama::persistence::{PersistenceError, PersistenceManager, ResourceQuotas, TenantError};
use std::collections::HashMap;
use vharness::Rng;

pub const LABELS: [&str; 4] = ["", "A", "B b", "\u{dc}n\u{ef}"];
pub const TYPES: [&str; 3] = ["", "KNOWS", "r 2"];
pub const KEYS: [&str; 4] = ["k", "a b", "\u{43a}\u{43b}\u{44e}\u{447}", "K"];
pub const N_VALUES: u32 = 18;

pub fn value(tag: u32) -> PropertyValue {
    match tag {
        0 => PropertyValue::Null,
        1 => PropertyValue::Integer(1),
        2 => PropertyValue::Integer(-7),
        3 => PropertyValue::String("x".into()),
        4 => PropertyValue::String(" padded ".into()),
        5 => PropertyValue::Float(1.5),
        6 => PropertyValue::Boolean(true),
        7 => PropertyValue::Array(vec![PropertyValue::Integer(1), PropertyValue::String("a".into())]),
        8 => {
            let mut m = HashMap::new();
            m.insert("m".to_string(), PropertyValue::Integer(2));
            m.insert("n".to_string(), PropertyValue::Array(vec![]));
            PropertyValue::Map(m)
        }
        9 => PropertyValue::String("\u{65e5}\u{672c}\n".into()),
        10 => PropertyValue::Vector(vec![0.5, 1.0]),
        11 => PropertyValue::DateTime(5),
        12 => PropertyValue::Duration { months: 1, days: -2, seconds: 3, nanos: 4 },
        13 => PropertyValue::Integer(i64::MIN),
        14 => PropertyValue::String(String::new()),
        15 => PropertyValue::Array(vec![]),
        16 => PropertyValue::String("0123456789abcdef".repeat(1024)), // 16 KiB
        17 => PropertyValue::Array(vec![PropertyValue::Array(vec![PropertyValue::Null]), PropertyValue::Float(-2.5e300)]),
        _ => panic!("no value with tag {}", tag),
    }
}
pub fn value_tag(v: &PropertyValue) -> Option<u32> {
    (0..N_VALUES).find(|t| &value(*t) == v)
}
pub fn props_of(ps: &[(u32, u32)]) -> PropertyMap {
    let mut m = PropertyMap::new();
    for (k, v) in ps {
        m.insert(KEYS[*k as usize].to_string(), value(*v));
    }
    m
}

#[derive(Clone, Debug, PartialEq)]
pub enum Op {
    CreateNode { id: u64, labels: Vec<u32>, props: Vec<(u32, u32)> },
    CreateEdge { id: u64, src: u64, tgt: u64, ty: u32, props: Vec<(u32, u32)> },
    DeleteNode(u64),
    DeleteEdge(u64),
    UpdateNode(u64, Vec<(u32, u32)>),
    UpdateEdge(u64, Vec<(u32, u32)>),
}

fn show_nats(l: &[u32]) -> String {
    if l.is_empty() { "-".into() } else { l.iter().map(|x| x.to_string()).collect::<Vec<_>>().join("+") }
}
fn show_props(p: &[(u32, u32)]) -> String {
    if p.is_empty() { "-".into() } else { p.iter().map(|(k, v)| format!("{}={}", k, v)).collect::<Vec<_>>().join("+") }
}
fn parse_nats(s: &str) -> Option<Vec<u32>> {
    if s == "-" { return Some(vec![]); }
    s.split('+').map(|x| x.parse().ok()).collect()
}
fn parse_props(s: &str) -> Option<Vec<(u32, u32)>> {
    if s == "-" { return Some(vec![]); }
    s.split('+').map(|kv| { let (k, v) = kv.split_once('=')?; Some((k.parse().ok()?, v.parse().ok()?)) }).collect()
}

impl Op {
    pub fn render(&self) -> String {
        match self {
            Op::CreateNode { id, labels, props } => format!("cn:{}:{}:{}", id, show_nats(labels), show_props(props)),
            Op::CreateEdge { id, src, tgt, ty, props } => format!("ce:{}:{}:{}:{}:{}", id, src, tgt, ty, show_props(props)),
            Op::DeleteNode(id) => format!("dn:{}", id),
            Op::DeleteEdge(id) => format!("de:{}", id),
            Op::UpdateNode(id, p) => format!("un:{}:{}", id, show_props(p)),
            Op::UpdateEdge(id, p) => format!("ue:{}:{}", id, show_props(p)),
        }
    }
    pub fn parse(s: &str) -> Option<Op> {
        let f: Vec<&str> = s.split(':').collect();
        let ok_tags = |ls: &Vec<u32>, n: usize| ls.iter().all(|x| (*x as usize) < n);
        let ok_props = |ps: &Vec<(u32, u32)>| ps.iter().all(|(k, v)| (*k as usize) < KEYS.len() && *v < N_VALUES);
        Some(match f.as_slice() {
            ["cn", id, ls, ps] => {
                let (labels, props) = (parse_nats(ls)?, parse_props(ps)?);
                if !ok_tags(&labels, LABELS.len()) || !ok_props(&props) { return None; }
                Op::CreateNode { id: id.parse().ok()?, labels, props }
            }
            ["ce", id, a, b, ty, ps] => {
                let props = parse_props(ps)?;
                let ty: u32 = ty.parse().ok()?;
                if ty as usize >= TYPES.len() || !ok_props(&props) { return None; }
                Op::CreateEdge { id: id.parse().ok()?, src: a.parse().ok()?, tgt: b.parse().ok()?, ty, props }
            }
            ["dn", id] => Op::DeleteNode(id.parse().ok()?),
            ["de", id] => Op::DeleteEdge(id.parse().ok()?),
            ["un", id, ps] => { let p = parse_props(ps)?; if !ok_props(&p) { return None; } Op::UpdateNode(id.parse().ok()?, p) }
            ["ue", id, ps] => { let p = parse_props(ps)?; if !ok_props(&p) { return None; } Op::UpdateEdge(id.parse().ok()?, p) }
            _ => return None,
        })
    }
    pub fn kind(&self) -> &'static str {
        match self {
            Op::CreateNode { .. } => "create_node",
            Op::CreateEdge { .. } => "create_edge",
            Op::DeleteNode(_) => "delete_node",
            Op::DeleteEdge(_) => "delete_edge",
            Op::UpdateNode(..) => "update_node",
            Op::UpdateEdge(..) => "update_edge",
        }
    }
    pub fn is_update(&self) -> bool {
        matches!(self, Op::UpdateNode(..) | Op::UpdateEdge(..))
    }
}
pub fn render_ops(ops: &[Op]) -> String {
    if ops.is_empty() { "-".into() } else { ops.iter().map(|o| o.render()).collect::<Vec<_>>().join(";") }
}
pub fn parse_ops(s: &str) -> Option<Vec<Op>> {
    if s == "-" { return Some(vec![]); }
    s.split(';').map(Op::parse).collect()
}

#[derive(Clone, Debug, PartialEq)]
pub struct Cfg {
    pub registered: bool,
    pub enabled: bool,
    pub max_nodes: Option<usize>,
    pub max_edges: Option<usize>,
}
impl Cfg {
    pub fn open() -> Cfg { Cfg { registered: true, enabled: true, max_nodes: None, max_edges: None } }
    pub fn render(&self) -> String {
        let o = |x: &Option<usize>| x.map(|v| v.to_string()).unwrap_or("-".into());
        format!("{}.{}.{}.{}", self.registered as u8, self.enabled as u8, o(&self.max_nodes), o(&self.max_edges))
    }
    pub fn parse(s: &str) -> Option<Cfg> {
        let f: Vec<&str> = s.split('.').collect();
        if f.len() != 4 { return None; }
        let b = |x: &str| match x { "1" => Some(true), "0" => Some(false), _ => None };
        let o = |x: &str| if x == "-" { Some(None) } else { x.parse().ok().map(Some) };
        Some(Cfg { registered: b(f[0])?, enabled: b(f[1])?, max_nodes: o(f[2])?, max_edges: o(f[3])? })
    }
    /// register the tenant in a manager's (volatile) tenant registry
    pub fn setup(&self, pm: &PersistenceManager, tenant: &str) {
        if !self.registered || tenant == "default" { return; }
        let mut q = ResourceQuotas::unlimited();
        q.max_nodes = self.max_nodes;
        q.max_edges = self.max_edges;
        pm.tenants().create_tenant(tenant.to_string(), tenant.to_string(), Some(q)).expect("create_tenant");
        if !self.enabled {
            pm.tenants().set_enabled(tenant, false).expect("set_enabled");
        }
    }
}

pub fn err_name(e: &PersistenceError) -> String {
    match e {
        PersistenceError::Tenant(TenantError::NotFound(_)) => "notfound".into(),
        PersistenceError::Tenant(TenantError::PermissionDenied(_)) => "denied".into(),
        PersistenceError::Tenant(TenantError::QuotaExceeded { .. }) => "quota".into(),
        other => format!("other[{}]", other.to_string().replace(|c: char| c.is_whitespace() || c == '|' || c == ',', "_")),
    }
}

pub fn mk_node(id: u64, labels: &[u32], props: &[(u32, u32)]) -> Node {
    let mut n = Node::with_labels(NodeId::new(id), labels.iter().map(|l| Label::new(LABELS[*l as usize])));
    n.properties = props_of(props);
    n
}
pub fn mk_edge(id: u64, src: u64, tgt: u64, ty: u32, props: &[(u32, u32)]) -> Edge {
    let mut e = Edge::new(EdgeId::new(id), NodeId::new(src), NodeId::new(tgt), EdgeType::new(TYPES[ty as usize]));
    e.properties = props_of(props);
    e
}

/// one `persist_*` call; the result as the model's `Res`
pub fn apply(pm: &PersistenceManager, tenant: &str, op: &Op) -> String {
    let r = match op {
        Op::CreateNode { id, labels, props } => pm.persist_create_node(tenant, &mk_node(*id, labels, props)),
        Op::CreateEdge { id, src, tgt, ty, props } => pm.persist_create_edge(tenant, &mk_edge(*id, *src, *tgt, *ty, props)),
        Op::DeleteNode(id) => pm.persist_delete_node(tenant, *id),
        Op::DeleteEdge(id) => pm.persist_delete_edge(tenant, *id),
        // both the unversioned entry point and versions != 0 (the version is not stored)
        Op::UpdateNode(id, p) if p.is_empty() => pm.persist_update_node_properties(tenant, *id, &props_of(p)),
        Op::UpdateNode(id, p) => pm.persist_update_node_properties_versioned(tenant, *id, &props_of(p), p.len() as u64),
        Op::UpdateEdge(id, p) => pm.persist_update_edge_properties(tenant, *id, &props_of(p), p.len() as u64),
    };
    match r {
        Ok(()) => "ok".into(),
        Err(e) => err_name(&e),
    }
}

fn canon_props(m: &PropertyMap) -> String {
    let mut v: Vec<(String, String)> = m
        .iter()
        .map(|(k, v)| {
            let kt = KEYS.iter().position(|x| x == k).map(|i| i.to_string()).unwrap_or(format!("?{:?}", k));
            let vt = value_tag(v).map(|t| t.to_string()).unwrap_or(format!("?{:?}", v));
            (kt, vt)
        })
        .collect();
    v.sort_by_key(|(k, _)| k.parse::<u32>().unwrap_or(u32::MAX));
    if v.is_empty() { "-".into() } else { v.iter().map(|(k, v)| format!("{}={}", k, v)).collect::<Vec<_>>().join("+") }
}

/// `recover(tenant)` in the dump syntax of the driver: nodes and edges sorted by id
pub fn dump(pm: &PersistenceManager, tenant: &str) -> Result<String, String> {
    let (mut nodes, mut edges) = pm.recover(tenant).map_err(|e| err_name(&e))?;
    nodes.sort_by_key(|n| n.id.as_u64());
    edges.sort_by_key(|e| e.id.as_u64());
    let ns: Vec<String> = nodes
        .iter()
        .map(|n| {
            let mut ls: Vec<String> = n
                .labels
                .iter()
                .map(|l| LABELS.iter().position(|x| *x == l.as_str()).map(|i| i.to_string()).unwrap_or(format!("?{:?}", l.as_str())))
                .collect();
            ls.sort_by_key(|x| x.parse::<u32>().unwrap_or(u32::MAX));
            format!("{}:{}:{}", n.id.as_u64(), if ls.is_empty() { "-".into() } else { ls.join("+") }, canon_props(&n.properties))
        })
        .collect();
    let es: Vec<String> = edges
        .iter()
        .map(|e| {
            let ty = TYPES.iter().position(|x| *x == e.edge_type.as_str()).map(|i| i.to_string()).unwrap_or(format!("?{:?}", e.edge_type.as_str()));
            format!("{}:{}:{}:{}:{}", e.id.as_u64(), e.source.as_u64(), e.target.as_u64(), ty, canon_props(&e.properties))
        })
        .collect();
    let j = |v: Vec<String>| if v.is_empty() { "-".to_string() } else { v.join(",") };
    Ok(format!("{}/{}", j(ns), j(es)))
}

pub fn gen_props(rng: &mut Rng) -> Vec<(u32, u32)> {
    let mut ps = vec![];
    for k in 0..KEYS.len() as u32 {
        if rng.chance(1, 3) {
            ps.push((k, rng.below(N_VALUES as u64) as u32));
        }
    }
    ps
}
pub fn gen_labels(rng: &mut Rng) -> Vec<u32> {
    let mut ls = vec![];
    for l in 0..LABELS.len() as u32 {
        if rng.chance(if l == 0 { 1 } else { 2 }, 5) {
            ls.push(l);
        }
    }
    ls
}
/// ids from a small range so that re-puts, deletes of absent ids and updates of present and
/// absent entities all happen
pub const BIG_IDS: [u64; 3] = [0, 1 << 32, u64::MAX];
pub fn gen_op(rng: &mut Rng, max_id: u64) -> Op {
    // mostly small ids; now and then 0, 2^32 and u64::MAX (key formatting, ordering)
    let id = if rng.chance(1, 10) { *rng.pick(&BIG_IDS) } else { 1 + rng.below(max_id) };
    match rng.below(12) {
        0..=2 => Op::CreateNode { id, labels: gen_labels(rng), props: gen_props(rng) },
        3..=4 => Op::CreateEdge { id, src: 1 + rng.below(max_id), tgt: 1 + rng.below(max_id), ty: rng.below(TYPES.len() as u64) as u32, props: gen_props(rng) },
        5 => Op::DeleteNode(id),
        6 => Op::DeleteEdge(id),
        7..=9 => Op::UpdateNode(id, gen_props(rng)),
        _ => Op::UpdateEdge(id, gen_props(rng)),
    }
}
