//! C33 — cluster health: real `ClusterConfig`/`ClusterManager` vs the Lean model
//! `SgModel.Quorum`, and the executable specification (healthy only with a leader and a
//! strict majority of the *distinct* voter ids active) evaluated on the implementation's
//! observations after every operation.
use samyama::raft::cluster::{NodeConfig, NodeRole};
use samyama::raft::{ClusterConfig, ClusterManager};
use serde_json::json;
use vharness::{driver, Args, Known, Report, Rng};

#[derive(Clone, Debug, PartialEq)]
struct Item {
    add: bool, // true: ClusterConfig::add_node ; false: raw push into the pub `nodes` Vec
    id: u64,
    voter: bool,
}

#[derive(Clone, Debug, PartialEq)]
enum Op {
    Add(u64, bool, bool), // id, voter, alt: announce a different address than the one registered before
    Remove(u64),
    Active(u64),
    Inactive(u64),
    Role(u64, char), // L F C N
    Update(Vec<(u64, bool)>),
}

#[derive(Clone, Debug)]
struct Case {
    cfg: Vec<Item>,
    rf: usize,
    ops: Vec<Op>,
}

fn fl(v: bool) -> char {
    if v { 'v' } else { 'l' }
}

fn render(c: &Case) -> String {
    let cfg = if c.cfg.is_empty() {
        "-".to_string()
    } else {
        c.cfg
            .iter()
            .map(|i| format!("{}{}{}", if i.add { 'a' } else { 'p' }, i.id, fl(i.voter)))
            .collect::<Vec<_>>()
            .join(",")
    };
    let ops = if c.ops.is_empty() {
        "_".to_string()
    } else {
        c.ops
            .iter()
            .map(|o| match o {
                Op::Add(i, v, alt) => format!("{}{}{}", if *alt { 'B' } else { 'A' }, i, fl(*v)),
                Op::Remove(i) => format!("R{}", i),
                Op::Active(i) => format!("+{}", i),
                Op::Inactive(i) => format!("-{}", i),
                Op::Role(i, r) => format!("L{}{}", i, r),
                Op::Update(ns) => {
                    if ns.is_empty() {
                        "U-".to_string()
                    } else {
                        format!("U{}", ns.iter().map(|(i, v)| format!("{}{}", i, fl(*v))).collect::<Vec<_>>().join("."))
                    }
                }
            })
            .collect::<Vec<_>>()
            .join(";")
    };
    format!("{} {} {}", cfg, c.rf, ops)
}

fn parse_node(s: &str) -> Option<(u64, bool)> {
    let (num, f) = s.split_at(s.len().checked_sub(1)?);
    let v = match f {
        "v" => true,
        "l" => false,
        _ => return None,
    };
    Some((num.parse().ok()?, v))
}

fn parse(line: &str) -> Option<Case> {
    let t: Vec<&str> = line.split_whitespace().collect();
    if t.len() != 3 {
        return None;
    }
    let mut cfg = vec![];
    if t[0] != "-" {
        for it in t[0].split(',') {
            let add = match it.chars().next()? {
                'a' => true,
                'p' => false,
                _ => return None,
            };
            let (id, voter) = parse_node(&it[1..])?;
            cfg.push(Item { add, id, voter });
        }
    }
    let rf = t[1].parse().ok()?;
    let mut ops = vec![];
    if t[2] != "_" {
        for o in t[2].split(';') {
            let k = o.chars().next()?;
            let rest = &o[k.len_utf8()..];
            ops.push(match k {
                'A' | 'B' => {
                    let (i, v) = parse_node(rest)?;
                    Op::Add(i, v, k == 'B')
                }
                'R' => Op::Remove(rest.parse().ok()?),
                '+' => Op::Active(rest.parse().ok()?),
                '-' => Op::Inactive(rest.parse().ok()?),
                'L' => {
                    let (num, r) = rest.split_at(rest.len().checked_sub(1)?);
                    let r = r.chars().next()?;
                    if !"LFCN".contains(r) {
                        return None;
                    }
                    Op::Role(num.parse().ok()?, r)
                }
                'U' => {
                    if rest == "-" {
                        Op::Update(vec![])
                    } else {
                        Op::Update(rest.split('.').map(parse_node).collect::<Option<Vec<_>>>()?)
                    }
                }
                _ => return None,
            });
        }
    }
    Some(Case { cfg, rf, ops })
}

fn raw_config(rf: usize, ns: &[(u64, bool)]) -> ClusterConfig {
    let mut c = ClusterConfig::new("c33".to_string(), rf);
    for (id, voter) in ns {
        c.nodes.push(NodeConfig { id: *id, address: format!("10.0.0.{}:7000", id), voter: *voter });
    }
    c
}

async fn observe(m: &ClusterManager, ok: bool) -> String {
    let cfg = m.get_config().await;
    let nodes = if cfg.nodes.is_empty() {
        "-".to_string()
    } else {
        cfg.nodes.iter().map(|n| format!("{}{}", n.id, fl(n.voter))).collect::<Vec<_>>().join(",")
    };
    let mut act = m.get_active_nodes().await;
    act.sort();
    let active = if act.is_empty() { "-".to_string() } else { act.iter().map(|x| x.to_string()).collect::<Vec<_>>().join(",") };
    let mut roles = String::new();
    for i in 0..=6u64 {
        roles.push(match m.get_node_metadata(i).await.map(|x| x.role) {
            None => '_',
            Some(NodeRole::Leader) => 'L',
            Some(NodeRole::Follower) => 'F',
            Some(NodeRole::Candidate) => 'C',
            Some(NodeRole::Learner) => 'N',
        });
    }
    let h = m.health_status().await;
    format!(
        "{}|{}|{}|{}.{}.{}.{}.{}.{}|{}",
        nodes,
        active,
        roles,
        h.healthy as u8,
        h.total_nodes,
        h.active_nodes,
        h.total_voters,
        h.active_voters,
        h.has_leader as u8,
        ok as u8
    )
}

/// run the real code; "err" when ClusterManager::new rejects the configuration
fn run_real(rt: &tokio::runtime::Runtime, c: &Case) -> String {
    rt.block_on(async {
        let mut cfg = ClusterConfig::new("c33".to_string(), c.rf);
        for it in &c.cfg {
            if it.add {
                cfg.add_node(it.id, format!("10.0.0.{}:7000", it.id), it.voter);
            } else {
                cfg.nodes.push(NodeConfig { id: it.id, address: format!("10.0.0.{}:7000", it.id), voter: it.voter });
            }
        }
        let m = match ClusterManager::new(cfg) {
            Ok(m) => m,
            Err(_) => return "err".to_string(),
        };
        let mut obs = vec![observe(&m, true).await];
        for op in &c.ops {
            let ok = match op {
                Op::Add(i, v, alt) => m.add_node(*i, if *alt { format!("10.0.9.{}:7000", i) } else { format!("10.0.0.{}:7000", i) }, *v).await.is_ok(),
                Op::Remove(i) => m.remove_node(*i).await.is_ok(),
                Op::Active(i) => {
                    m.mark_active(*i).await;
                    true
                }
                Op::Inactive(i) => {
                    m.mark_inactive(*i).await;
                    true
                }
                Op::Role(i, r) => {
                    let role = match r {
                        'L' => NodeRole::Leader,
                        'F' => NodeRole::Follower,
                        'C' => NodeRole::Candidate,
                        _ => NodeRole::Learner,
                    };
                    m.update_node_role(*i, role).await;
                    true
                }
                Op::Update(ns) => m.update_config(raw_config(c.rf, ns)).await.is_ok(),
            };
            obs.push(observe(&m, ok).await);
        }
        obs.join(";")
    })
}

/// Appendix B: the configuration contains a repeated id (an add of / a raw push of an id
/// already present) or a voter/learner flip
fn nontrivial(c: &Case) -> bool {
    let mut present: Vec<u64> = vec![];
    for it in &c.cfg {
        if present.contains(&it.id) {
            return true;
        }
        present.push(it.id);
    }
    for op in &c.ops {
        match op {
            Op::Add(i, _, _) => {
                if present.contains(i) {
                    return true;
                }
                present.push(*i);
            }
            Op::Remove(i) => present.retain(|x| x != i),
            Op::Update(ns) => {
                let mut seen = vec![];
                for (i, _) in ns {
                    if seen.contains(i) {
                        return true;
                    }
                    seen.push(*i);
                }
            }
            _ => {}
        }
    }
    false
}

/// structural class of a violating observation
fn classify(obs: &str) -> &'static str {
    let nodes = obs.split('|').next().unwrap_or("");
    let mut voters: Vec<&str> = nodes.split(',').filter(|n| n.ends_with('v')).collect();
    let n = voters.len();
    voters.sort();
    voters.dedup();
    if voters.len() < n {
        "duplicate-voter-id"
    } else {
        "health-majority"
    }
}

/// ops visiting every subset of ids 1..=n as the active set (Gray code), starting from none active
fn sweep(n: u32) -> Vec<Op> {
    let mut ops = vec![];
    let mut prev = 0u32;
    for k in 1..(1u32 << n) {
        let g = k ^ (k >> 1);
        let diff = g ^ prev;
        let bit = diff.trailing_zeros();
        if g & diff != 0 {
            ops.push(Op::Active(bit as u64 + 1));
        } else {
            ops.push(Op::Inactive(bit as u64 + 1));
        }
        prev = g;
    }
    ops
}

fn main() {
    let args = Args::parse();
    let known = Known::load(&args.known, "C33");
    let mut rep = Report::new(
        "C33",
        "membership histories (ClusterConfig::add_node / raw pushes, then add/remove/update_config, role updates) x active sets; \
         health_status observed after every operation; non-trivial = the history adds or installs an id that is already present \
         (repeated id or voter/learner flip); distinct = distinct rendered case",
        &args.replays,
        args.seed,
    );
    let exe = args.driver_exe("drv_quorum");
    let rt = tokio::runtime::Builder::new_current_thread().build().unwrap();

    let mut cases: Vec<Case> = vec![];
    let mut files: Vec<std::path::PathBuf> = vec![];
    if let Some(r) = &args.replay {
        files.push(r.clone());
    } else if let Ok(rd) = std::fs::read_dir(args.corpus.join("C33")) {
        files = rd.filter_map(|e| e.ok().map(|e| e.path())).collect();
        files.sort();
    }
    let mut n_corpus = 0;
    for f in &files {
        for line in std::fs::read_to_string(f).unwrap_or_default().lines() {
            if let Some(rest) = line.trim().strip_prefix("case ") {
                if let Some(c) = parse(rest) {
                    cases.push(c);
                    n_corpus += 1;
                }
            }
        }
    }
    rep.count_n("corpus_cases", n_corpus);

    if args.replay.is_none() {
        // exhaustive small scope: initial configurations x one membership op x all active
        // subsets of {1,2,3} x leader choice
        let ids: [u64; 3] = [1, 2, 3];
        let mut letters: Vec<Item> = vec![];
        for add in [true, false] {
            for id in ids {
                for voter in [true, false] {
                    letters.push(Item { add, id, voter });
                }
            }
        }
        let adds: Vec<Item> = letters.iter().filter(|i| i.add).cloned().collect();
        let mut cfgs: Vec<Vec<Item>> = vec![];
        // add_node-only configurations up to length 3, mixed add/raw up to length 2 (thorough: 3)
        for l in 1..=3usize {
            let n = adds.len();
            for mut x in 0..n.pow(l as u32) {
                let mut c = vec![];
                for _ in 0..l {
                    c.push(adds[x % n].clone());
                    x /= n;
                }
                cfgs.push(c);
            }
        }
        let lm = if args.thorough() { 3 } else { 2 };
        for l in 1..=lm {
            let n = letters.len();
            for mut x in 0..n.pow(l as u32) {
                let mut c = vec![];
                for _ in 0..l {
                    c.push(letters[x % n].clone());
                    x /= n;
                }
                if c.iter().any(|i| !i.add) {
                    cfgs.push(c);
                }
            }
        }
        let mut mids: Vec<Vec<Op>> = vec![vec![]];
        for id in ids {
            mids.push(vec![Op::Add(id, true, false)]);
            mids.push(vec![Op::Add(id, false, false)]);
            mids.push(vec![Op::Remove(id)]);
        }
        if args.thorough() {
            mids.push(vec![Op::Update(vec![(1, true), (1, true), (2, true)])]);
            mids.push(vec![Op::Update(vec![(1, true), (1, false)])]);
            mids.push(vec![Op::Update(vec![])]);
            mids.push(vec![Op::Add(1, true, true), Op::Add(1, false, true)]);
            mids.push(vec![Op::Remove(1), Op::Add(1, true, false)]);
        }
        let gray = sweep(3);
        for cfg in &cfgs {
            for mid in &mids {
                for leader in 0..=3u64 {
                    let mut ops = mid.clone();
                    if leader > 0 {
                        ops.push(Op::Role(leader, 'L'));
                    }
                    ops.extend(gray.iter().cloned());
                    cases.push(Case { cfg: cfg.clone(), rf: 1, ops });
                }
            }
        }
        // self-review block: continuations a one-step alphabet cannot reach — voter<->learner
        // flips back and forth (same and changed address), removing / demoting / re-adding the
        // leader, update_config with repeated ids followed by add/remove — on every add_node-only
        // initial configuration of length <= 2 (and the length-3 ones in the thorough tier)
        let mut deep: Vec<(Vec<Op>, bool)> = vec![]; // (ops, has its own leader op)
        for id in [1u64, 2] {
            for alt in [false, true] {
                deep.push((vec![Op::Add(id, false, alt), Op::Add(id, true, alt)], false));
                deep.push((vec![Op::Add(id, true, alt), Op::Add(id, false, alt)], false));
                deep.push((vec![Op::Add(id, false, alt), Op::Add(id, true, alt), Op::Add(id, false, alt)], false));
                deep.push((vec![Op::Add(id, true, alt), Op::Add(id, false, !alt), Op::Add(id, true, alt)], false));
                deep.push((vec![Op::Role(id, 'L'), Op::Add(id, false, alt)], true));
                deep.push((vec![Op::Role(id, 'L'), Op::Add(id, true, alt)], true));
            }
            deep.push((vec![Op::Role(id, 'L'), Op::Remove(id)], true));
            deep.push((vec![Op::Role(id, 'L'), Op::Remove(id), Op::Add(id, true, false)], true));
            deep.push((vec![Op::Role(id, 'L'), Op::Role(3, 'C'), Op::Remove(id), Op::Role(3, 'L')], true));
            deep.push((vec![Op::Role(id, 'L'), Op::Role(id, 'F')], true));
        }
        for dup in [
            vec![(1u64, true), (1, true), (2, true)],
            vec![(1, true), (1, false)],
            vec![(1, false), (1, true), (2, true), (2, true), (3, true)],
            vec![(2, true), (1, true), (2, true)],
            vec![],
        ] {
            deep.push((vec![Op::Update(dup.clone())], false));
            deep.push((vec![Op::Update(dup.clone()), Op::Add(1, false, false)], false));
            deep.push((vec![Op::Update(dup.clone()), Op::Add(1, true, true)], false));
            deep.push((vec![Op::Update(dup.clone()), Op::Remove(1)], false));
            deep.push((vec![Op::Update(dup.clone()), Op::Remove(2), Op::Add(2, true, false)], false));
        }
        let deep_len = if args.thorough() { 3 } else { 2 };
        let mut n_deep = 0;
        for cfg in cfgs.iter().filter(|c| c.len() <= deep_len && c.iter().all(|i| i.add)) {
            for (mid, own_leader) in &deep {
                for leader in 0..=3u64 {
                    if *own_leader && leader > 0 {
                        continue;
                    }
                    let mut ops = mid.clone();
                    if leader > 0 {
                        ops.push(Op::Role(leader, 'L'));
                    }
                    ops.extend(gray.iter().cloned());
                    cases.push(Case { cfg: cfg.clone(), rf: 1, ops });
                    n_deep += 1;
                }
            }
        }
        rep.count_n("deep_continuation_cases(flips,leader removal,update_config duplicates)", n_deep);
        rep.exhaustive = true;
        rep.exhaustive_note = format!(
            "{} initial configurations (all add_node sequences of length <= 3 and all add/raw-push sequences of length <= {} over ids 1-3 x voter/learner) \
             x {} membership continuations x leader in {{none,1,2,3}} x all 8 active subsets (Gray-code sweep, health observed after every step); \
             plus PRNG histories over 5 ids with a full 32-subset sweep (not exhaustive)",
            cfgs.len(),
            lm,
            mids.len()
        );

        // random histories over ids 1..=5 (and a stray id 6), every op kind, then all 32 subsets
        let mut rng = Rng::new(args.seed);
        let n_rand = if args.thorough() { 60_000 } else { 6_000 };
        let gray5 = sweep(5);
        for _ in 0..n_rand {
            let mut cfg = vec![];
            for _ in 0..1 + rng.usize(5) {
                cfg.push(Item { add: rng.chance(3, 4), id: 1 + rng.below(5), voter: rng.chance(3, 4) });
            }
            let rf = if rng.chance(1, 6) { 2 } else { 1 };
            let mut ops = vec![];
            for _ in 0..rng.usize(9) {
                let span = if rng.chance(1, 10) { 6 } else { 5 };
                let id = 1 + rng.below(span);
                ops.push(match rng.below(12) {
                    0..=3 => Op::Add(id, rng.chance(2, 3), rng.chance(1, 3)),
                    4..=5 => Op::Remove(id),
                    6 => Op::Active(id),
                    7 => Op::Inactive(id),
                    8..=9 => Op::Role(id, *rng.pick(&['L', 'L', 'F', 'C', 'N'])),
                    _ => {
                        let mut ns = vec![];
                        for _ in 0..rng.usize(5) {
                            ns.push((1 + rng.below(5), rng.chance(2, 3)));
                        }
                        Op::Update(ns)
                    }
                });
            }
            ops.push(Op::Role(1 + rng.below(5), 'L'));
            ops.extend(gray5.iter().cloned());
            cases.push(Case { cfg, rf, ops });
        }
    }

    let mut first_break: Option<String> = None;
    for chunk in cases.chunks(100_000) {
        let rendered: Vec<String> = chunk.iter().map(render).collect();
        let real: Vec<String> = chunk.iter().map(|c| run_real(&rt, c)).collect();
        let mut lines = Vec::with_capacity(chunk.len() * 2);
        for (r, o) in rendered.iter().zip(real.iter()) {
            lines.push(format!("run {}", r));
            if o == "err" {
                lines.push("spec skip".to_string()); // nothing was observed: driver answers bad-op
            } else {
                lines.push(format!("spec {} {}", r.rsplit(' ').next().unwrap_or("_"), o));
            }
        }
        let replies = driver::par_batch(&exe, &lines, 12);
        for (k, c) in chunk.iter().enumerate() {
            let m = &replies[2 * k];
            let s = &replies[2 * k + 1];
            let nt = nontrivial(c) && real[k] != "err";
            rep.case(&rendered[k], nt);
            if real[k] == "err" {
                rep.count("new_rejected");
            } else {
                for o in &c.ops {
                    rep.count(match o {
                        Op::Add(..) => "op:add_node",
                        Op::Remove(..) => "op:remove_node",
                        Op::Active(..) => "op:mark_active",
                        Op::Inactive(..) => "op:mark_inactive",
                        Op::Role(..) => "op:update_node_role",
                        Op::Update(..) => "op:update_config",
                    });
                }
                let nh = real[k].split(';').filter(|o| o.split('|').nth(3).map_or(false, |h| h.starts_with('1'))).count();
                rep.count_n("obs:healthy", nh as u64);
                rep.count_n("obs:total", real[k].split(';').count() as u64);
                if real[k].split(';').any(|o| classify(o) == "duplicate-voter-id") {
                    rep.count("cases_with_repeated_voter_id_in_config");
                }
            }
            if nt && rep.samples.len() < 3 {
                rep.sample(json!({"case": rendered[k], "impl_obs_last": real[k].rsplit(';').next()}));
            }
            let body = format!("case {}\nimpl  {}\nmodel {}\nspec  {}", rendered[k], real[k], m, s);
            if real[k] == "err" {
                if m != "err" {
                    rep.count("model_mismatch");
                    first_break.get_or_insert(body);
                }
                continue;
            }
            if s != "ok" {
                let mut f = s.split_whitespace().skip(1);
                let at = f.next().and_then(|x| x.parse::<usize>().ok());
                let clause = f.next().unwrap_or("");
                let sig = match at {
                    Some(_) if clause == "membership" => "membership-op-not-applied",
                    Some(i) => classify(real[k].split(';').nth(i).unwrap_or("")),
                    None => "driver-rejected",
                };
                rep.count(&format!("spec_violation:{}", sig));
                rep.spec_violation(
                    &known,
                    sig,
                    &format!(
                        "{} ({}) on `{}`",
                        if sig == "membership-op-not-applied" {
                            "an acknowledged membership operation is not reflected in the configuration that health is computed over"
                        } else {
                            "health_status claims healthy without a strict majority of distinct voters"
                        },
                        s,
                        rendered[k]
                    ),
                    &body,
                );
            } else if *m != format!("ok {}", real[k]) {
                rep.count("model_mismatch");
                first_break.get_or_insert(body);
            }
        }
    }
    if let Some(body) = first_break {
        if rep.spec_violations.is_empty() {
            rep.correspondence_break(
                "SgModel.Quorum.{mk,stepWith cfgAdd,health} = ClusterConfig::add_node / ClusterManager::{new,add_node,remove_node,mark_*,update_node_role,update_config,health_status} (observations)",
                "model and implementation observations differ but the specification holds on all explored cases",
                &body,
            );
        }
    }
    rep.sample(json!({"case": cases.last().map(render)}));
    rep.write(&args.out);
}
