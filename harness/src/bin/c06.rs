//! C06 — graph store read views vs the graph that was built: the real `GraphStore` against the
//! Lean model `SgModel.Store` (driver `drv_store`), and the executable specification
//! (`specObs` / `specStep`) evaluated on the implementation's observations after EVERY step.
//!
//! Ops name entities by handle (creation ordinal); the harness resolves a handle to the id the
//! real store returned (a dead handle resolves to its last id, so stale ids are probed too).
use samyama::graph::{EdgeId, EdgeType, GraphError, GraphStore, Label, NodeId, PropertyMap, PropertyValue};
use serde_json::json;
use std::panic::{catch_unwind, AssertUnwindSafe};
use vharness::{driver, Args, Known, Report, Rng};

#[derive(Clone, Debug, PartialEq)]
enum Op {
    MkN(u8),
    MkNP(u8, u8, u8),
    MkNS(u8),
    MkE(usize, usize, u8),
    MkEP(usize, usize, u8, u8, u8),
    MkES(usize, usize, u8),
    DelE(usize),
    DelN(usize),
    AddL(usize, u8),
    RmL(usize, u8),
    SetNP(usize, u8, u8),
    RmNP(usize, u8),
    SetEP(usize, u8, u8),
    RmEP(usize, u8),
    Compact,
    Finish,
    Clear,
}

fn kind(op: &Op) -> &'static str {
    match op {
        Op::MkN(..) => "mkN", Op::MkNP(..) => "mkNP", Op::MkNS(..) => "mkNS", Op::MkE(..) => "mkE",
        Op::MkEP(..) => "mkEP", Op::MkES(..) => "mkES", Op::DelE(..) => "delE", Op::DelN(..) => "delN",
        Op::AddL(..) => "addL", Op::RmL(..) => "rmL", Op::SetNP(..) => "setNP", Op::RmNP(..) => "rmNP",
        Op::SetEP(..) => "setEP", Op::RmEP(..) => "rmEP", Op::Compact => "compact", Op::Finish => "finish",
        Op::Clear => "clear",
    }
}

/// handle-level text (corpus / replay format)
fn render_h(ops: &[Op]) -> String {
    ops.iter()
        .map(|op| match op {
            Op::MkN(l) => format!("mkN.{}", l),
            Op::MkNP(l, k, v) => format!("mkNP.{}.{}.{}", l, k, v),
            Op::MkNS(l) => format!("mkNS.{}", l),
            Op::MkE(a, b, t) => format!("mkE.{}.{}.{}", a, b, t),
            Op::MkEP(a, b, t, k, v) => format!("mkEP.{}.{}.{}.{}.{}", a, b, t, k, v),
            Op::MkES(a, b, t) => format!("mkES.{}.{}.{}", a, b, t),
            Op::DelE(e) => format!("delE.{}", e),
            Op::DelN(n) => format!("delN.{}", n),
            Op::AddL(n, l) => format!("addL.{}.{}", n, l),
            Op::RmL(n, l) => format!("rmL.{}.{}", n, l),
            Op::SetNP(n, k, v) => format!("setNP.{}.{}.{}", n, k, v),
            Op::RmNP(n, k) => format!("rmNP.{}.{}", n, k),
            Op::SetEP(e, k, v) => format!("setEP.{}.{}.{}", e, k, v),
            Op::RmEP(e, k) => format!("rmEP.{}.{}", e, k),
            Op::Compact => "compact".into(),
            Op::Finish => "finish".into(),
            Op::Clear => "clear".into(),
        })
        .collect::<Vec<_>>()
        .join(";")
}

fn parse_h(s: &str) -> Option<Vec<Op>> {
    let mut out = vec![];
    for p in s.split(';') {
        let f: Vec<&str> = p.split('.').collect();
        let n = |i: usize| -> Option<usize> { f.get(i)?.parse().ok() };
        let b = |i: usize| -> Option<u8> { f.get(i)?.parse().ok() };
        out.push(match f[0] {
            "mkN" => Op::MkN(b(1)?),
            "mkNP" => Op::MkNP(b(1)?, b(2)?, b(3)?),
            "mkNS" => Op::MkNS(b(1)?),
            "mkE" => Op::MkE(n(1)?, n(2)?, b(3)?),
            "mkEP" => Op::MkEP(n(1)?, n(2)?, b(3)?, b(4)?, b(5)?),
            "mkES" => Op::MkES(n(1)?, n(2)?, b(3)?),
            "delE" => Op::DelE(n(1)?),
            "delN" => Op::DelN(n(1)?),
            "addL" => Op::AddL(n(1)?, b(2)?),
            "rmL" => Op::RmL(n(1)?, b(2)?),
            "setNP" => Op::SetNP(n(1)?, b(2)?, b(3)?),
            "rmNP" => Op::RmNP(n(1)?, b(2)?),
            "setEP" => Op::SetEP(n(1)?, b(2)?, b(3)?),
            "rmEP" => Op::RmEP(n(1)?, b(2)?),
            "compact" => Op::Compact,
            "finish" => Op::Finish,
            "clear" => Op::Clear,
            _ => return None,
        });
    }
    Some(out)
}

/// the harness' own bookkeeping: which handles are live, which relationships are frozen;
/// used by the generators (preconditions) and by the non-triviality rule
#[derive(Clone, Default)]
struct Shadow {
    nodes: Vec<bool>,
    edges: Vec<(usize, usize, bool, bool)>, // src handle, tgt handle, live, frozen
    pending: bool,
    stage: u8, // 0 → compaction of ≥1 live rel → 1 → delete of a frozen rel/node → 2 → create → 3
    compactions: u64,
    frozen_deletes: u64,
    creates_after: u64,
    segments: u64,
}

impl Shadow {
    fn live_n(&self, h: usize) -> bool { self.nodes.get(h).copied().unwrap_or(false) }
    fn live_e(&self, h: usize) -> bool { self.edges.get(h).map(|e| e.2).unwrap_or(false) }
    fn n_live_nodes(&self) -> usize { self.nodes.iter().filter(|x| **x).count() }
    fn n_live_edges(&self) -> usize { self.edges.iter().filter(|x| x.2).count() }
    /// is the op inside the API's preconditions in this state?
    fn allowed(&self, op: &Op) -> bool {
        match op {
            Op::MkES(a, b, _) => self.live_n(*a) && self.live_n(*b),
            Op::MkE(a, b, _) | Op::MkEP(a, b, ..) => *a < self.nodes.len() && *b < self.nodes.len(),
            Op::SetNP(n, ..) => self.live_n(*n),
            Op::SetEP(e, ..) => self.live_e(*e),
            Op::DelE(e) | Op::RmEP(e, _) => *e < self.edges.len(),
            Op::DelN(n) | Op::AddL(n, _) | Op::RmL(n, _) | Op::RmNP(n, _) => *n < self.nodes.len(),
            _ => true,
        }
    }
    fn created(&mut self) {
        if self.stage == 2 { self.stage = 3; }
        if self.stage >= 2 { self.creates_after += 1; }
    }
    fn kill_edge(&mut self, h: usize) {
        if self.edges[h].2 {
            self.edges[h].2 = false;
            if self.edges[h].3 {
                self.frozen_deletes += 1;
                if self.stage == 1 { self.stage = 2; }
            }
        }
    }
    fn apply(&mut self, op: &Op) {
        match op {
            Op::MkN(_) | Op::MkNP(..) | Op::MkNS(_) => { self.nodes.push(true); self.created(); }
            Op::MkE(a, b, _) | Op::MkEP(a, b, ..) | Op::MkES(a, b, _) => {
                let ok = self.live_n(*a) && self.live_n(*b);
                self.edges.push((*a, *b, ok, false));
                if ok { self.created(); }
                if ok && matches!(op, Op::MkES(..)) { self.pending = true; }
            }
            Op::DelE(e) => self.kill_edge(*e),
            Op::DelN(n) => {
                if self.live_n(*n) {
                    self.nodes[*n] = false;
                    for h in 0..self.edges.len() {
                        if self.edges[h].0 == *n || self.edges[h].1 == *n { self.kill_edge(h); }
                    }
                }
            }
            Op::Compact | Op::Finish => {
                let mut any = false;
                for e in self.edges.iter_mut() {
                    if e.2 && !e.3 { e.3 = true; any = true; }
                }
                if any {
                    self.compactions += 1;
                    self.segments += 1;
                    if self.stage == 0 { self.stage = 1; }
                }
                if matches!(op, Op::Finish) { self.pending = false; }
            }
            Op::Clear => {
                for n in self.nodes.iter_mut() { *n = false; }
                for e in self.edges.iter_mut() { e.2 = false; }
                self.pending = false;
                self.segments = 0;
            }
            _ => {}
        }
    }
}

fn lab(l: u8) -> Label { Label::new(format!("L{}", l)) }
fn ety(t: u8) -> EdgeType { EdgeType::new(format!("T{}", t)) }
fn key(k: u8) -> String { format!("k{}", k) }
fn tag(s: &str) -> u64 { s[1..].parse().unwrap_or(99) }

fn show_props(m: &PropertyMap) -> String {
    let mut v: Vec<(u64, String)> = m
        .iter()
        .map(|(k, v)| (tag(k), match v { PropertyValue::Integer(i) => i.to_string(), other => format!("?{:?}", other) }))
        .collect();
    v.sort();
    v.iter().map(|(k, v)| format!("{}={}", k, v)).collect::<Vec<_>>().join("+")
}
fn show_col(v: PropertyValue) -> String {
    match v { PropertyValue::Null => "_".into(), PropertyValue::Integer(i) => i.to_string(), o => format!("?{:?}", o) }
}
fn set_txt(mut v: Vec<u64>) -> String {
    v.sort();
    v.iter().map(|x| x.to_string()).collect::<Vec<_>>().join(",")
}
fn row_txt(mut v: Vec<(u64, u64)>) -> String {
    v.sort();
    v.iter().map(|(a, b)| format!("{}.{}", a, b)).collect::<Vec<_>>().join(",")
}

/// the full `observe_at` dump of the real store, in the text layout of the Lean `showObs`
fn dump(g: &GraphStore, ret: &str, p: u64, pending: bool) -> String {
    let ids: Vec<u64> = (0..=p).collect();
    let types = [0u8, 1u8];
    let mut f: Vec<String> = vec![ret.to_string()];
    // nodes
    let mut nodes = vec![];
    for &n in &ids {
        if let Some(node) = g.get_node(NodeId::new(n)) {
            let mut ls: Vec<u64> = node.labels.iter().map(|l| tag(l.as_str())).collect();
            ls.sort();
            let idtxt = if node.id.as_u64() == n { n } else { 900 + n };
            nodes.push(format!("{}:{}:{}", idtxt, ls.iter().map(|x| x.to_string()).collect::<Vec<_>>().join("."), show_props(&node.properties)));
        }
    }
    f.push(nodes.join(","));
    // edges
    let mut es = g.all_edges();
    es.sort_by_key(|e| e.id.as_u64());
    f.push(es.iter().map(|e| format!("{}:{}:{}:{}:{}", e.id.as_u64(), e.source.as_u64(), e.target.as_u64(), tag(e.edge_type.as_str()), show_props(&e.properties))).collect::<Vec<_>>().join(","));
    f.push(g.node_count().to_string());
    f.push(g.edge_count().to_string());
    // get_edge (has_edge / get_edge_endpoints / get_edge_type must agree with it)
    f.push(ids.iter().map(|&e| {
        let ge = g.get_edge(EdgeId::new(e));
        let consistent = g.has_edge(EdgeId::new(e)) == ge.is_some()
            && g.get_edge_endpoints(EdgeId::new(e)) == ge.as_ref().map(|x| (x.source, x.target))
            && g.get_edge_type(EdgeId::new(e)) == ge.as_ref().map(|x| x.edge_type.clone());
        match ge {
            Some(x) if consistent => format!("{}:{}:{}:{}", x.source.as_u64(), x.target.as_u64(), tag(x.edge_type.as_str()), show_props(&x.properties)),
            None if consistent => "_".into(),
            _ => "777:777:7:".into(),
        }
    }).collect::<Vec<_>>().join("/"));
    // list reads
    let edge_ids = |v: Vec<samyama::graph::Edge>| -> Vec<u64> {
        v.iter().map(|e| {
            let same = g.get_edge(e.id).map(|x| (x.source, x.target, x.edge_type.clone(), x.properties.clone()))
                == Some((e.source, e.target, e.edge_type.clone(), e.properties.clone()));
            if same { e.id.as_u64() } else { 900 + e.id.as_u64() }
        }).collect()
    };
    f.push(ids.iter().map(|&n| {
        let mut v = edge_ids(g.get_outgoing_edges(NodeId::new(n)));
        let t: Vec<u64> = g.get_outgoing_edge_targets(NodeId::new(n)).iter().map(|x| x.0.as_u64()).collect();
        if set_txt(t) != set_txt(v.clone()) { v.push(998); }
        set_txt(v)
    }).collect::<Vec<_>>().join("/"));
    f.push(ids.iter().map(|&n| {
        let mut v = edge_ids(g.get_incoming_edges(NodeId::new(n)));
        let t: Vec<u64> = g.get_incoming_edge_sources(NodeId::new(n)).iter().map(|x| x.0.as_u64()).collect();
        if set_txt(t) != set_txt(v.clone()) { v.push(998); }
        set_txt(v)
    }).collect::<Vec<_>>().join("/"));
    let nb = |n: u64, out: bool, filt: Option<&[u16]>| -> Vec<(u64, u64)> {
        let mut v = vec![];
        if out { g.for_each_outgoing_neighbor(NodeId::new(n), filt, |t, e| v.push((t.as_u64(), e.as_u64()))); }
        else { g.for_each_incoming_neighbor(NodeId::new(n), filt, |t, e| v.push((t.as_u64(), e.as_u64()))); }
        v
    };
    f.push(ids.iter().map(|&n| row_txt(nb(n, true, None))).collect::<Vec<_>>().join("/"));
    f.push(ids.iter().map(|&n| row_txt(nb(n, false, None))).collect::<Vec<_>>().join("/"));
    for out in [true, false] {
        f.push(ids.iter().map(|&n| {
            types.iter().map(|&t| {
                let tid: Vec<u16> = g.edge_type_id(&ety(t)).into_iter().collect();
                let mut v = nb(n, out, Some(&tid));
                // the `_of_type` visitor must see the same neighbours
                let mut w: Vec<u64> = vec![];
                if out { g.for_each_outgoing_neighbor_of_type(NodeId::new(n), &ety(t), |x| w.push(x.as_u64())); }
                else { g.for_each_incoming_neighbor_of_type(NodeId::new(n), &ety(t), |x| w.push(x.as_u64())); }
                if set_txt(w) != set_txt(v.iter().map(|x| x.0).collect()) { v.push((997, 997)); }
                row_txt(v)
            }).collect::<Vec<_>>().join("~")
        }).collect::<Vec<_>>().join("/"));
    }
    for out in [true, false] {
        f.push(ids.iter().map(|&n| {
            types.iter().map(|&t| {
                if out { g.outgoing_degree_for_type(NodeId::new(n), &ety(t)) } else { g.incoming_degree_for_type(NodeId::new(n), &ety(t)) }.to_string()
            }).collect::<Vec<_>>().join("~")
        }).collect::<Vec<_>>().join("/"));
    }
    // edges_between (edge_between must be its first element / None)
    f.push(ids.iter().map(|&a| {
        ids.iter().map(|&b| {
            let mut parts = vec![];
            for filt in [None, Some(0u8), Some(1u8)] {
                let et = filt.map(ety);
                let v: Vec<u64> = g.edges_between(NodeId::new(a), NodeId::new(b), et.as_ref()).iter().map(|e| e.as_u64()).collect();
                let one = g.edge_between(NodeId::new(a), NodeId::new(b), et.as_ref()).map(|e| e.as_u64());
                let mut v2 = v.clone();
                match one {
                    Some(x) if !v.contains(&x) => v2.push(996),
                    None if !v.is_empty() => v2.push(996),
                    _ => {}
                }
                parts.push(set_txt(v2));
            }
            parts.join("^")
        }).collect::<Vec<_>>().join("~")
    }).collect::<Vec<_>>().join("/"));
    // indexes
    f.push([0u8, 1u8].iter().map(|&l| {
        set_txt(g.get_nodes_by_label(&lab(l)).iter().map(|n| n.id.as_u64()).collect())
    }).collect::<Vec<_>>().join("/"));
    f.push(types.iter().map(|&t| {
        set_txt(g.get_edges_by_type(&ety(t)).iter().map(|e| e.id.as_u64()).collect())
    }).collect::<Vec<_>>().join("/"));
    // columns
    f.push(ids.iter().map(|&n| [0u8, 1u8].iter().map(|&k| show_col(g.node_columns.get_property(n as usize, &key(k)))).collect::<Vec<_>>().join("~")).collect::<Vec<_>>().join("/"));
    f.push(ids.iter().map(|&n| [0u8, 1u8].iter().map(|&k| show_col(g.edge_columns.get_property(n as usize, &key(k)))).collect::<Vec<_>>().join("~")).collect::<Vec<_>>().join("/"));
    f.push(if pending { "1".into() } else { "0".into() });
    f.join("|")
}

fn err_code(e: &GraphError) -> u32 {
    match e {
        GraphError::NodeNotFound(_) => 1,
        GraphError::EdgeNotFound(_) => 2,
        GraphError::InvalidEdgeSource(_) => 3,
        GraphError::InvalidEdgeTarget(_) => 4,
        _ => 8,
    }
}

struct RealRun {
    id_ops: String,   // the ops with handles resolved to the ids the store handed out
    obs: String,      // one dump per op
    id_reuses: u64,
    panicked: bool,
}

/// run the real store; `p` = highest id probed
fn run_real(ops: &[Op], p: u64) -> RealRun {
    let mut g = GraphStore::new();
    let mut nid: Vec<u64> = vec![];
    let mut eid: Vec<u64> = vec![];
    let mut seen_n = std::collections::HashSet::new();
    let mut seen_e = std::collections::HashSet::new();
    let mut sh = Shadow::default();
    let mut id_ops = vec![];
    let mut obs = vec![];
    let mut reuses = 0u64;
    let mut panicked = false;
    for op in ops {
        // a live handle resolves to its id; a dead handle to its last id unless that id has been
        // handed to another (live) handle in the meantime — then to 0, which is never allocated
        let rn = |h: &usize| -> u64 {
            let id = nid.get(*h).copied().unwrap_or(0);
            if sh.live_n(*h) || !(0..nid.len()).any(|h2| sh.live_n(h2) && nid[h2] == id) { id } else { 0 }
        };
        let re = |h: &usize| -> u64 {
            let id = eid.get(*h).copied().unwrap_or(0);
            if sh.live_e(*h) || !(0..eid.len()).any(|h2| sh.live_e(h2) && eid[h2] == id) { id } else { 0 }
        };
        let txt = match op {
            Op::MkN(l) => format!("mkN.{}", l),
            Op::MkNP(l, k, v) => format!("mkNP.{}.{}.{}", l, k, v),
            Op::MkNS(l) => format!("mkNS.{}", l),
            Op::MkE(a, b, t) => format!("mkE.{}.{}.{}", rn(a), rn(b), t),
            Op::MkEP(a, b, t, k, v) => format!("mkEP.{}.{}.{}.{}.{}", rn(a), rn(b), t, k, v),
            Op::MkES(a, b, t) => format!("mkES.{}.{}.{}", rn(a), rn(b), t),
            Op::DelE(e) => format!("delE.{}", re(e)),
            Op::DelN(n) => format!("delN.{}", rn(n)),
            Op::AddL(n, l) => format!("addL.{}.{}", rn(n), l),
            Op::RmL(n, l) => format!("rmL.{}.{}", rn(n), l),
            Op::SetNP(n, k, v) => format!("setNP.{}.{}.{}", rn(n), k, v),
            Op::RmNP(n, k) => format!("rmNP.{}.{}", rn(n), k),
            Op::SetEP(e, k, v) => format!("setEP.{}.{}.{}", re(e), k, v),
            Op::RmEP(e, k) => format!("rmEP.{}.{}", re(e), k),
            Op::Compact => "compact".into(),
            Op::Finish => "finish".into(),
            Op::Clear => "clear".into(),
        };
        id_ops.push(txt);
        let r = catch_unwind(AssertUnwindSafe(|| -> String {
            let edge_ret = |r: Result<EdgeId, GraphError>| match r { Ok(e) => format!("i{}", e.as_u64()), Err(e) => format!("e{}", err_code(&e)) };
            match op {
                Op::MkN(l) => format!("i{}", g.create_node(lab(*l)).as_u64()),
                Op::MkNS(l) => format!("i{}", g.create_node_stub(lab(*l)).as_u64()),
                Op::MkNP(l, k, v) => {
                    let mut m = PropertyMap::new();
                    m.insert(key(*k), PropertyValue::Integer(*v as i64));
                    format!("i{}", g.create_node_with_properties("default", vec![lab(*l)], m).as_u64())
                }
                Op::MkE(a, b, t) => edge_ret(g.create_edge(NodeId::new(rn(a)), NodeId::new(rn(b)), ety(*t))),
                Op::MkEP(a, b, t, k, v) => {
                    let mut m = PropertyMap::new();
                    m.insert(key(*k), PropertyValue::Integer(*v as i64));
                    edge_ret(g.create_edge_with_properties(NodeId::new(rn(a)), NodeId::new(rn(b)), ety(*t), m))
                }
                Op::MkES(a, b, t) => edge_ret(g.create_edge_stub(NodeId::new(rn(a)), NodeId::new(rn(b)), ety(*t))),
                Op::DelE(e) => match g.delete_edge(EdgeId::new(re(e))) { Ok(_) => "ok".into(), Err(x) => format!("e{}", err_code(&x)) },
                Op::DelN(n) => match g.delete_node("default", NodeId::new(rn(n))) { Ok(_) => "ok".into(), Err(x) => format!("e{}", err_code(&x)) },
                Op::AddL(n, l) => match g.add_label_to_node("default", NodeId::new(rn(n)), lab(*l)) { Ok(_) => "ok".into(), Err(x) => format!("e{}", err_code(&x)) },
                Op::RmL(n, l) => match g.remove_label_from_node(NodeId::new(rn(n)), &lab(*l)) { Ok(true) => "ok".into(), Ok(false) => "no".into(), Err(x) => format!("e{}", err_code(&x)) },
                Op::SetNP(n, k, v) => match g.set_node_property("default", NodeId::new(rn(n)), key(*k), PropertyValue::Integer(*v as i64)) { Ok(_) => "ok".into(), Err(x) => format!("e{}", err_code(&x)) },
                Op::RmNP(n, k) => { g.remove_node_property(NodeId::new(rn(n)), &key(*k)); "ok".into() }
                Op::SetEP(e, k, v) => match g.set_edge_property(EdgeId::new(re(e)), key(*k), PropertyValue::Integer(*v as i64)) { Ok(_) => "ok".into(), Err(x) => format!("e{}", err_code(&x)) },
                Op::RmEP(e, k) => { g.remove_edge_property(EdgeId::new(re(e)), &key(*k)); "ok".into() }
                Op::Compact => { g.compact_adjacency(); "ok".into() }
                Op::Finish => { g.finish_bulk_load(); "ok".into() }
                Op::Clear => { g.clear(); "ok".into() }
            }
        }));
        let ret = match r { Ok(s) => s, Err(_) => { panicked = true; "e7".into() } };
        sh.apply(op);
        match op {
            Op::MkN(_) | Op::MkNP(..) | Op::MkNS(_) => {
                let i = ret[1..].parse().unwrap_or(0);
                if !seen_n.insert(i) { reuses += 1; }
                nid.push(i);
            }
            Op::MkE(..) | Op::MkEP(..) | Op::MkES(..) => {
                let i = if ret.starts_with('i') { ret[1..].parse().unwrap_or(0) } else { 0 };
                if i != 0 && !seen_e.insert(i) { reuses += 1; }
                eid.push(i);
            }
            Op::Clear => { seen_n.clear(); seen_e.clear(); }
            _ => {}
        }
        let d = catch_unwind(AssertUnwindSafe(|| dump(&g, &ret, p, sh.pending)));
        match d {
            Ok(s) => obs.push(s),
            Err(_) => { panicked = true; obs.push(format!("{}|panic", ret)); break; }
        }
        if panicked { break; }
    }
    id_ops.truncate(obs.len());
    RealRun { id_ops: id_ops.join(";"), obs: obs.join(";"), id_reuses: reuses, panicked }
}

/// letters available in a shadow state (exhaustive enumeration); caps: nodes, rels created
fn letters(sh: &Shadow, max_n: usize, max_e: usize, rich: bool) -> Vec<Op> {
    let n = sh.nodes.len();
    let m = sh.edges.len();
    let mut a = vec![];
    if n < max_n {
        a.push(Op::MkN(0));
        if rich { a.push(Op::MkN(1)); a.push(Op::MkNS(0)); }
    }
    if m < max_e {
        for x in 0..n {
            for y in 0..n {
                a.push(Op::MkE(x, y, 0));
                if rich && x <= y { a.push(Op::MkE(x, y, 1)); }
                if rich && sh.live_n(x) && sh.live_n(y) && x <= y { a.push(Op::MkES(x, y, 0)); }
            }
        }
    }
    for e in 0..m { a.push(Op::DelE(e)); }
    for x in 0..n { a.push(Op::DelN(x)); }
    if rich {
        for e in 0..m { if sh.live_e(e) { a.push(Op::SetEP(e, 0, 5)); } }
    }
    a.push(Op::Compact);
    if rich { a.push(Op::Finish); }
    a
}

fn enumerate(prefix: &[Op], depth: usize, max_n: usize, max_e: usize, rich: bool, out: &mut Vec<Vec<Op>>) {
    let mut sh = Shadow::default();
    for op in prefix { sh.apply(op); }
    fn rec(cur: &mut Vec<Op>, sh: &Shadow, depth: usize, max_n: usize, max_e: usize, rich: bool, out: &mut Vec<Vec<Op>>) {
        if depth == 0 { return; }
        for l in letters(sh, max_n, max_e, rich) {
            let mut s2 = sh.clone();
            s2.apply(&l);
            cur.push(l);
            out.push(cur.clone());
            rec(cur, &s2, depth - 1, max_n, max_e, rich, out);
            cur.pop();
        }
    }
    let mut cur = prefix.to_vec();
    rec(&mut cur, &sh, depth, max_n, max_e, rich, out);
}

/// long random history biased to compact → delete → create
fn random_history(rng: &mut Rng, len: usize, max_live_n: usize, max_live_e: usize) -> Vec<Op> {
    let mut sh = Shadow::default();
    let mut ops = vec![];
    let mut hot = 0u32; // >0: just compacted, prefer deletes then creates
    while ops.len() < len {
        let live_n: Vec<usize> = (0..sh.nodes.len()).filter(|h| sh.live_n(*h)).collect();
        let live_e: Vec<usize> = (0..sh.edges.len()).filter(|h| sh.live_e(*h)).collect();
        let any_n = |rng: &mut Rng, sh: &Shadow| -> usize {
            // mostly live handles, sometimes a dead one
            if !live_n.is_empty() && rng.chance(9, 10) { *rng.pick(&live_n) } else { rng.usize(sh.nodes.len().max(1)) }
        };
        let r = rng.below(100);
        let op = if sh.nodes.is_empty() || (live_n.len() < 2 && r < 60) {
            match rng.below(4) { 0 => Op::MkNS(rng.below(2) as u8), 1 => Op::MkNP(rng.below(2) as u8, rng.below(2) as u8, 1 + rng.below(3) as u8), _ => Op::MkN(rng.below(2) as u8) }
        } else if hot > 0 && r < 70 {
            hot -= 1;
            if hot >= 2 && !live_e.is_empty() {
                if rng.chance(3, 4) { Op::DelE(*rng.pick(&live_e)) } else { Op::DelN(any_n(rng, &sh)) }
            } else if live_e.len() < max_live_e {
                let a = any_n(rng, &sh); let b = any_n(rng, &sh);
                match rng.below(5) { 0 => Op::MkEP(a, b, rng.below(2) as u8, rng.below(2) as u8, 1 + rng.below(3) as u8), 1 => Op::MkES(a, b, rng.below(2) as u8), _ => Op::MkE(a, b, rng.below(2) as u8) }
            } else { Op::DelE(*rng.pick(&live_e)) }
        } else if r < 22 && live_e.len() < max_live_e {
            let a = any_n(rng, &sh); let b = if rng.chance(1, 5) { a } else { any_n(rng, &sh) };
            match rng.below(6) { 0 => Op::MkEP(a, b, rng.below(2) as u8, rng.below(2) as u8, 1 + rng.below(3) as u8), 1 => Op::MkES(a, b, rng.below(2) as u8), _ => Op::MkE(a, b, rng.below(2) as u8) }
        } else if r < 32 && live_n.len() < max_live_n {
            match rng.below(4) { 0 => Op::MkNS(rng.below(2) as u8), 1 => Op::MkNP(rng.below(2) as u8, rng.below(2) as u8, 1 + rng.below(3) as u8), _ => Op::MkN(rng.below(2) as u8) }
        } else if r < 46 && !sh.edges.is_empty() {
            if !live_e.is_empty() && rng.chance(9, 10) { Op::DelE(*rng.pick(&live_e)) } else { Op::DelE(rng.usize(sh.edges.len())) }
        } else if r < 54 {
            Op::DelN(any_n(rng, &sh))
        } else if r < 68 {
            hot = 3;
            if rng.chance(1, 4) { Op::Finish } else { Op::Compact }
        } else if r < 74 { Op::AddL(any_n(rng, &sh), rng.below(2) as u8) }
        else if r < 80 { Op::RmL(any_n(rng, &sh), rng.below(2) as u8) }
        else if r < 85 { Op::SetNP(any_n(rng, &sh), rng.below(2) as u8, 1 + rng.below(3) as u8) }
        else if r < 88 { Op::RmNP(any_n(rng, &sh), rng.below(2) as u8) }
        else if r < 95 && !live_e.is_empty() { Op::SetEP(*rng.pick(&live_e), rng.below(2) as u8, 1 + rng.below(3) as u8) }
        else if r < 98 && !sh.edges.is_empty() { Op::RmEP(rng.usize(sh.edges.len()), rng.below(2) as u8) }
        else if r == 99 && rng.chance(1, 10) { Op::Clear }
        else { Op::Compact };
        if !sh.allowed(&op) { continue; }
        // stay inside the probe range: ids never exceed the number of simultaneously live entities
        let creates_n = matches!(op, Op::MkN(_) | Op::MkNP(..) | Op::MkNS(_));
        let creates_e = matches!(op, Op::MkE(..) | Op::MkEP(..) | Op::MkES(..));
        if creates_n && sh.n_live_nodes() >= max_live_n { continue; }
        if creates_e && sh.n_live_edges() >= max_live_e { continue; }
        sh.apply(&op);
        ops.push(op);
    }
    ops
}

fn features(ops: &[Op]) -> (Shadow, String) {
    let mut sh = Shadow::default();
    for op in ops { sh.apply(op); }
    let mut f = vec![];
    if sh.compactions > 0 { f.push("compact"); }
    if sh.compactions > 1 { f.push("multi-segment"); }
    if sh.frozen_deletes > 0 { f.push("frozen-delete"); }
    if sh.stage >= 3 { f.push("create-after"); }
    if ops.iter().any(|o| matches!(o, Op::MkES(..))) { f.push("stub"); }
    let s = if f.is_empty() { "plain".to_string() } else { f.join("+") };
    (sh, s)
}

fn main() {
    let args = Args::parse();
    let known = Known::load(&args.known, "C06");
    let mut rep = Report::new(
        "C06",
        "op histories over node/relationship create (plain, with properties, stub), delete, label and property changes, \
         compact_adjacency, finish_bulk_load, clear; after every step the whole read API is dumped for ids 0..P; \
         non-trivial = the history compacts at least one live relationship, later deletes a frozen relationship (or a node \
         with one), and later creates a node or relationship; distinct = distinct handle-level op sequence",
        &args.replays,
        args.seed,
    );
    let exe = args.driver_exe("drv_store");

    // (ops, probe bound)
    let mut cases: Vec<(Vec<Op>, u64)> = vec![];
    let mut n_corpus = 0u64;
    let mut files: Vec<std::path::PathBuf> = vec![];
    if let Some(r) = &args.replay {
        files.push(r.clone());
    } else if let Ok(rd) = std::fs::read_dir(args.corpus.join("C06")) {
        files = rd.filter_map(|e| e.ok().map(|e| e.path())).collect();
        files.sort();
    }
    for f in &files {
        for line in std::fs::read_to_string(f).unwrap_or_default().lines() {
            let line = line.trim();
            if let Some(txt) = line.strip_prefix("ops ") {
                if let Some(ops) = parse_h(txt.trim()) {
                    cases.push((ops, 7));
                    n_corpus += 1;
                }
            }
        }
    }
    rep.count_n("corpus_sequences", n_corpus);

    if args.replay.is_none() {
        let th = args.thorough();
        let before = cases.len();
        let mut seqs: Vec<Vec<Op>> = vec![];
        // 1. exhaustive from the empty store: full alphabet (2 labels, 2 types, stubs, finish, ≤3 nodes, ≤3 rels)
        enumerate(&[], if th { 5 } else { 4 }, 3, 3, true, &mut seqs);
        rep.count_n("gen:exhaustive_from_empty", seqs.len() as u64);
        // 2. exhaustive suffixes after seed states, reduced alphabet (one label, one type)
        let seeds: Vec<Vec<Op>> = vec![
            vec![Op::MkN(0), Op::MkN(0), Op::MkE(0, 1, 0)],
            vec![Op::MkN(0), Op::MkE(0, 0, 0)],
            vec![Op::MkN(0), Op::MkN(1), Op::MkE(0, 1, 0), Op::MkE(0, 1, 1), Op::MkE(1, 1, 0)],
            vec![Op::MkN(0), Op::MkN(0), Op::MkN(0), Op::MkE(0, 2, 0), Op::Compact, Op::MkE(0, 1, 0)],
            vec![Op::MkN(0), Op::MkN(0), Op::MkES(0, 1, 0), Op::MkES(1, 0, 1)],
        ];
        for (k, sd) in seeds.iter().enumerate() {
            let mut sh = Shadow::default();
            for op in sd { sh.apply(op); }
            let depth = if th { 5 } else { 4 };
            let depth = if k >= 2 { depth - 1 } else { depth };
            let b4 = seqs.len();
            enumerate(sd, depth, sh.nodes.len().max(3), sh.edges.len() + 2, false, &mut seqs);
            if th || k < 2 {
                enumerate(sd, if th { depth - 2 } else { depth - 1 }, sh.nodes.len().max(3), sh.edges.len() + 2, true, &mut seqs);
            }
            rep.count_n(&format!("gen:exhaustive_after_seed{}", k), (seqs.len() - b4) as u64);
        }
        let n_exh = seqs.len();
        for s in seqs { cases.push((s, 6)); }
        rep.exhaustive = true;
        rep.exhaustive_note = format!(
            "{} sequences: (a) all histories of length <= {} from the empty store over the full alphabet (2 labels, 2 types, stub creates, \
             set_edge_property, compact, finish_bulk_load; <=3 nodes, <=3 relationships incl. self-loops and parallel relationships); \
             (b) after each of {} seed states (one relationship; self-loop; parallel+self-loop; two-tier state; pending stubs) all suffixes of \
             length <= {} over the one-label/one-type alphabet (create, delete_edge, delete_node, compact) and of length <= {} over the full \
             alphabet; the PRNG histories on top are not exhaustive",
            n_exh, if th { 5 } else { 4 }, seeds.len(), if th { 5 } else { 4 }, if th { 3 } else { 3 }
        );
        // 3. long random histories
        // `Rng::new(s)` and `Rng::new(s+1)` are the same SplitMix stream shifted by one draw, so
        // consecutive seeds would explore almost the same histories: start from a mixed state
        let mut rng = Rng::new(args.seed);
        rng = Rng(rng.next_u64() ^ args.seed.rotate_left(17).wrapping_mul(0xD6E8_FEB8_6659_FD93));
        let (n_rand, len_lo, len_hi) = if th { (240, 200, 2000) } else { (60, 100, 400) };
        let mut long: Vec<(Vec<Op>, u64)> = vec![];
        for _ in 0..n_rand {
            let len = len_lo + rng.usize(len_hi - len_lo);
            let mut r = rng.fork();
            long.push((random_history(&mut r, len, 4, 6), 7));
        }
        // and many short random ones (denser coverage of the biased pattern)
        for _ in 0..(if th { 60_000 } else { 6_000 }) {
            let mut r = rng.fork();
            let len = 6 + r.usize(14);
            cases.push((random_history(&mut r, len, 3, 4), 5));
        }
        if std::env::var("C06_DEBUG").is_ok() {
            for (ops, _) in cases.iter().rev().take(5) { eprintln!("DEBUG {}", render_h(ops)); }
        }
        // spread the long histories evenly over the list: the driver batch and the real-store
        // threads split the list into contiguous chunks
        let short = cases.split_off(before);
        let every = (short.len() / long.len().max(1)).max(1);
        let mut li = long.into_iter();
        for (k, c) in short.into_iter().enumerate() {
            if k % every == 0 {
                if let Some(l) = li.next() { cases.push(l); }
            }
            cases.push(c);
        }
        cases.extend(li);
        rep.count_n("generated_sequences", (cases.len() - before) as u64);
    }

    if std::env::var("C06_COUNT_ONLY").is_ok() {
        eprintln!("COUNTS {:?} total {}", rep.histogram, cases.len());
        return;
    }
    let mut first_break: Option<(String, String)> = None;
    let mut hist_feat: std::collections::BTreeMap<String, u64> = Default::default();
    for chunk in cases.chunks(100_000) {
        // the real store, in parallel
        let n_thr = 12usize;
        let per = (chunk.len() + n_thr - 1) / n_thr;
        let mut real: Vec<RealRun> = Vec::with_capacity(chunk.len());
        std::thread::scope(|sc| {
            let hs: Vec<_> = chunk.chunks(per.max(1)).map(|c| sc.spawn(move || c.iter().map(|(ops, p)| run_real(ops, *p)).collect::<Vec<_>>())).collect();
            for h in hs { real.extend(h.join().expect("real-store thread")); }
        });
        let lines: Vec<String> = chunk.iter().zip(real.iter()).map(|((_, p), r)| format!("chk {} {} {}", p, r.id_ops, r.obs)).collect();
        let replies = driver::par_batch(&exe, &lines, 12);
        for (k, (ops, p)) in chunk.iter().enumerate() {
            let canon = render_h(ops);
            let (sh, feat) = features(ops);
            let nt = sh.stage >= 3;
            rep.case(&canon, nt);
            *hist_feat.entry(feat.clone()).or_insert(0) += 1;
            rep.count_n("steps", ops.len() as u64);
            rep.count_n("compactions", sh.compactions);
            rep.count_n("frozen_deletes", sh.frozen_deletes);
            rep.count_n("id_reuses", real[k].id_reuses);
            for op in ops { rep.count(&format!("op:{}", kind(op))); }
            if nt && rep.samples.len() < 3 {
                rep.sample(json!({"ops": canon, "probe_max_id": p, "features": feat}));
            }
            let reply = &replies[k];
            let body = |upto: usize| -> String {
                let cut: Vec<Op> = ops.iter().take(upto).cloned().collect();
                format!("ops {}\n# ids   {}\n# reply {}\n# impl  {}", render_h(&cut), real[k].id_ops, reply, real[k].obs.split(';').nth(upto.saturating_sub(1)).unwrap_or(""))
            };
            if real[k].panicked {
                rep.count("panic");
                rep.spec_violation(&known, "panic", &format!("the store panicked on `{}`", canon), &body(ops.len()));
            } else if let Some(rest) = reply.strip_prefix("viol ") {
                let mut it = rest.split(' ');
                let step: usize = it.next().and_then(|x| x.parse().ok()).unwrap_or(0);
                let why = it.next().unwrap_or("?");
                let (_, f) = features(&ops[..(step + 1).min(ops.len())]);
                let sig = format!("{}:{}:{}", why, kind(&ops[step.min(ops.len() - 1)]), f);
                rep.count(&format!("spec_violation:{}", why));
                rep.spec_violation(&known, &sig, &format!("read views disagree with the logical graph ({}) after step {} of `{}`", why, step, render_h(&ops[..(step + 1).min(ops.len())])), &body(step + 1));
            } else if reply != "ok" {
                rep.count("model_mismatch");
                if first_break.is_none() {
                    let step: usize = reply.split(' ').nth(1).and_then(|x| x.parse().ok()).unwrap_or(ops.len() - 1);
                    first_break = Some((canon.clone(), body(step + 1)));
                }
            }
        }
    }
    for (k, v) in hist_feat { rep.count_n(&format!("history:{}", k), v); }
    if let Some((canon, body)) = first_break {
        if rep.spec_violations.is_empty() {
            rep.correspondence_break(
                "SgModel.Store.step/obs = GraphStore writes + read API (observations after every step)",
                &format!("model and implementation observations differ on `{}` although the specification holds on every explored case", canon),
                &body,
            );
        }
    }
    rep.extra.insert("repr_events".into(), json!({
        "compactions": rep.histogram.get("compactions"),
        "frozen_deletes": rep.histogram.get("frozen_deletes"),
        "id_reuses": rep.histogram.get("id_reuses"),
    }));
    rep.write(&args.out);
}
