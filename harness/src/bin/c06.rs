//! temporary probe (replaced by the C06 correspondence)
use samyama::graph::{EdgeType, GraphStore, Label, NodeId, PropertyValue};

fn main() {
    // #27 compact; delete; reuse
    let mut g = GraphStore::new();
    let a = g.create_node("A");
    let b = g.create_node("A");
    let e = g.create_edge(a, b, "T").unwrap();
    g.compact_adjacency();
    g.delete_edge(e).unwrap();
    println!("27a after compact+delete: edge_count={} out(a)={} between(a,b,None)={:?}", g.edge_count(), g.get_outgoing_edges(a).len(), g.edges_between(a, b, None));
    let e2 = g.create_edge(b, a, "T").unwrap();
    println!("27b reuse: e={:?} e2={:?} edge_count={} out(a)={:?} all_edges={}", e, e2, g.edge_count(),
        g.get_outgoing_edges(a).iter().map(|x| (x.id, x.source, x.target)).collect::<Vec<_>>(), g.all_edges().len());
    let mut v = vec![];
    g.for_each_outgoing_neighbor(a, None, |n, e| v.push((n, e)));
    println!("27c for_each_outgoing(a)={:?} deg_out(a,T)={}", v, g.outgoing_degree_for_type(a, &EdgeType::new("T")));
    // delete_node via stale frozen row kills an unrelated edge
    let mut g = GraphStore::new();
    let a = g.create_node("A");
    let b = g.create_node("A");
    let c = g.create_node("A");
    let e = g.create_edge(a, b, "T").unwrap();
    g.compact_adjacency();
    g.delete_edge(e).unwrap();
    let e2 = g.create_edge(b, c, "T").unwrap();
    g.delete_node("default", a).unwrap();
    println!("27d delete_node(a) after reuse: e2={:?} has_edge(e2)={} (expected true)", e2, g.has_edge(e2));

    // #28 deleted node's frozen rows inherited
    let mut g = GraphStore::new();
    let a = g.create_node("A");
    let b = g.create_node("A");
    let e = g.create_edge(a, b, "T").unwrap();
    g.compact_adjacency();
    g.delete_node("default", a).unwrap();
    let a2 = g.create_node("B");
    let c = g.create_node("A");
    let e2 = g.create_edge(b, c, "T").unwrap();
    println!("28 a={:?} a2={:?} e={:?} e2={:?} out(a2)={:?} edge_count={}", a, a2, e, e2,
        g.get_outgoing_edges(a2).iter().map(|x| (x.id, x.source, x.target)).collect::<Vec<_>>(), g.edge_count());

    // #29 edge_columns row not cleared
    let mut g = GraphStore::new();
    let a = g.create_node("A");
    let b = g.create_node("A");
    let e = g.create_edge(a, b, "T").unwrap();
    g.set_edge_property(e, "w", PropertyValue::Integer(5)).unwrap();
    g.delete_edge(e).unwrap();
    let e2 = g.create_edge(a, b, "T").unwrap();
    println!("29 e={:?} e2={:?} edge_columns.get(e2,w)={:?} get_edge(e2).props={:?}", e, e2,
        g.edge_columns.get_property(e2.as_u64() as usize, "w"), g.get_edge(e2).unwrap().properties);

    // new: two segments, binary search over concatenation
    let mut g = GraphStore::new();
    let a = g.create_node("A");
    let b = g.create_node("A");
    let c = g.create_node("A");
    g.create_edge(a, c, "T").unwrap();
    g.compact_adjacency();
    g.create_edge(a, b, "T").unwrap();
    g.compact_adjacency();
    println!("2seg between(a,c)={:?} between(a,b)={:?} edge_between(a,c)={:?}", g.edges_between(a, c, None), g.edges_between(a, b, None), g.edge_between(a, c, None));
    // stub then edges_between without finish (unsorted buffer)
    let mut g = GraphStore::new();
    let a = g.create_node("A");
    let b = g.create_node("A");
    let c = g.create_node("A");
    g.create_edge_stub(a, c, "T").unwrap();
    g.create_edge_stub(a, b, "T").unwrap();
    println!("stub-unsorted between(a,c)={:?} between(a,b)={:?} by_type={}", g.edges_between(a, c, None), g.edges_between(a, b, None), g.get_edges_by_type(&EdgeType::new("T")).len());
    // stub then create_edge (sorted insert into unsorted buffer) then finish
    g.finish_bulk_load();
    println!("after finish between(a,c)={:?} between(a,b)={:?} by_type={}", g.edges_between(a, c, None), g.edges_between(a, b, None), g.get_edges_by_type(&EdgeType::new("T")).len());
    // remove label empties index
    let mut g = GraphStore::new();
    let a = g.create_node("A");
    g.remove_label_from_node(a, &Label::new("A")).unwrap();
    println!("labels after remove: by_label={} node labels={:?}", g.get_nodes_by_label(&Label::new("A")).len(), g.get_node(a).unwrap().labels);
    // add duplicate label
    g.add_label_to_node("default", a, "B").unwrap();
    g.add_label_to_node("default", a, "B").unwrap();
    println!("by_label(B)={}", g.get_nodes_by_label(&Label::new("B")).len());
    let _ = NodeId::new(0);
    // node 0 lookups
    println!("get_node(0)={:?} out(0)={}", g.get_node(NodeId::new(0)).is_some(), g.get_outgoing_edges(NodeId::new(0)).len());
    // delete node with self loop, order of free edge ids
    let mut g = GraphStore::new();
    let a = g.create_node("A");
    let b = g.create_node("A");
    let e1 = g.create_edge(a, a, "T").unwrap();
    let e2 = g.create_edge(a, b, "T").unwrap();
    let e3 = g.create_edge(b, a, "T").unwrap();
    g.delete_node("default", a).unwrap();
    let c = g.create_node("A");
    let n1 = g.create_edge(b, c, "T").unwrap();
    let n2 = g.create_edge(b, c, "T").unwrap();
    let n3 = g.create_edge(b, c, "T").unwrap();
    println!("selfloop: e={:?},{:?},{:?} c={:?} reuse order {:?},{:?},{:?} edge_count={}", e1, e2, e3, c, n1, n2, n3, g.edge_count());
}
