// temporary probe (colmisc): confirm C33 / C17 witnesses on the real code
use samyama::graph::{Label, Node, NodeId};
use samyama::persistence::storage::PersistentStorage;
use samyama::raft::cluster::NodeRole;
use samyama::raft::{ClusterConfig, ClusterManager};

fn main() {
    let rt = tokio::runtime::Builder::new_current_thread().build().unwrap();
    rt.block_on(async {
        let mut c = ClusterConfig::new("x".into(), 1);
        c.add_node(1, "a".into(), true);
        c.add_node(1, "a".into(), true);
        c.add_node(2, "b".into(), true);
        let m = ClusterManager::new(c).unwrap();
        m.mark_active(1).await;
        m.update_node_role(1, NodeRole::Leader).await;
        println!("C33 {:?}", m.health_status().await);
    });
    let dir = std::env::args().nth(1).unwrap();
    let st = PersistentStorage::open(&dir).unwrap();
    let n = |i: u64| Node::new(NodeId::new(i), Label::new("L"));
    st.put_node("a", &n(1)).unwrap();
    st.put_node("b", &n(2)).unwrap();
    st.put_node("a:n", &n(3)).unwrap();
    st.put_node("", &n(4)).unwrap();
    for t in ["a", "b", "a:n", ""] {
        let r = st.scan_nodes(t).map(|v| v.iter().map(|n| n.id.as_u64()).collect::<Vec<_>>());
        println!("C17 scan_nodes({:?}) = {:?}", t, r);
    }
    println!("C17 tenants {:?}", st.list_persisted_tenants());
}
