//! C05 — a write statement that fails changes nothing.
//!
//! Multi-row write statements with a failure planted at every row position (zero divisor, bad
//! operand type, duplicate value under a unique constraint, DELETE of a connected node), on a
//! seeded store with (in half of the cases) a property index and a unique constraint.
//!   R = engine outcome + full dump before/after + index probes + constraint list,
//!   M = `stream` (the row-streaming execution model, no undo) — outcome and what is left behind,
//!   S = `speca`  (`specAtomic`: an error leaves the graph as it was) on R.
//! The engine has no statement-level undo: S ⊭ R whenever the failing row is not the first.
//! Those are KNOWN findings keyed by (write clause, failure kind, row>first).  Anything else —
//! in particular effects left by a failure on the FIRST row, or an index / constraint list that
//! disagrees with the store afterwards — is a VIOLATION.
#[path = "cyw/mod.rs"]
mod cyw;
use cyw::*;
use samyama::graph::{GraphStore, PropertyValue};
use serde_json::json;
use vharness::{driver, Args, Known, Report, Rng};

#[derive(Clone, Copy, Debug, PartialEq)]
enum Kind {
    Div0,
    Type,
    Dup,
    Connected,
    Unbound,
}
impl Kind {
    fn tag(&self) -> &'static str {
        match self {
            Kind::Div0 => "div0",
            Kind::Type => "type",
            Kind::Dup => "dup",
            Kind::Connected => "connected",
            Kind::Unbound => "unbound",
        }
    }
}

struct Planted {
    setup: Vec<String>,
    st: St,
    clause: &'static str,
    kind: Kind,
    /// 0-based position of the failing row, number of rows
    pos: usize,
    n: usize,
    constrained: bool,
    indexed: bool,
    /// statements run after the failed one with the outcome they must have (true = must succeed):
    /// a value the failed row must have released / a value its node must still hold
    after: Vec<(String, bool)>,
    /// false: the streaming model does not apply (unique constraints, non-literal maps)
    modelled: bool,
    /// unique-constraint bookkeeping to probe through Cypher after the failed statement:
    /// (label, key, values) — `CREATE (:L {k: v})` must succeed iff no live node holds v under L
    cons_probe: Vec<(u32, u32, Vec<i64>)>,
    /// the engine may answer OK (a constraint refusal inside ON CREATE / ON MATCH SET of a relationship MERGE is
    /// dropped silently on the unchanged tree): C05 speaks only about statements that FAIL
    may_succeed: bool,
}

fn s(v: &str) -> Ex {
    Ex::Lit(PropertyValue::String(v.into()))
}

/// UNWIND list of `n` good values with the poison at `pos`
fn poisoned_list(rng: &mut Rng, n: usize, pos: usize, kind: Kind) -> Vec<Ex> {
    (0..n)
        .map(|i| {
            if i == pos {
                match kind {
                    Kind::Div0 => int(0),
                    Kind::Type => s("a"),
                    _ => int(0),
                }
            } else {
                int(rng.range(1, 4))
            }
        })
        .collect()
}

fn fallible(kind: Kind) -> Ex {
    match kind {
        Kind::Div0 => bin("div", int(12), Ex::Var(0)),
        _ => bin("sub", int(9), Ex::Var(0)),
    }
}

fn gen_case(rng: &mut Rng, n: usize, pos: usize, which: u64) -> Planted {
    let constrained = rng.chance(1, 2);
    let indexed = rng.chance(1, 2);
    let mut setup: Vec<String> = vec![];
    if indexed {
        setup.push("CREATE INDEX ON :L1(k0)".into());
    }
    // a few bystanders so that "unchanged" is about a non-empty graph
    setup.push("CREATE (v1:L2 {k0: 1})-[:T0]->(v2:L2 {k0: 2})".into());
    let l1 = NPat { var: Some(1), labels: vec![1], props: vec![] };
    match which {
        // CREATE node
        0 | 1 => {
            let kind = if which == 0 { Kind::Div0 } else { Kind::Type };
            let st = St { cls: vec![Cl::Unwind(Ex::List(poisoned_list(rng, n, pos, kind)), 0), Cl::Create(vec![CPath { a: NPat { props: vec![(0, fallible(kind)), (1, Ex::Var(0))], ..l1.clone() }, seg: None }])], ret: None };
            Planted { setup, st, clause: "create", kind, pos, n, constrained: false, indexed, after: vec![], modelled: true, cons_probe: vec![], may_succeed: false }
        }
        // CREATE path, failure in the relationship property
        2 => {
            let st = St {
                cls: vec![
                    Cl::Unwind(Ex::List(poisoned_list(rng, n, pos, Kind::Div0)), 0),
                    Cl::Create(vec![CPath { a: NPat { props: vec![(0, Ex::Var(0))], ..l1.clone() }, seg: Some((1, vec![(1, fallible(Kind::Div0))], true, NPat { var: Some(2), labels: vec![1], props: vec![] })) }]),
                ],
                ret: None,
            };
            Planted { setup, st, clause: "createpath", kind: Kind::Div0, pos, n, constrained: false, indexed, after: vec![], modelled: true, cons_probe: vec![], may_succeed: false }
        }
        // MERGE
        3 | 4 => {
            let kind = if which == 3 { Kind::Div0 } else { Kind::Type };
            let st = St { cls: vec![Cl::Unwind(Ex::List(poisoned_list(rng, n, pos, kind)), 0), Cl::Merge(NPat { props: vec![(0, fallible(kind))], ..l1.clone() }, vec![], vec![])], ret: None };
            Planted { setup, st, clause: "merge", kind, pos, n, constrained: false, indexed, after: vec![], modelled: true, cons_probe: vec![], may_succeed: false }
        }
        // SET on one matched node per row
        5 | 6 => {
            let kind = if which == 5 { Kind::Div0 } else { Kind::Type };
            let vals: Vec<i64> = (0..n as i64).map(|i| 20 + i).collect();
            for v in &vals {
                setup.push(format!("CREATE (:L1 {{k0: {}, k2: {}}})", v, v));
            }
            // rows: (target id, operand)
            let rows: Vec<Ex> = (0..n).map(|i| Ex::Map(vec![(0, int(vals[i])), (1, if i == pos { if kind == Kind::Div0 { int(0) } else { s("a") } } else { int(rng.range(1, 4)) })])).collect();
            let rhs = if kind == Kind::Div0 { bin("div", int(12), Ex::Prop(0, 1)) } else { bin("sub", int(9), Ex::Prop(0, 1)) };
            let st = St {
                cls: vec![Cl::Unwind(Ex::List(rows), 0), Cl::MatchN(1, vec![1], vec![]), Cl::Filter(bin("eq", Ex::Prop(1, 2), Ex::Prop(0, 0))), Cl::Set(vec![SetItem::Prop(1, 0, rhs)])],
                ret: None,
            };
            Planted { setup, st, clause: "set", kind, pos, n, constrained: false, indexed, after: vec![], modelled: true, cons_probe: vec![], may_succeed: false }
        }
        // duplicate value under a unique constraint: CREATE
        7 => {
            setup.push("CREATE CONSTRAINT ON (n:L0) ASSERT n.k0 IS UNIQUE".into());
            let mut vals: Vec<i64> = (0..n as i64).map(|i| 30 + i).collect();
            if pos == 0 {
                setup.push("CREATE (:L0 {k0: 30})".into());
            } else {
                vals[pos] = vals[rng.usize(pos)];
            }
            let st = St { cls: vec![Cl::Unwind(Ex::List(vals.iter().map(|v| int(*v)).collect()), 0), Cl::Create(vec![CPath { a: NPat { var: Some(1), labels: vec![0], props: vec![(0, Ex::Var(0))] }, seg: None }])], ret: None };
            Planted { setup, st, clause: "create", kind: Kind::Dup, pos, n, constrained: true, indexed, after: vec![], modelled: true, cons_probe: vec![], may_succeed: false }
        }
        // duplicate value under a unique constraint: SET
        8 => {
            setup.push("CREATE CONSTRAINT ON (n:L0) ASSERT n.k0 IS UNIQUE".into());
            setup.push("CREATE (:L0 {k0: 99})".into());
            let vals: Vec<i64> = (0..n as i64).map(|i| 40 + i).collect();
            for v in &vals {
                setup.push(format!("CREATE (:L0 {{k0: {}, k2: {}}})", v, v));
            }
            let rows: Vec<Ex> = (0..n).map(|i| Ex::Map(vec![(0, int(vals[i])), (1, if i == pos { int(99) } else { int(50 + i as i64) })])).collect();
            let st = St {
                cls: vec![
                    Cl::Unwind(Ex::List(rows), 0),
                    Cl::MatchN(1, vec![0], vec![]),
                    Cl::Filter(bin("eq", Ex::Prop(1, 2), Ex::Prop(0, 0))),
                    Cl::Set(vec![SetItem::Prop(1, 0, Ex::Prop(0, 1))]),
                ],
                ret: None,
            };
            Planted { setup, st, clause: "set", kind: Kind::Dup, pos, n, constrained: true, indexed, after: vec![], modelled: true, cons_probe: vec![], may_succeed: false }
        }
        // --- round 2: shapes a small edit of the write operators' clean-up could break unseen
        // bound start node, new end node, failure in the relationship property (after the end node was built)
        10 => {
            let vals: Vec<i64> = (0..n as i64).map(|i| 80 + i).collect();
            for v in &vals {
                setup.push(format!("CREATE (:L1 {{k0: {}, k2: {}}})", v, v));
            }
            let rows: Vec<Ex> = (0..n).map(|i| Ex::Map(vec![(0, int(vals[i])), (1, if i == pos { int(0) } else { int(rng.range(1, 4)) })])).collect();
            let st = St {
                cls: vec![
                    Cl::Unwind(Ex::List(rows), 0),
                    Cl::MatchN(1, vec![1], vec![]),
                    Cl::Filter(bin("eq", Ex::Prop(1, 2), Ex::Prop(0, 0))),
                    Cl::Create(vec![CPath { a: NPat { var: Some(1), labels: vec![], props: vec![] }, seg: Some((1, vec![(1, bin("div", int(12), Ex::Prop(0, 1)))], true, NPat { var: Some(2), labels: vec![2], props: vec![(0, Ex::Prop(0, 0))] })) }]),
                ],
                ret: None,
            };
            Planted { setup, st, clause: "createfrommatch", kind: Kind::Div0, pos, n, constrained: false, indexed, after: vec![], modelled: true, cons_probe: vec![], may_succeed: false }
        }
        // two patterns in one CREATE, the second one fails (the first pattern's node must go too)
        11 => {
            let st = St {
                cls: vec![
                    Cl::Unwind(Ex::List(poisoned_list(rng, n, pos, Kind::Div0)), 0),
                    Cl::Create(vec![CPath { a: NPat { props: vec![(0, Ex::Var(0))], ..l1.clone() }, seg: None }, CPath { a: NPat { var: Some(2), labels: vec![1], props: vec![(0, fallible(Kind::Div0))] }, seg: None }]),
                ],
                ret: None,
            };
            Planted { setup, st, clause: "create2", kind: Kind::Div0, pos, n, constrained: false, indexed, after: vec![], modelled: true, cons_probe: vec![], may_succeed: false }
        }
        // MERGE whose ON CREATE SET fails after the node was created
        12 => {
            let st = St { cls: vec![Cl::Unwind(Ex::List(poisoned_list(rng, n, pos, Kind::Div0)), 0), Cl::Merge(NPat { props: vec![(0, bin("add", Ex::Var(0), int(100 + pos as i64 * 10 + n as i64)))], ..l1.clone() }, vec![SetItem::Prop(1, 1, fallible(Kind::Div0))], vec![])], ret: None };
            Planted { setup, st, clause: "mergeoncreate", kind: Kind::Div0, pos, n, constrained: false, indexed, after: vec![], modelled: true, cons_probe: vec![], may_succeed: false }
        }
        // SET with two items, the second violates the unique constraint after the first was applied
        13 => {
            setup.push("CREATE CONSTRAINT ON (n:L0) ASSERT n.k0 IS UNIQUE".into());
            setup.push("CREATE (:L0 {k0: 99})".into());
            let vals: Vec<i64> = (0..n as i64).map(|i| 40 + i).collect();
            for v in &vals {
                setup.push(format!("CREATE (:L0 {{k0: {}, k2: {}}})", v, v));
            }
            let rows: Vec<Ex> = (0..n).map(|i| Ex::Map(vec![(0, int(vals[i])), (1, if i == pos { int(99) } else { int(50 + i as i64) })])).collect();
            let st = St {
                cls: vec![
                    Cl::Unwind(Ex::List(rows), 0),
                    Cl::MatchN(1, vec![0], vec![]),
                    Cl::Filter(bin("eq", Ex::Prop(1, 2), Ex::Prop(0, 0))),
                    Cl::Set(vec![SetItem::Prop(1, 1, int(5)), SetItem::Prop(1, 0, Ex::Prop(0, 1))]),
                ],
                ret: None,
            };
            Planted { setup, st, clause: "set2", kind: Kind::Dup, pos, n, constrained: true, indexed, after: vec![], modelled: true, cons_probe: vec![], may_succeed: false }
        }
        // created path with constrained node values, failure afterwards in the relationship property:
        // the taken-back nodes must also release their unique values (probed after the statement)
        14 => {
            setup.push("CREATE CONSTRAINT ON (n:L0) ASSERT n.k0 IS UNIQUE".into());
            let rows: Vec<Ex> = (0..n).map(|i| Ex::Map(vec![(0, int(70 + i as i64)), (1, if i == pos { int(0) } else { int(rng.range(1, 4)) })])).collect();
            let st = St {
                cls: vec![
                    Cl::Unwind(Ex::List(rows), 0),
                    Cl::Create(vec![CPath { a: NPat { var: Some(1), labels: vec![0], props: vec![(0, Ex::Prop(0, 0))] }, seg: Some((1, vec![(1, bin("div", int(12), Ex::Prop(0, 1)))], true, NPat { var: Some(2), labels: vec![2], props: vec![] })) }]),
                ],
                ret: None,
            };
            Planted { setup, st, clause: "createpath-constrained", kind: Kind::Div0, pos, n, constrained: true, indexed, after: vec![(format!("CREATE (:L0 {{k0: {}}})", 70 + pos), true)], modelled: true, cons_probe: vec![], may_succeed: false }
        }
        // DELETE of a connected node at row `pos`
        _ => {
            let vals: Vec<i64> = (0..n as i64).map(|i| 60 + i).collect();
            for (i, v) in vals.iter().enumerate() {
                if i == pos {
                    setup.push(format!("CREATE (:L1 {{k0: {}}})-[:T1]->(:L2 {{k0: 7}})", v));
                } else {
                    setup.push(format!("CREATE (:L1 {{k0: {}}})", v));
                }
            }
            let st = St {
                cls: vec![Cl::Unwind(Ex::List(vals.iter().map(|v| int(*v)).collect()), 0), Cl::MatchN(1, vec![1], vec![]), Cl::Filter(bin("eq", Ex::Prop(1, 0), Ex::Var(0))), Cl::Delete(false, vec![1])],
                ret: None,
            };
            let _ = constrained;
            Planted { setup, st, clause: "delete", kind: Kind::Connected, pos, n, constrained: false, indexed, after: vec![], modelled: true, cons_probe: vec![], may_succeed: false }
        }
    }
}

/// what the property index answers for `:L1(k0) = c` vs what the dump implies
fn index_probe(store: &mut GraphStore, dumped: &DumpG) -> Option<String> {
    for c in [1i64, 2, 3, 4, 6, 12, 20, 21, 22, 60, 61, 62, 200, 201, 202, 500, 501, 502] {
        let o = exec(store, &format!("MATCH (n:L1) WHERE n.k0 = {} RETURN n.k0 AS c0", c), None);
        let got = o.rows.as_ref().map(|r| r.len()).unwrap_or(usize::MAX);
        let want = dumped
            .nodes
            .iter()
            .filter(|(_, ls, ps)| ls.split('.').any(|l| l == "1") && ps.split(',').any(|p| p == format!("0=I{}", c)))
            .count();
        if got != want {
            return Some(format!("k0={}: index/scan answers {} rows, the store holds {}", c, got, want));
        }
    }
    None
}

/// both adjacency directions and the counters against the dumped relationship list
fn adjacency_probe(store: &GraphStore, d: &DumpG) -> Option<String> {
    use samyama::graph::NodeId;
    if store.node_count() != d.nodes.len() {
        return Some(format!("node_count() = {} but {} nodes are listed", store.node_count(), d.nodes.len()));
    }
    if store.edge_count() != d.rels.len() {
        return Some(format!("edge_count() = {} but {} relationships are listed", store.edge_count(), d.rels.len()));
    }
    for (id, _, _) in &d.nodes {
        let mut out: Vec<u64> = store.get_outgoing_edges(NodeId::new(*id)).iter().map(|e| e.id.as_u64()).collect();
        let mut inc: Vec<u64> = store.get_incoming_edges(NodeId::new(*id)).iter().map(|e| e.id.as_u64()).collect();
        out.sort();
        inc.sort();
        let mut want_out: Vec<u64> = d.rels.iter().filter(|r| r.1 == *id).map(|r| r.0).collect();
        let mut want_in: Vec<u64> = d.rels.iter().filter(|r| r.2 == *id).map(|r| r.0).collect();
        want_out.sort();
        want_in.sort();
        if out != want_out {
            return Some(format!("node {}: outgoing adjacency {:?}, relationship list {:?}", id, out, want_out));
        }
        if inc != want_in {
            return Some(format!("node {}: incoming adjacency {:?}, relationship list {:?}", id, inc, want_in));
        }
    }
    None
}

fn constraints(store: &mut GraphStore) -> String {
    match exec(store, "SHOW CONSTRAINTS", None).rows {
        Ok(rows) => rows_text(&rows),
        Err((k, _)) => format!("err:{}", k.tag()),
    }
}

/// Multi-item write clauses: `m` items, the item at index `j` fails (expression error of `kind`) on the row at
/// `pos` of `n`.  Earlier items write an indexed / uniquely constrained property, so that a clause applied item by
/// item leaves visible traces (graph, index, constraint holders).
///   fam 0  MATCH … SET i0, i1, …            fam 1  MATCH … SET v1.k4 = 7, v1 += {…, k3: <failing>}
///   fam 2  MERGE … ON CREATE SET i0, i1, …  fam 3  MERGE … ON MATCH SET i0, i1, …
fn gen_multi(_rng: &mut Rng, fam: u64, constrained: bool, m: usize, j: usize, kind: Kind, n: usize, pos: usize) -> Planted {
    // an unbound variable fails on whichever row is evaluated first
    let pos = if kind == Kind::Unbound { 0 } else { pos };
    let indexed = !constrained;
    let label: u32 = if constrained { 0 } else { 1 };
    let mut setup: Vec<String> = vec!["CREATE (v1:L2 {k0: 1})-[:T0]->(v2:L2 {k0: 2})".into()];
    if indexed {
        setup.push("CREATE INDEX ON :L1(k0)".into());
    }
    if constrained {
        setup.push("CREATE CONSTRAINT ON (n:L0) ASSERT n.k0 IS UNIQUE".into());
    }
    let ids: Vec<i64> = (0..n as i64).map(|i| 200 + i).collect();
    // the nodes the rows address (fam 2 creates them itself)
    if fam != 2 {
        for (i, id) in ids.iter().enumerate() {
            let zero = if i == pos { 0 } else { 3 };
            let k1 = if i == pos { "'s'".to_string() } else { "4".to_string() };
            setup.push(format!("CREATE (:L{} {{k0: {}, k2: {}, k5: {}, k1: {}}})", label, id, id, zero, k1));
        }
    }
    // rows carry the operands too (ON CREATE cannot read them from a node that does not exist yet)
    let rows: Vec<Ex> = (0..n)
        .map(|i| Ex::Map(vec![(0, int(ids[i])), (5, if i == pos { int(0) } else { int(3) }), (1, if i == pos { s("s") } else { int(4) })]))
        .collect();
    let failing = match kind {
        Kind::Div0 => bin("div", int(12), Ex::Prop(0, 5)),
        Kind::Type => bin("sub", int(9), Ex::Prop(0, 1)),
        _ => Ex::Prop(9, 0),
    };
    // item 0 (when it is not the failing one) rewrites the indexed / constrained key
    let good = |t: usize| -> (u32, Ex) {
        match t {
            0 => (0, bin("add", Ex::Prop(0, 0), int(300))),
            1 => (4, int(7)),
            2 => (6, s("x")),
            _ => (7, Ex::List(vec![int(1), int(2)])),
        }
    };
    let items: Vec<SetItem> = (0..m).map(|t| if t == j { SetItem::Prop(1, 3, failing.clone()) } else { let (k, e) = good(t); SetItem::Prop(1, k, e) }).collect();
    let later = j > 0;
    let (cls, clause): (Vec<Cl>, &'static str) = match fam {
        0 => (
            vec![Cl::Unwind(Ex::List(rows), 0), Cl::MatchN(1, vec![label], vec![]), Cl::Filter(bin("eq", Ex::Prop(1, 2), Ex::Prop(0, 0))), Cl::Set(items)],
            if later { "setmulti-itemlater" } else { "setmulti-itemfirst" },
        ),
        1 => {
            // property item first, then `+=` with a map whose last value fails
            let map = Ex::Map(vec![(6, int(1)), (3, failing.clone())]);
            (
                vec![Cl::Unwind(Ex::List(rows), 0), Cl::MatchN(1, vec![label], vec![]), Cl::Filter(bin("eq", Ex::Prop(1, 2), Ex::Prop(0, 0))), Cl::Set(vec![SetItem::Prop(1, 0, bin("add", Ex::Prop(0, 0), int(300))), SetItem::MAdd(1, map)])],
                "setmapmulti-itemlater",
            )
        }
        2 => (
            vec![Cl::Unwind(Ex::List(rows), 0), Cl::Merge(NPat { var: Some(1), labels: vec![label], props: vec![(2, Ex::Prop(0, 0))] }, items, vec![])],
            if later { "oncreatemulti-itemlater" } else { "oncreatemulti-itemfirst" },
        ),
        _ => (
            vec![Cl::Unwind(Ex::List(rows), 0), Cl::Merge(NPat { var: Some(1), labels: vec![label], props: vec![(2, Ex::Prop(0, 0))] }, vec![], items)],
            if later { "onmatchmulti-itemlater" } else { "onmatchmulti-itemfirst" },
        ),
    };
    // constraint holders: when the statement fails on its first row nothing may have moved
    let mut after = vec![];
    if constrained && pos == 0 {
        after.push((format!("CREATE (:L0 {{k0: {}}})", 500), true)); // 200 + 300 must not be held
        after.push((format!("CREATE (:L0 {{k0: {}}})", 200), false)); // the node still holds 200
    }
    Planted { setup, st: St { cls, ret: None }, clause, kind, pos, n, constrained, indexed, after, modelled: !constrained && fam != 1, cons_probe: vec![], may_succeed: false }
}

/// What exactly a failing row had already made: CREATE of 1-3 relationships per row between nodes that
/// existed before the statement (both bound by MATCH), between a bound and a new node (both directions), self
/// loops; the failing expression sits in a relationship's own property (after literal ones), in the k-th
/// relationship, or in a later node.  `pat` selects the pattern, (n, pos) the rows.
fn gen_rel(rng: &mut Rng, pat: u64, n: usize, pos: usize) -> Planted {
    let mut setup: Vec<String> = vec!["CREATE (v1:L0 {k0: 1})-[:T0]->(v2:L0 {k0: 2})".into()];
    let ids: Vec<i64> = (0..n as i64).map(|i| 300 + i).collect();
    for (i, id) in ids.iter().enumerate() {
        // a pair (:L1)-[:T0]->(:L2); the :L1 end carries the divisor (0 on the failing row)
        setup.push(format!("CREATE (:L1 {{k0: {}, k2: {}, k5: {}}})-[:T0 {{k0: {}}}]->(:L2 {{k0: {}, k2: {}, k5: 2}})", id, id, if i == pos { 0 } else { 3 }, id, id + 50, id));
    }
    let fail = bin("div", int(12), Ex::Prop(1, 5));
    let b = |v: u32| NPat { var: Some(v), labels: vec![], props: vec![] };
    let rel = |a: NPat, props: Vec<(u32, Ex)>, out: bool, c: NPat| CPath { a, seg: Some((1, props, out, c)) };
    let lit = |rng: &mut Rng| vec![(0u32, int(rng.range(1, 9)))];
    let (paths, clause): (Vec<CPath>, &'static str) = match pat {
        0 => (vec![rel(b(1), { let mut p = lit(rng); p.push((1, fail.clone())); p }, true, b(2))], "createrel-bound-bound"),
        1 => (vec![rel(b(2), { let mut p = lit(rng); p.push((1, fail.clone())); p }, true, b(1))], "createrel-bound-bound"),
        2 => (vec![rel(b(1), vec![(1, fail.clone())], false, b(2))], "createrel-bound-bound"),
        3 => (vec![rel(b(1), vec![(1, fail.clone())], true, b(1))], "createrel-selfloop"),
        4 => (vec![rel(b(1), lit(rng), true, b(2)), rel(b(2), vec![(1, fail.clone())], true, b(1))], "createrel-second-of-2"),
        5 => (vec![rel(b(1), lit(rng), true, b(2)), rel(b(2), lit(rng), true, b(1)), rel(b(1), { let mut p = lit(rng); p.push((1, fail.clone())); p }, true, b(2))], "createrel-third-of-3"),
        6 => (vec![rel(b(1), vec![(1, fail.clone())], true, NPat { var: Some(3), labels: vec![2], props: vec![(0, int(9))] })], "createrel-bound-new"),
        7 => (vec![rel(NPat { var: Some(3), labels: vec![2], props: vec![(0, int(9))] }, vec![(1, fail.clone())], true, b(1))], "createrel-new-bound"),
        8 => (vec![rel(b(1), vec![(1, fail.clone())], false, NPat { var: Some(3), labels: vec![2], props: vec![(0, int(9))] })], "createrel-bound-new"),
        9 => (vec![rel(b(1), lit(rng), true, b(2)), CPath { a: NPat { var: Some(3), labels: vec![2], props: vec![(0, fail.clone())] }, seg: None }], "createrel-then-node"),
        _ => (vec![rel(b(1), lit(rng), true, b(2)), rel(b(2), vec![(1, bin("div", Ex::Prop(2, 5), Ex::Prop(1, 5)))], true, b(1))], "createrel-second-of-2"),
    };
    let st = St {
        cls: vec![
            Cl::Unwind(Ex::List(ids.iter().map(|i| int(*i)).collect()), 0),
            Cl::MatchR(1, vec![1], 5, 0, 2, vec![2]),
            Cl::Filter(bin("eq", Ex::Prop(1, 2), Ex::Var(0))),
            Cl::Create(paths),
        ],
        ret: None,
    };
    Planted { setup, st, clause, kind: Kind::Div0, pos, n, constrained: false, indexed: false, after: vec![], modelled: true, cons_probe: vec![], may_succeed: false }
}

/// CREATE without any row source (CreateNodeOperator / CreateNodesAndEdgesOperator): the one "row" makes several
/// things; a unique-constraint refusal on a LATER node must take back the earlier ones
fn gen_rowless(which: u64) -> Planted {
    let setup: Vec<String> = vec!["CREATE CONSTRAINT ON (n:L0) ASSERT n.k0 IS UNIQUE".into(), "CREATE (:L0 {k0: 1})".into()];
    let n0 = |k: i64| NPat { var: None, labels: vec![0], props: vec![(0, int(k))] };
    let (paths, clause): (Vec<CPath>, &'static str) = match which {
        0 => (vec![CPath { a: n0(5), seg: None }, CPath { a: n0(5), seg: None }], "rowless-create-2nodes"),
        1 => (vec![CPath { a: n0(6), seg: Some((1, vec![], true, n0(1))) }], "rowless-create-path"),
        2 => (vec![CPath { a: n0(7), seg: None }, CPath { a: n0(8), seg: None }, CPath { a: n0(1), seg: None }], "rowless-create-3nodes"),
        _ => (vec![CPath { a: n0(1), seg: None }, CPath { a: n0(9), seg: None }], "rowless-create-first-fails"),
    };
    Planted { setup, st: St { cls: vec![Cl::Create(paths)], ret: None }, clause, kind: Kind::Dup, pos: 0, n: 1, constrained: true, indexed: false, after: vec![("CREATE (:L0 {k0: 5})".into(), true)], modelled: false, cons_probe: vec![], may_succeed: false }
}

/// Take-back must not leave index / constraint bookkeeping behind.  Two unique constraints over the SAME key on two
/// labels (a value free under one label and taken under the other, multi-label nodes), or over two keys on one label.
fn gen_cons(which: u64, flip: bool) -> Planted {
    let (free, taken) = if flip { (1u32, 0u32) } else { (0u32, 1u32) };
    let mut setup: Vec<String> = vec![];
    let two_labels = which != 5;
    if two_labels {
        setup.push("CREATE CONSTRAINT ON (n:L0) ASSERT n.k0 IS UNIQUE".into());
        setup.push("CREATE CONSTRAINT ON (n:L1) ASSERT n.k0 IS UNIQUE".into());
        setup.push(format!("CREATE (:L{} {{k0: 77}})", taken)); // 77 is taken under `taken`, free under `free`
    } else {
        setup.push("CREATE CONSTRAINT ON (n:L0) ASSERT n.k0 IS UNIQUE".into());
        setup.push("CREATE CONSTRAINT ON (n:L0) ASSERT n.k1 IS UNIQUE".into());
        setup.push("CREATE (:L0 {k0: 1, k1: 88})".into());
    }
    let both = NPat { var: Some(1), labels: if flip { vec![1, 0] } else { vec![0, 1] }, props: vec![(0, int(77))] };
    let (cls, clause): (Vec<Cl>, &'static str) = match which {
        0 => (vec![Cl::Create(vec![CPath { a: both, seg: None }])], "cons2-create-rowless"),
        1 => (vec![Cl::Unwind(Ex::List(vec![int(77)]), 0), Cl::Create(vec![CPath { a: NPat { props: vec![(0, Ex::Var(0))], ..both }, seg: None }])], "cons2-create-unwind"),
        2 => (vec![Cl::Merge(both, vec![], vec![])], "cons2-merge"),
        3 => {
            setup.push("CREATE (:L0:L1 {k0: 5})".into());
            (vec![Cl::MatchN(1, vec![0, 1], vec![]), Cl::Set(vec![SetItem::Prop(1, 0, int(77))])], "cons2-set")
        }
        4 => {
            // a path whose second node is the refused one: the first node (holding 60 under both labels) is taken back
            let first = NPat { var: Some(2), labels: vec![0, 1], props: vec![(0, int(60))] };
            (vec![Cl::Unwind(Ex::List(vec![int(77)]), 0), Cl::Create(vec![CPath { a: first, seg: Some((1, vec![], true, NPat { props: vec![(0, Ex::Var(0))], ..both })) }])], "cons2-create-path")
        }
        _ => (vec![Cl::Create(vec![CPath { a: NPat { var: Some(1), labels: vec![0], props: vec![(0, int(55)), (1, int(88))] }, seg: None }])], "cons2keys-create"),
    };
    let cons_probe = if two_labels { vec![(0, 0, vec![77, 60, 5]), (1, 0, vec![77, 60, 5])] } else { vec![(0, 0, vec![55, 1]), (0, 1, vec![88, 55])] };
    Planted { setup, st: St { cls, ret: None }, clause, kind: Kind::Dup, pos: 0, n: 1, constrained: true, indexed: false, after: vec![], modelled: false, cons_probe, may_succeed: false }
}

/// `CREATE (:L {k: v})` must succeed iff no live node holds v under L — asked after an id-recycling CREATE
fn constraint_probe(store: &mut GraphStore, probes: &[(u32, u32, Vec<i64>)]) -> Option<String> {
    if probes.is_empty() {
        return None;
    }
    // whatever id the failed statement freed is taken by a bystander first
    let _ = exec(store, "CREATE (:L2 {k7: 1}), (:L2 {k7: 2})", None);
    for (l, k, vals) in probes {
        for v in vals {
            let d = parse_dump(&dump(store)).unwrap_or_default();
            let held = d.nodes.iter().any(|(_, lt, ps)| lt.split('.').any(|x| x == l.to_string()) && ps.split(',').any(|p| p == format!("{}=I{}", k, v)));
            let text = format!("CREATE (:L{} {{k{}: {}, k9: 424242}})", l, k, v);
            let r = exec(store, &text, None).rows;
            match (&r, held) {
                (Err((_, m)), false) => return Some(format!("constraint-entry-leaked: `{}` is refused although no live node holds {} under :L{}(k{}): {}", text, v, l, k, m)),
                (Ok(_), true) => return Some(format!("constraint-entry-lost: `{}` is accepted although a live node holds {} under :L{}(k{})", text, v, l, k)),
                _ => {}
            }
            if r.is_ok() {
                let _ = exec(store, "MATCH (n) WHERE n.k9 = 424242 DETACH DELETE n", None);
            }
        }
    }
    None
}

/// Relationship-pattern MERGE (merge_path) with 2-3 ON MATCH SET / ON CREATE SET items, the item at `j` failing:
/// by a unique-constraint refusal (`dup`; on the unchanged tree that refusal is dropped and the statement answers
/// OK, which C05 does not judge) or by an expression error (controls).  `create`: the pattern does not exist yet.
fn gen_mergerel(create: bool, m: usize, j: usize, kind: Kind, unwind: bool) -> Planted {
    let setup: Vec<String> = vec![
        "CREATE CONSTRAINT ON (n:L1) ASSERT n.k0 IS UNIQUE".into(),
        "CREATE (:L1 {k0: 5})".into(),
        "CREATE (:L0 {k2: 1, k1: 0, k5: 0, k6: 's'})-[:T0]->(:L1 {k0: 6})".into(),
    ];
    let (ida, idb) = if create { (2, 7) } else { (1, 6) };
    let a = NPat { var: Some(1), labels: vec![0], props: vec![(2, int(ida))] };
    let b = NPat { var: Some(2), labels: vec![1], props: vec![(0, int(idb))] };
    let failing = match kind {
        Kind::Dup => SetItem::Prop(2, 0, int(5)),
        Kind::Div0 => SetItem::Prop(1, 3, bin("div", int(12), if create { bin("sub", Ex::Prop(1, 2), int(2)) } else { Ex::Prop(1, 5) })),
        _ => SetItem::Prop(1, 3, bin("sub", int(9), if create { s("s") } else { Ex::Prop(1, 6) })),
    };
    let good = |t: usize| match t {
        0 => SetItem::Prop(1, 1, int(1)),
        1 => SetItem::Prop(1, 4, int(7)),
        _ => SetItem::Prop(2, 4, int(8)),
    };
    let items: Vec<SetItem> = (0..m).map(|t| if t == j { failing.clone() } else { good(t) }).collect();
    let clause: &'static str = match (create, j > 0) {
        (false, false) => "mergerel-onmatch-itemfirst",
        (false, true) => "mergerel-onmatch-itemlater",
        (true, false) => "mergerel-oncreate-itemfirst",
        (true, true) => "mergerel-oncreate-itemlater",
    };
    let merge = if create { Cl::MergeRelOn(a, 0, b, items, vec![]) } else { Cl::MergeRelOn(a, 0, b, vec![], items) };
    let cls = if unwind { vec![Cl::Unwind(Ex::List(vec![int(1)]), 0), merge] } else { vec![merge] };
    Planted { setup, st: St { cls, ret: None }, clause, kind, pos: 0, n: 1, constrained: true, indexed: false, after: vec![], modelled: false, cons_probe: vec![(1, 0, vec![5, 6, 7])], may_succeed: kind == Kind::Dup }
}

struct Done {
    p: Planted,
    text: String,
    pre: String,
    post: String,
    out: Result<String, String>,
    probe: Option<String>,
    cons_same: bool,
}

fn run_case(p: Planted) -> Done {
    let mut store = GraphStore::new();
    for t in &p.setup {
        let o = exec(&mut store, t, None);
        assert!(o.rows.is_ok(), "setup statement failed: {} -> {:?}", t, o.rows.err());
    }
    let pre = dump(&store);
    let cons_pre = constraints(&mut store);
    let text = p.st.cypher();
    let o = exec(&mut store, &text, None);
    let post = dump(&store);
    let cons_post = constraints(&mut store);
    let mut probe = parse_dump(&post).and_then(|d| index_probe(&mut store, &d).or_else(|| adjacency_probe(&store, &d)));
    if probe.is_none() && o.rows.is_err() {
        for (a, must_succeed) in &p.after {
            let r = exec(&mut store, a, None).rows;
            match (r, must_succeed) {
                (Err((_, m)), true) => {
                    probe = Some(format!("`{}` after the failed statement is refused: {}", a, m));
                    break;
                }
                (Ok(_), false) => {
                    probe = Some(format!("`{}` after the failed statement is accepted: the value its node held was released", a));
                    break;
                }
                _ => {}
            }
        }
    }
    if probe.is_none() && o.rows.is_err() {
        probe = constraint_probe(&mut store, &p.cons_probe);
    }
    let out = match &o.rows {
        Ok(rows) => Ok(rows_text(rows)),
        Err((k, _)) => Err(k.tag().to_string()),
    };
    Done { p, text, pre, post, out, probe, cons_same: cons_pre == cons_post }
}

fn parse_corpus_line(line: &str) -> Option<(Vec<String>, String, String, String, String, usize)> {
    // setup;setup;… ||| term ||| text ||| clause ||| kind ||| pos
    let f: Vec<&str> = line.split(" ||| ").collect();
    if f.len() != 6 {
        return None;
    }
    Some((f[0].split(';').map(|x| x.trim().to_string()).filter(|x| !x.is_empty()).collect(), f[1].to_string(), f[2].to_string(), f[3].to_string(), f[4].to_string(), f[5].parse().ok()?))
}

fn main() {
    let args = Args::parse();
    let known = Known::load(&args.known, "C05");
    let mut rep = Report::new(
        "C05",
        "multi-row write statements (UNWIND-driven CREATE node / CREATE path / MERGE / MATCH+SET / MATCH+DELETE) with a failure \
         planted at every row position (zero divisor, operand type, duplicate under a unique constraint, DELETE of a connected node); \
         full dump, index probes and constraint list before/after; non-trivial = the failing row is not the first (rows before it wrote); \
         distinct = distinct (setup, statement)",
        &args.replays,
        args.seed,
    );
    let exe = args.driver_exe("drv_cyw");

    struct Flat {
        setup: String,
        term: String,
        text: String,
        clause: String,
        kind: String,
        pos: usize,
        pre: String,
        post: String,
        out: Result<String, String>,
        probe: Option<String>,
        cons_same: bool,
        modelled: bool,
        may_succeed: bool,
    }
    let mut flat: Vec<Flat> = vec![];

    // corpus / replay
    let mut files: Vec<std::path::PathBuf> = vec![];
    if let Some(r) = &args.replay {
        files.push(r.clone());
    } else if let Ok(rd) = std::fs::read_dir(args.corpus.join("C05")) {
        files = rd.filter_map(|e| e.ok().map(|e| e.path())).collect();
        files.sort();
    }
    for f in &files {
        for line in std::fs::read_to_string(f).unwrap_or_default().lines() {
            let line = line.trim();
            let line = line.strip_prefix("case ").unwrap_or(line);
            if line.is_empty() || line.starts_with('#') {
                continue;
            }
            let Some((setup, term, text, clause, kind, pos)) = parse_corpus_line(line) else { continue };
            let mut store = GraphStore::new();
            for t in &setup {
                let _ = exec(&mut store, t, None);
            }
            let pre = dump(&store);
            let c0 = constraints(&mut store);
            let o = exec(&mut store, &text, None);
            let post = dump(&store);
            let c1 = constraints(&mut store);
            let mut probe = parse_dump(&post).and_then(|d| index_probe(&mut store, &d));
            if probe.is_none() && o.rows.is_err() && clause.starts_with("cons2") {
                let cp = if clause.starts_with("cons2keys") { vec![(0, 0, vec![55, 1]), (0, 1, vec![88, 55])] } else { vec![(0, 0, vec![77, 60, 5]), (1, 0, vec![77, 60, 5])] };
                probe = constraint_probe(&mut store, &cp);
            }
            let out = match &o.rows {
                Ok(rows) => Ok(rows_text(rows)),
                Err((k, _)) => Err(k.tag().to_string()),
            };
            let modelled = kind != "dup";
            let clause_may_succeed = clause.starts_with("mergerel-on") && kind == "dup";
            flat.push(Flat { setup: setup.join("; "), term, text, clause, kind, pos, pre, post, out, probe, cons_same: c0 == c1, modelled, may_succeed: clause_may_succeed });
        }
    }
    rep.count_n("corpus_cases", flat.len() as u64);

    if args.replay.is_none() {
        // every (shape, row count 1..=4, failing position) — exhaustive over the planted space —
        // then random good values around the poison
        let mut rng = Rng::new(vharness::util::fnv(&format!("c05-{}", args.seed)));
        let reps = if args.thorough() { 40 } else { 6 };
        for _ in 0..reps {
            for which in 0..15u64 {
                for n in 1..=4usize {
                    for pos in 0..n {
                        let d = run_case(gen_case(&mut rng, n, pos, which));
                        flat.push(Flat {
                            setup: d.p.setup.join("; "),
                            term: d.p.st.model(),
                            text: d.text,
                            clause: d.p.clause.to_string(),
                            kind: d.p.kind.tag().to_string(),
                            pos: d.p.pos,
                            pre: d.pre,
                            post: d.post,
                            out: d.out,
                            probe: d.probe,
                            cons_same: d.cons_same,
                            modelled: d.p.kind != Kind::Dup && d.p.modelled,
                            may_succeed: d.p.may_succeed,
                        });
                        let _ = (d.p.n, d.p.constrained, d.p.indexed);
                    }
                }
            }
        }
        // relationship-pattern MERGE with several ON MATCH / ON CREATE items, one of them refused or failing
        for create in [false, true] {
            for m in 2..=3usize {
                for j in 0..m {
                    for kind in [Kind::Dup, Kind::Div0, Kind::Type] {
                        for unwind in [false, true] {
                            let d = run_case(gen_mergerel(create, m, j, kind, unwind));
                            flat.push(Flat { setup: d.p.setup.join("; "), term: d.p.st.model(), text: d.text, clause: d.p.clause.to_string(), kind: d.p.kind.tag().to_string(), pos: d.p.pos, pre: d.pre, post: d.post, out: d.out, probe: d.probe, cons_same: d.cons_same, modelled: d.p.modelled, may_succeed: d.p.may_succeed });
                        }
                    }
                }
            }
        }
        // constraint bookkeeping after a take-back: 6 shapes x both roles of the two labels x 16 repetitions (the
        // label set of a node is a HashSet: which constrained label is visited first differs from store to store)
        for which in 0..6u64 {
            for flip in [false, true] {
                for _ in 0..16 {
                    let d = run_case(gen_cons(which, flip));
                    flat.push(Flat { setup: d.p.setup.join("; "), term: d.p.st.model(), text: d.text, clause: d.p.clause.to_string(), kind: d.p.kind.tag().to_string(), pos: d.p.pos, pre: d.pre, post: d.post, out: d.out, probe: d.probe, cons_same: d.cons_same, modelled: d.p.modelled, may_succeed: d.p.may_succeed });
                }
            }
        }
        // relationships between pre-existing nodes etc.: pattern x (rows, failing row)
        for pat in 0..11u64 {
            for (n, pos) in [(1usize, 0usize), (3, 0), (3, 2), (2, 1)] {
                let d = run_case(gen_rel(&mut rng, pat, n, pos));
                flat.push(Flat { setup: d.p.setup.join("; "), term: d.p.st.model(), text: d.text, clause: d.p.clause.to_string(), kind: d.p.kind.tag().to_string(), pos: d.p.pos, pre: d.pre, post: d.post, out: d.out, probe: d.probe, cons_same: d.cons_same, modelled: d.p.modelled, may_succeed: d.p.may_succeed });
            }
        }
        for which in 0..4u64 {
            let d = run_case(gen_rowless(which));
            flat.push(Flat { setup: d.p.setup.join("; "), term: d.p.st.model(), text: d.text, clause: d.p.clause.to_string(), kind: d.p.kind.tag().to_string(), pos: d.p.pos, pre: d.pre, post: d.post, out: d.out, probe: d.probe, cons_same: d.cons_same, modelled: d.p.modelled, may_succeed: d.p.may_succeed });
        }
        // multi-item clauses: family x item count x failing item x failure kind x (rows, failing row)
        for fam in 0..4u64 {
            for m in 2..=4usize {
                for j in 0..m {
                    if fam == 1 && (m != 2 || j != 1) {
                        continue;
                    }
                    for kind in [Kind::Div0, Kind::Type, Kind::Unbound] {
                        for (n, pos, constrained) in [(1usize, 0usize, false), (3, 0, false), (3, 2, false), (1, 0, true), (3, 0, true)] {
                            if constrained && fam != 0 {
                                continue;
                            }
                            let d = run_case(gen_multi(&mut rng, fam, constrained, m, j, kind, n, pos));
                            flat.push(Flat {
                                setup: d.p.setup.join("; "),
                                term: d.p.st.model(),
                                text: d.text,
                                clause: d.p.clause.to_string(),
                                kind: d.p.kind.tag().to_string(),
                                pos: d.p.pos,
                                pre: d.pre,
                                post: d.post,
                                out: d.out,
                                probe: d.probe,
                                cons_same: d.cons_same,
                                modelled: d.p.modelled,
                                may_succeed: d.p.may_succeed,
                            });
                        }
                    }
                }
            }
        }
        rep.exhaustive = true;
        rep.exhaustive_note = "every (write shape of 15) x (1..4 input rows) x (failing row position) is planted in each repetition; the non-failing row values are random; plus 6 shapes x 2 label roles x 16 repetitions of a first-row failure under two unique constraints (same key on two labels / two keys on one label) with a Cypher probe of every constraint entry afterwards; plus 11 relationship-creation patterns between pre-existing / new nodes x 4 row layouts, 4 row-less multi-pattern CREATEs under a unique constraint, and every multi-item clause (SET / SET += / ON CREATE SET / ON MATCH SET) x 2..4 items x failing item position x {div0, type, unbound variable} x {single row, first of 3, last of 3}".into();
    }

    let mut lines = vec![];
    for f in &flat {
        lines.push(format!("stream - {} {}", f.pre, f.term));
        let obs = match &f.out {
            Ok(rows) => format!("ok@{}@{}", rows, f.post),
            Err(k) => format!("err@{}@{}", k, f.post),
        };
        lines.push(format!("speca {} {}", f.pre, obs));
    }
    let replies = driver::par_batch(&exe, &lines, 8);

    let mut first_break: Option<String> = None;
    for (i, f) in flat.iter().enumerate() {
        let m = &replies[2 * i];
        let sv = &replies[2 * i + 1];
        let failed = f.out.is_err();
        rep.case(&format!("{} | {}", f.setup, f.text), failed && f.pos > 0);
        rep.count(&format!("planted:{}:{}:{}", f.clause, f.kind, if f.pos == 0 { "first" } else { "later" }));
        rep.count(if failed { "engine:err" } else { "engine:ok" });
        if failed && f.pos > 0 && rep.samples.len() < 4 {
            rep.sample(json!({"setup": f.setup, "statement": f.text, "failing_row": f.pos, "error": f.out.clone().err(), "pre": f.pre, "post": f.post}));
        }
        let body = format!(
            "case {} ||| {} ||| {} ||| {} ||| {} ||| {}\n# pre   {}\n# impl  {:?} {}\n# model {}\n# spec  {}\n# index {:?} constraints_unchanged={}",
            f.setup.replace("; ", ";"),
            f.term,
            f.text,
            f.clause,
            f.kind,
            f.pos,
            f.pre,
            f.out,
            f.post,
            m,
            sv,
            f.probe,
            f.cons_same
        );
        if m == "bad-op" || sv == "bad-op" {
            rep.count("driver_rejected");
            if first_break.is_none() {
                first_break = Some(body.clone());
            }
            continue;
        }
        if !failed && f.may_succeed {
            // a refusal the engine drops silently: the statement did not fail, C05 says nothing about it
            rep.count(&format!("refusal_dropped_statement_ok:{}", f.clause));
            continue;
        }
        if !failed {
            // the planted failure must fail: an answer here means an error was swallowed
            rep.count("spec_violation:planted-failure-answered-ok");
            rep.spec_violation(&known, &format!("no-error:{}:{}", f.clause, f.kind), &format!("`{}` answered OK although row {} must fail ({})", f.text, f.pos, f.kind), &body);
            continue;
        }
        if sv != "ok" {
            let sig = format!("partial:{}:{}:{}", f.clause, f.kind, if f.pos == 0 { "first-row" } else { "row>first" });
            rep.count(&format!("spec_violation:{}", sig));
            rep.spec_violation(&known, &sig, &format!("`{}` failed ({:?}) at row {} and left {} (was {})", f.text, f.out, f.pos, f.post, f.pre), &body);
        }
        if let (Some(p), true) = (&f.probe, sv == "ok") {
            let what = if p.starts_with("constraint-entry-leaked") { "constraint-entry-leaked" } else if p.starts_with("constraint-entry-lost") { "constraint-entry-lost" } else { f.kind.as_str() };
            rep.count(&format!("spec_violation:store-probe-diverges:{}:{}", what, f.clause));
            rep.spec_violation(&known, &format!("store-probe-diverges:{}:{}", what, f.clause), &format!("after the failed `{}`: {}", f.text, p), &body);
            continue;
        }
        if !f.cons_same {
            rep.spec_violation(&known, &format!("constraints-changed:{}:{}", f.clause, f.kind), &format!("constraint list changed by the failed `{}`", f.text), &body);
            continue;
        }
        // R vs M: what is left behind must be what the streaming model leaves
        if f.modelled {
            let (mok, _mk, mgraph) = split_reply(m);
            let same = !mok
                && match (parse_dump(&f.post), parse_dump(&mgraph)) {
                    (Some(a), Some(b)) => find_renaming(&a, &b).is_some(),
                    _ => false,
                };
            if !same {
                rep.count("model_mismatch");
                if first_break.is_none() {
                    first_break = Some(body);
                }
            }
        } else {
            rep.count("model_not_applicable(unique constraints are not modelled)");
        }
    }
    if let Some(body) = first_break {
        if rep.spec_violations.is_empty() {
            rep.correspondence_break(
                "SgModel.CyW.execStream = MutQueryExecutor::execute on a failing statement (error, graph left behind)",
                "the streaming model and the engine leave different graphs behind (or the driver rejected a request)",
                &body,
            );
        }
    }
    rep.write(&args.out);
}
