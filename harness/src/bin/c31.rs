//! C31 — Raft log storage: real `RaftStorage` vs the Lean model `SgModel.RaftLog`,
//! and the executable specification evaluated on the implementation's observations.
use samyama::raft::storage::{LogEntry, RaftStorage};
use serde_json::json;
use vharness::{driver, Args, Known, Report, Rng};

#[derive(Clone, Debug)]
enum Op {
    Append(Vec<(u64, u64)>),
    Truncate(u64),
    Snapshot(u64, u64),
}

/// data tags are unique per appended entry: ordinal of the op * 8 + position in the batch
fn render(ops: &[Op]) -> String {
    let mut parts = vec![];
    for (k, op) in ops.iter().enumerate() {
        parts.push(match op {
            Op::Append(es) => format!(
                "a:{}",
                es.iter()
                    .enumerate()
                    .map(|(j, (i, t))| format!("{}.{}.{}", i, t, k * 8 + j))
                    .collect::<Vec<_>>()
                    .join("+")
            ),
            Op::Truncate(i) => format!("t:{}", i),
            Op::Snapshot(i, t) => format!("s:{}.{}", i, t),
        });
    }
    parts.join(";")
}

fn parse(s: &str) -> Option<Vec<Op>> {
    let mut ops = vec![];
    for p in s.split(';') {
        let (k, rest) = p.split_once(':')?;
        match k {
            "a" => {
                let mut es = vec![];
                for e in rest.split('+') {
                    let f: Vec<&str> = e.split('.').collect();
                    es.push((f.first()?.parse().ok()?, f.get(1)?.parse().ok()?));
                }
                ops.push(Op::Append(es));
            }
            "t" => ops.push(Op::Truncate(rest.parse().ok()?)),
            "s" => {
                let (i, t) = rest.split_once('.')?;
                ops.push(Op::Snapshot(i.parse().ok()?, t.parse().ok()?));
            }
            _ => return None,
        }
    }
    Some(ops)
}

fn show_entries(es: &[LogEntry]) -> String {
    if es.is_empty() {
        "-".into()
    } else {
        es.iter().map(show_entry).collect::<Vec<_>>().join(",")
    }
}
fn show_entry(e: &LogEntry) -> String {
    let d = e.data.iter().fold(0u64, |a, b| a * 256 + *b as u64);
    format!("{}.{}.{}", e.index, e.term, d)
}

/// run the real storage, one observation per op (same text as the Lean `showObs`)
fn run_real(rt: &tokio::runtime::Runtime, dir: &std::path::Path, ops: &[Op]) -> String {
    rt.block_on(async {
        let st = RaftStorage::new(dir).expect("storage");
        let mut obs = vec![];
        for (k, op) in ops.iter().enumerate() {
            match op {
                Op::Append(es) => {
                    let v = es
                        .iter()
                        .enumerate()
                        .map(|(j, (i, t))| LogEntry {
                            index: *i,
                            term: *t,
                            data: ((k * 8 + j) as u64).to_be_bytes().to_vec(),
                        })
                        .collect();
                    st.append_entries(v).await.expect("append");
                }
                Op::Truncate(i) => st.delete_entries_from(*i).await.expect("truncate"),
                Op::Snapshot(i, t) => st.create_snapshot(*i, *t, vec![]).await.expect("snapshot"),
            }
            let dump = st.get_entries(0, u64::MAX).await;
            let (li, lt) = st.get_last_log_index_term().await;
            let snap = match st.get_snapshot_metadata().await {
                Some((i, t)) => format!("{}.{}", i, t),
                None => "-".into(),
            };
            let mut gets = vec![];
            for i in 0..=6u64 {
                gets.push(match st.get_entry(i).await {
                    Some(e) => show_entry(&e),
                    None => "_".into(),
                });
            }
            let range = st.get_entries(2, 4).await;
            obs.push(format!(
                "{}|{}.{}|{}|{}|{}",
                show_entries(&dump),
                li,
                lt,
                snap,
                gets.join(","),
                show_entries(&range)
            ));
        }
        obs.join(";")
    })
}

fn alphabet(max_i: u64, max_t: u64) -> Vec<Op> {
    let mut a = vec![];
    for i in 1..=max_i {
        for t in 1..=max_t {
            a.push(Op::Append(vec![(i, t)]));
            a.push(Op::Snapshot(i, t));
            if i < max_i {
                a.push(Op::Append(vec![(i, t), (i + 1, t)]));
            }
        }
        a.push(Op::Truncate(i));
    }
    a
}

fn all_seqs(alpha: &[Op], len: usize, out: &mut Vec<Vec<Op>>) {
    let n = alpha.len();
    let total = n.pow(len as u32);
    for mut x in 0..total {
        let mut s = Vec::with_capacity(len);
        for _ in 0..len {
            s.push(alpha[x % n].clone());
            x /= n;
        }
        out.push(s);
    }
}

/// non-trivial (Appendix B): an append hits an index already present, or a snapshot index
/// lies strictly inside the log (something below-or-at and something above it)
fn nontrivial(ops: &[Op]) -> bool {
    let mut idx: Vec<u64> = vec![];
    for op in ops {
        match op {
            Op::Append(es) => {
                for (i, _) in es {
                    if idx.contains(i) {
                        return true;
                    }
                    idx.retain(|x| x < i);
                    idx.push(*i);
                }
            }
            Op::Truncate(i) => idx.retain(|x| x < i),
            Op::Snapshot(i, _) => {
                if idx.iter().any(|x| x <= i) && idx.iter().any(|x| x > i) {
                    return true;
                }
                idx.retain(|x| x > i);
            }
        }
    }
    false
}

fn main() {
    let args = Args::parse();
    let known = Known::load(&args.known, "C31");
    let mut rep = Report::new(
        "C31",
        "op sequences over append(single|batch of 2)/truncate/snapshot; exhaustive small scopes, then PRNG sequences; \
         non-trivial = an append hits an index already in the log, or a snapshot index lies strictly inside the log; \
         distinct = distinct rendered op sequence",
        &args.replays,
        args.seed,
    );
    let exe = args.driver_exe("drv_raftlog");
    let rt = tokio::runtime::Builder::new_current_thread().build().unwrap();
    let tmp = tempfile::Builder::new().prefix("c31").tempdir_in(&args.work).expect("work dir");

    // 1. corpus / replay
    let mut seqs: Vec<Vec<Op>> = vec![];
    let mut n_corpus = 0;
    let mut files: Vec<std::path::PathBuf> = vec![];
    if let Some(r) = &args.replay {
        files.push(r.clone());
    } else if let Ok(rd) = std::fs::read_dir(args.corpus.join("C31")) {
        files = rd.filter_map(|e| e.ok().map(|e| e.path())).collect();
        files.sort();
    }
    for f in &files {
        for line in std::fs::read_to_string(f).unwrap_or_default().lines() {
            let line = line.trim();
            if line.is_empty() || line.starts_with('#') {
                continue;
            }
            let ops_txt = line.strip_prefix("ops ").unwrap_or(line);
            if let Some(ops) = parse(ops_txt) {
                seqs.push(ops);
                n_corpus += 1;
            }
        }
    }
    rep.count_n("corpus_sequences", n_corpus);

    if args.replay.is_none() {
        // 2. exhaustive small scopes
        let full = alphabet(5, 3);
        let small = alphabet(3, 2);
        let (lf, ls) = if args.thorough() { (3, 5) } else { (3, 4) };
        for l in 1..=lf {
            all_seqs(&full, l, &mut seqs);
        }
        all_seqs(&small, ls, &mut seqs);
        if args.thorough() {
            all_seqs(&alphabet(4, 2), 4, &mut seqs);
        }
        rep.exhaustive = true;
        rep.exhaustive_note = format!(
            "all sequences of length <= {} over indices 1-5 x terms 1-3 ({} letters) and of length {} over indices 1-3 x terms 1-2 ({} letters){}; plus PRNG sequences (not exhaustive)",
            lf, full.len(), ls, small.len(), if args.thorough() { " and of length 4 over indices 1-4 x terms 1-2" } else { "" }
        );
        // 3. random long sequences over the full alphabet
        let mut rng = Rng::new(args.seed);
        let n_rand = if args.thorough() { 400_000 } else { 40_000 };
        for _ in 0..n_rand {
            let len = 5 + rng.usize(8);
            seqs.push((0..len).map(|_| rng.pick(&full).clone()).collect());
        }
    }

    // evaluate in chunks
    let mut first_break: Option<String> = None;
    for chunk in seqs.chunks(200_000) {
        let rendered: Vec<String> = chunk.iter().map(|s| render(s)).collect();
        let real: Vec<String> = chunk.iter().map(|s| run_real(&rt, tmp.path(), s)).collect();
        let mut lines = Vec::with_capacity(chunk.len() * 2);
        for (r, o) in rendered.iter().zip(real.iter()) {
            lines.push(format!("run {}", r));
            lines.push(format!("spec {} {}", r, o));
        }
        let replies = driver::par_batch(&exe, &lines, 12);
        for (k, ops) in chunk.iter().enumerate() {
            let m = &replies[2 * k];
            let s = &replies[2 * k + 1];
            let nt = nontrivial(ops);
            rep.case(&rendered[k], nt);
            if nt && rep.samples.len() < 3 {
                rep.sample(json!({"ops": rendered[k], "impl_obs": real[k]}));
            }
            let body = format!("ops {}\nimpl  {}\nmodel {}\nspec  {}", rendered[k], real[k], m, s);
            if s != "ok" {
                // S ⊭ R: classify by the kind of the offending op
                let sig = match s.strip_prefix("viol ").and_then(|x| x.parse::<usize>().ok()) {
                    Some(i) => match &ops[i] {
                        Op::Append(_) => "append-conflict",
                        Op::Truncate(_) => "truncate",
                        Op::Snapshot(..) => "snapshot-tail",
                    },
                    None => "driver-rejected",
                };
                rep.count(&format!("spec_violation:{}", sig));
                rep.spec_violation(&known, sig, &format!("specification violated at {} on `{}`", s, rendered[k]), &body);
            } else if *m != format!("ok {}", real[k]) {
                rep.count("model_mismatch");
                if first_break.is_none() {
                    first_break = Some(body);
                }
            }
        }
    }
    if let Some(body) = first_break {
        if rep.spec_violations.is_empty() {
            // no failing input found among everything explored: report the correspondence
            rep.correspondence_break(
                "SgModel.RaftLog.step = RaftStorage::{append_entries,delete_entries_from,create_snapshot} (observations)",
                "model and implementation observations differ but the specification holds on all explored cases",
                &body,
            );
        }
    }
    rep.sample(json!({"ops": seqs.last().map(|s| render(s))}));
    rep.write(&args.out);
}
