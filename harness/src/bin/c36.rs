//! C36 — RDF serialisations round-trip every triple set.
//!
//! Real `RdfSerializer::serialize` / `RdfParser::parse` (N-Triples, Turtle, RDF/XML) against the
//! Lean model `SgModel.Rdf` (driver `drv_rdf`):
//!   R  = (bytes written, outcome of parsing them back)            — the implementation
//!   M  = `pred <fmt> <case>`: the model's bytes and predicted outcome — compared exactly
//!   S  = `spec <fmt> <case> <R outcome>`: same set up to blank-node renaming
//! plus three lexical ties (IRI / language tag / blank-node label acceptance of the real
//! constructors vs the model's side conditions) and the model's N-Triples parser against the
//! real one on alternative spellings (UCHAR/ECHAR escapes, white space, comments, CRLF).
use samyama::rdf::{BlankNode, Literal, NamedNode, RdfFormat, RdfObject, RdfParser, RdfPredicate, RdfSerializer, RdfSubject, Triple};
use serde_json::json;
use vharness::{driver, Args, Driver, Known, Report, Rng};

const XSD_STRING: &str = "http://www.w3.org/2001/XMLSchema#string";

#[derive(Clone, Debug, PartialEq, Eq, Hash)]
enum Term {
    Iri(String),
    Bnode(String),
    Simple(String),
    Lang(String, String),
    Typed(String, String),
}

#[derive(Clone, Debug, PartialEq, Eq, Hash)]
struct T3 {
    s: Term,
    p: String,
    o: Term,
}

fn hx(s: &str) -> String {
    let mut o = String::with_capacity(s.len() * 2);
    for b in s.as_bytes() {
        o.push_str(&format!("{:02x}", b));
    }
    o
}
fn unhx(s: &str) -> Option<String> {
    if s.len() % 2 != 0 {
        return None;
    }
    let b: Option<Vec<u8>> = (0..s.len()).step_by(2).map(|i| u8::from_str_radix(&s[i..i + 2], 16).ok()).collect();
    String::from_utf8(b?).ok()
}

fn show_term(t: &Term) -> String {
    match t {
        Term::Iri(i) => format!("I{}", hx(i)),
        Term::Bnode(b) => format!("B{}", hx(b)),
        Term::Simple(v) => format!("S{}", hx(v)),
        Term::Lang(v, l) => format!("L{}.{}", hx(v), hx(l)),
        Term::Typed(v, d) => format!("T{}.{}", hx(v), hx(d)),
    }
}
fn show_case(ts: &[T3]) -> String {
    if ts.is_empty() {
        return "-".into();
    }
    ts.iter().map(|t| format!("{},I{},{}", show_term(&t.s), hx(&t.p), show_term(&t.o))).collect::<Vec<_>>().join(";")
}
fn parse_term(s: &str) -> Option<Term> {
    let (k, body) = s.split_at(1);
    match k {
        "I" => Some(Term::Iri(unhx(body)?)),
        "B" => Some(Term::Bnode(unhx(body)?)),
        "S" => Some(Term::Simple(unhx(body)?)),
        "L" => {
            let (a, b) = body.split_once('.')?;
            Some(Term::Lang(unhx(a)?, unhx(b)?))
        }
        "T" => {
            let (a, b) = body.split_once('.')?;
            Some(Term::Typed(unhx(a)?, unhx(b)?))
        }
        _ => None,
    }
}
fn parse_case(s: &str) -> Option<Vec<T3>> {
    if s == "-" {
        return Some(vec![]);
    }
    let mut out = vec![];
    for t in s.split(';') {
        let f: Vec<&str> = t.split(',').collect();
        if f.len() != 3 || f.iter().any(|x| x.is_empty()) {
            return None;
        }
        let p = match parse_term(f[1])? {
            Term::Iri(i) => i,
            _ => return None,
        };
        out.push(T3 { s: parse_term(f[0])?, p, o: parse_term(f[2])? });
    }
    Some(out)
}

/// build the repository's triple through its public constructors
fn to_real(t: &T3) -> Option<Triple> {
    let s = match &t.s {
        Term::Iri(i) => RdfSubject::NamedNode(NamedNode::new(i).ok()?),
        Term::Bnode(b) => RdfSubject::BlankNode(BlankNode::from_str(b).ok()?),
        _ => return None,
    };
    let p = RdfPredicate::new(&t.p).ok()?;
    let o = match &t.o {
        Term::Iri(i) => RdfObject::NamedNode(NamedNode::new(i).ok()?),
        Term::Bnode(b) => RdfObject::BlankNode(BlankNode::from_str(b).ok()?),
        Term::Simple(v) => RdfObject::Literal(Literal::new_simple_literal(v.clone())),
        Term::Lang(v, l) => RdfObject::Literal(Literal::new_language_tagged_literal(v.clone(), l.clone()).ok()?),
        Term::Typed(v, d) => RdfObject::Literal(Literal::new_typed_literal(v.clone(), NamedNode::new(d).ok()?)),
    };
    Some(Triple::new(s, p, o))
}

/// observe a real triple through the public getters only
fn from_real(t: &Triple) -> T3 {
    let s = match &t.subject {
        RdfSubject::NamedNode(n) => Term::Iri(n.as_str().to_string()),
        RdfSubject::BlankNode(b) => Term::Bnode(b.as_str().to_string()),
    };
    let p = t.predicate.as_named_node().as_str().to_string();
    let o = match &t.object {
        RdfObject::NamedNode(n) => Term::Iri(n.as_str().to_string()),
        RdfObject::BlankNode(b) => Term::Bnode(b.as_str().to_string()),
        RdfObject::Literal(l) => {
            if let Some(lang) = l.language() {
                Term::Lang(l.value().to_string(), lang.to_string())
            } else if l.datatype().as_str() == XSD_STRING {
                Term::Simple(l.value().to_string())
            } else {
                Term::Typed(l.value().to_string(), l.datatype().as_str().to_string())
            }
        }
    };
    T3 { s, p, o }
}

const FMTS: [(&str, RdfFormat); 3] = [("nt", RdfFormat::NTriples), ("ttl", RdfFormat::Turtle), ("xml", RdfFormat::RdfXml)];

/// (bytes written or None, outcome text)
fn run_real(real: &[Triple], f: RdfFormat) -> (Option<String>, String) {
    let r = std::panic::catch_unwind(|| match RdfSerializer::serialize(real, f) {
        Err(_) => (None, "serr".to_string()),
        Ok(text) => match RdfParser::parse(&text, f) {
            Err(_) => (Some(text), "perr".to_string()),
            Ok(back) => {
                let b: Vec<T3> = back.iter().map(from_real).collect();
                (Some(text), format!("back:{}", show_case(&b)))
            }
        },
    });
    r.unwrap_or((None, "panic".to_string()))
}

fn sorted_outcome(o: &str) -> String {
    match o.strip_prefix("back:") {
        Some(c) if c != "-" => {
            let mut v: Vec<&str> = c.split(';').collect();
            v.sort();
            v.dedup();
            format!("back:{}", v.join(";"))
        }
        _ => o.to_string(),
    }
}

// ---------------------------------------------------------------- generators

const BOUNDARY: &[&str] = &[
    "\"", "\\", "\n", "\r", "\t", " ", "\u{0}", "\u{1}", "\u{8}", "\u{b}", "\u{c}", "\u{1f}", "\u{7f}", "\u{85}", "\u{a0}",
    "\u{2028}", "\u{feff}", "\u{fffe}", "\u{ffff}", "\u{10000}", "\u{1F600}", "\u{10FFFF}", "a", "Z", "0", "<", ">", "&", "'",
    "é", "中", "]]>", "\\u0041", "&amp;", "&#10;", "@", "^", ".", "#", "_:",
];

fn gen_value(rng: &mut Rng) -> String {
    match rng.below(12) {
        0 => String::new(),
        1 => [" ", "\n", "\t", "\r", " \n", "  "][rng.usize(6)].to_string(), // white-space only
        _ => {
            let n = 1 + rng.usize(6);
            (0..n).map(|_| *rng.pick(BOUNDARY)).collect()
        }
    }
}

/// datatypes a serialiser or parser might treat specially (Turtle shorthands, canonicalisation, rdf:langString, XML literals)
const WELL_KNOWN_DTS: &[&str] = &[
    XSD_STRING,
    "http://www.w3.org/2001/XMLSchema#integer",
    "http://www.w3.org/2001/XMLSchema#decimal",
    "http://www.w3.org/2001/XMLSchema#double",
    "http://www.w3.org/2001/XMLSchema#float",
    "http://www.w3.org/2001/XMLSchema#boolean",
    "http://www.w3.org/2001/XMLSchema#dateTime",
    "http://www.w3.org/2001/XMLSchema#date",
    "http://www.w3.org/2001/XMLSchema#anyURI",
    "http://www.w3.org/2001/XMLSchema#long",
    "http://www.w3.org/2001/XMLSchema#normalizedString",
    "http://www.w3.org/2001/XMLSchema#token",
    "http://www.w3.org/2001/XMLSchema#hexBinary",
    "http://www.w3.org/1999/02/22-rdf-syntax-ns#langString",
    "http://www.w3.org/1999/02/22-rdf-syntax-ns#XMLLiteral",
    "http://www.w3.org/1999/02/22-rdf-syntax-ns#HTML",
    "http://www.w3.org/1999/02/22-rdf-syntax-ns#JSON",
    "http://www.w3.org/1999/02/22-rdf-syntax-ns#PlainLiteral",
];

/// lexical forms that a datatype-aware edit would normalise, abbreviate or reject
const LEXICAL: &[&str] = &[
    "0", "1", "-1", "+1", "007", "-0", "1.0", "1.", ".5", "1.50", "1E0", "1e+3", "-1.5E-3", "INF", "-INF", "NaN", "true", "false", "TRUE", "True",
    " 7 ", "7\n", "", "1 2", "0x1F", "12345678901234567890123456789", "2020-01-01", "2020-01-01T00:00:00Z", "2020-01-01T00:00:00+00:00",
    "24:00:00", "http://e/ x", "<b>x</b>", "<a href='x'>&amp;</a>", "{\"a\": [1, \"\\n\"]}", "DEADBEEF", "a  b", " a", "a ", "\ta",
];

fn gen_typed_value(rng: &mut Rng) -> String {
    if rng.chance(1, 2) {
        rng.pick(LEXICAL).to_string()
    } else {
        gen_value(rng)
    }
}

/// a literal of `n` chars whose escape-needing / multi-byte characters sit on and around position `n`-ish buffer borders
fn long_value(rng: &mut Rng, n: usize) -> String {
    let mut v: Vec<String> = (0..n).map(|i| ((b'a' + (i % 26) as u8) as char).to_string()).collect();
    let special = ["\"", "\\", "\n", "\r", "<", "&", "'", "é", "中", "\u{1F600}", " ", "\t", "]]>"];
    for k in 0..n {
        // densely near the ends and at powers of two, sparsely elsewhere
        let near = k < 3 || k + 3 >= n || (k + 2).next_power_of_two() - k <= 2 || k.is_power_of_two();
        if near || rng.chance(1, 97) {
            v[k] = rng.pick(&special).to_string();
        }
    }
    v.concat()
}

struct Pools {
    iris: Vec<String>,
    preds: Vec<String>,
    bnodes_ok: Vec<String>,  // accepted by the repository and readable by all three formats
    bnodes_odd: Vec<String>, // accepted by the repository, rejected by at least one parser
    langs: Vec<String>,
    dts: Vec<String>,
}

fn iri_candidates(rng: &mut Rng) -> Vec<String> {
    let mut v: Vec<String> = [
        "http://e/s", "http://e/", "http://example.org/ns#Thing", "urn:x:y", "http://e/a/b.c-d_e~", "https://[::1]:8080/p?x=1&y='2'#f",
        "mailto:a@b.c", "http://é.example/ü", "http://e/%20%3C", "x-y.z+1:q", "http://e/\u{10000}", "http://e/a(b)*!$,;=",
        "tag:e,2020:x", "http://e/1", "http://e/a:b", "http://e/a\u{b7}", "http://e/中文", "http://e/\u{1F600}", "HTTP://E/P", "a:",
        // predicates / terms ending in a namespace separator or with an awkward local part
        "http://e/ns#", "http://e/p/", "http://e/a#b/", "http://e/#", "urn:x:", "http://e/p?q=", "http://e/p.", "http://e/p-", "http://e/%C3%A9",
        "http://e/1a", "http://e/_", "http://e/é", "http://e/a.b", "http://e/-a", "http://e/ns#1", "http://e/ns#a#b", "http://e/a/b/c", "http://e/x#y/z",
        // vocabulary the formats give special syntax to (Turtle `a`, collections; RDF/XML reserved names, rdf:li, xml:lang)
        "http://www.w3.org/1999/02/22-rdf-syntax-ns#type", "http://www.w3.org/1999/02/22-rdf-syntax-ns#li", "http://www.w3.org/1999/02/22-rdf-syntax-ns#_1",
        "http://www.w3.org/1999/02/22-rdf-syntax-ns#nil", "http://www.w3.org/1999/02/22-rdf-syntax-ns#first", "http://www.w3.org/1999/02/22-rdf-syntax-ns#rest",
        "http://www.w3.org/1999/02/22-rdf-syntax-ns#Description", "http://www.w3.org/1999/02/22-rdf-syntax-ns#about", "http://www.w3.org/1999/02/22-rdf-syntax-ns#RDF",
        "http://www.w3.org/1999/02/22-rdf-syntax-ns#ID", "http://www.w3.org/1999/02/22-rdf-syntax-ns#resource", "http://www.w3.org/1999/02/22-rdf-syntax-ns#nodeID",
        "http://www.w3.org/1999/02/22-rdf-syntax-ns#datatype", "http://www.w3.org/1999/02/22-rdf-syntax-ns#parseType", "http://www.w3.org/1999/02/22-rdf-syntax-ns#value",
        "http://www.w3.org/1999/02/22-rdf-syntax-ns#aboutEach", "http://www.w3.org/1999/02/22-rdf-syntax-ns#aboutEachPrefix", "http://www.w3.org/1999/02/22-rdf-syntax-ns#bagID",
        "http://www.w3.org/1999/02/22-rdf-syntax-ns#subject", "http://www.w3.org/1999/02/22-rdf-syntax-ns#Bag", "http://www.w3.org/1999/02/22-rdf-syntax-ns#_2", "http://www.w3.org/1999/02/22-rdf-syntax-ns#lix",
        "http://www.w3.org/1999/02/22-rdf-syntax-ns#", "http://www.w3.org/2000/01/rdf-schema#label", "http://www.w3.org/XML/1998/namespace", "http://www.w3.org/XML/1998/namespacelang",
        "http://www.w3.org/2000/xmlns/", "http://www.w3.org/2000/xmlns/x", "http://www.w3.org/2001/XMLSchema#string", "http://www.w3.org/2002/07/owl#sameAs",
        // candidates the constructor must reject (and the model's lexical condition too, or not — only the implication is checked)
        "http://e/ p", "http://e/p>", "http://e/<p", "http://e/p\\u0041", "http://e/\"", "http://e/{x}", "http://e/a|b", "http://e/^",
        "http://e/`", "http://e/\n", "http://e/\t", "", "no-scheme", "http://e/%zz", "http://e/\u{10FFFD}", "1a:b", "http://e/\u{7f}",
        "http://e/\u{a0}", "http://e/\u{fffe}",
    ]
    .iter()
    .map(|s| s.to_string())
    .collect();
    const AL: &[&str] = &["a", "Z", "0", ".", "_", "~", "-", ":", "/", "?", "#", "@", "!", "$", "&", "'", "(", ")", "*", "+", ",", ";", "=", "%41", "é", "中", "😀", "\u{b7}", "\u{300}", "[", "]", " ", "<", "\\"];
    for _ in 0..60 {
        let base = ["http://e/", "urn:", "http://e/x#", "s:"][rng.usize(4)];
        let n = 1 + rng.usize(6);
        let tail: String = (0..n).map(|_| *rng.pick(AL)).collect();
        v.push(format!("{}{}", base, tail));
    }
    v
}

fn bnode_candidates(rng: &mut Rng) -> Vec<String> {
    let mut v: Vec<String> = [
        "a", "b1", "x_y", "a.b", "a-b", "0", "0a", "123", "a1f", "é", "a\u{b7}b", "a:b", ":a", "a..b", "_", "_a", "a.", "-a", "\u{b7}", "",
        "a b", "a.é", "a\u{300}", "a.\u{300}", "A", "a.-", "a.b.c", "0.0", "a\u{203f}", "\u{10000}", "a.\u{2028}", "ffffffffffffffffffffffffffffffff", "fffffffffffffffffffffffffffffffff", "00a", "0x1", "deadbeef", "DEADBEEF", "1e5", "genid-1", "b_0.1-x",
    ]
    .iter()
    .map(|s| s.to_string())
    .collect();
    const AL: &[&str] = &["a", "Z", "0", "9", "_", ".", "-", ":", "\u{b7}", "é", "\u{300}", "中", "\u{37e}", " "];
    for _ in 0..60 {
        let n = 1 + rng.usize(5);
        v.push((0..n).map(|_| *rng.pick(AL)).collect());
    }
    v
}

fn lang_candidates() -> Vec<String> {
    ["en", "EN", "en-US", "de-CH-1996", "x-private", "zh-Hant-TW", "i-klingon", "fr-", "-fr", "e", "en_US", "toolongtag1", "en-a-bbb", "", "12", "sl-rozaj-biske", "en US", "é", "en-GB-oed", "zh-cmn-Hans-CN", "de-DE-u-co-phonebk", "x-a-b", "EN-us", "Fr-Latn-ca", "en-Latn-US-x-priv", "es-419", "de-1996", "a-b", "qaa-Qaaa-QM-x-southern"]
        .iter()
        .map(|s| s.to_string())
        .collect()
}

// ---------------------------------------------------------------- alternative N-Triples spellings

fn alt_char(rng: &mut Rng, c: char, in_iri: bool) -> String {
    let cp = c as u32;
    match rng.below(6) {
        0 if cp <= 0xFFFF => return format!("\\u{:04X}", cp),
        1 => return format!("\\U{:08x}", cp),
        _ => {}
    }
    if in_iri {
        return c.to_string();
    }
    match c {
        '\t' if rng.chance(1, 2) => "\\t".into(),
        '\u{8}' => "\\b".into(),
        '\u{c}' if rng.chance(1, 2) => "\\f".into(),
        '\'' if rng.chance(1, 2) => "\\'".into(),
        '"' => "\\\"".into(),
        '\\' => "\\\\".into(),
        '\n' => "\\n".into(),
        '\r' => "\\r".into(),
        _ => c.to_string(),
    }
}

fn alt_ws(rng: &mut Rng, min: usize) -> String {
    let n = min + rng.usize(3);
    (0..n).map(|_| if rng.chance(1, 4) { '\t' } else { ' ' }).collect()
}

fn alt_term(rng: &mut Rng, t: &Term) -> String {
    let iri = |rng: &mut Rng, i: &str| format!("<{}>", i.chars().map(|c| alt_char(rng, c, true)).collect::<String>());
    let q = |rng: &mut Rng, v: &str| format!("\"{}\"", v.chars().map(|c| alt_char(rng, c, false)).collect::<String>());
    match t {
        Term::Iri(i) => iri(rng, i),
        Term::Bnode(b) => format!("_:{}", b),
        Term::Simple(v) => q(rng, v),
        Term::Lang(v, l) => {
            let l2: String = l.chars().map(|c| if rng.chance(1, 2) { c.to_ascii_uppercase() } else { c }).collect();
            format!("{}{}@{}", q(rng, v), alt_ws(rng, 0), l2)
        }
        Term::Typed(v, d) => format!("{}{}^^{}{}", q(rng, v), alt_ws(rng, 0), alt_ws(rng, 0), iri(rng, d)),
    }
}

fn alt_ntriples(rng: &mut Rng, ts: &[T3]) -> String {
    let mut out = String::new();
    for (k, t) in ts.iter().enumerate() {
        match rng.below(8) {
            0 => out.push_str("\n"),
            1 => out.push_str("  # a comment <x> \"y\" .\n"),
            2 => out.push_str(" \t\r\n"),
            _ => {}
        }
        out.push_str(&alt_ws(rng, 0));
        out.push_str(&alt_term(rng, &t.s));
        out.push_str(&alt_ws(rng, if matches!(t.s, Term::Bnode(_)) { 1 } else { 0 }));
        out.push_str(&alt_term(rng, &Term::Iri(t.p.clone())));
        out.push_str(&alt_ws(rng, 0));
        out.push_str(&alt_term(rng, &t.o));
        out.push_str(&alt_ws(rng, if matches!(t.o, Term::Bnode(_) | Term::Lang(..)) { 1 } else { 0 }));
        out.push('.');
        out.push_str(&alt_ws(rng, 0));
        if rng.chance(1, 5) {
            out.push_str("# trailing");
        }
        let last = k + 1 == ts.len();
        match rng.below(10) {
            0 if last => {}
            1 => out.push_str("\r\n"),
            _ => out.push('\n'),
        }
    }
    out
}

// ---------------------------------------------------------------- main

struct Case {
    ts: Vec<T3>,
    real: Vec<Triple>,
}

fn nontrivial(ts: &[T3], fmt: &str) -> bool {
    let needs = |v: &str| {
        if fmt == "xml" {
            v.chars().any(|c| matches!(c, '<' | '>' | '&' | '\'' | '"'))
        } else {
            v.chars().any(|c| matches!(c, '"' | '\\' | '\n' | '\r'))
        }
    };
    ts.iter().any(|t| match &t.o {
        Term::Simple(v) | Term::Lang(v, _) | Term::Typed(v, _) => needs(v),
        _ => false,
    })
}

fn main() {
    let args = Args::parse();
    let known = Known::load(&args.known, "C36");
    let mut rep = Report::new(
        "C36",
        "triple sets (0-6 triples; IRIs, blank nodes, plain/language-tagged/typed literals from a boundary alphabet) x {N-Triples, Turtle, RDF/XML}; \
         an evaluation = one (set, format); non-trivial = some literal of the set contains a character that the format under test must escape \
         (nt/ttl: quote, backslash, LF, CR; xml: < > & ' \"); distinct = distinct (format, rendered set)",
        &args.replays,
        args.seed,
    );
    let exe = args.driver_exe("drv_rdf");
    let mut rng = Rng::new(args.seed);

    // ---- lexical ties and pools -----------------------------------------------------------
    let mut lex_lines: Vec<String> = vec![];
    let mut lex_real: Vec<(String, String, bool)> = vec![]; // kind, text, accepted
    let iri_c = iri_candidates(&mut rng);
    for i in &iri_c {
        lex_lines.push(format!("lex iri {}", if i.is_empty() { "-".to_string() } else { hx(i) }));
        lex_real.push(("iri".into(), i.clone(), NamedNode::new(i).is_ok()));
    }
    let bn_c = bnode_candidates(&mut rng);
    for b in &bn_c {
        lex_lines.push(format!("lex bnode {}", if b.is_empty() { "-".to_string() } else { hx(b) }));
        lex_real.push(("bnode".into(), b.clone(), BlankNode::from_str(b).is_ok()));
    }
    let lang_c = lang_candidates();
    for l in &lang_c {
        lex_lines.push(format!("lex lang {}", if l.is_empty() { "-".to_string() } else { hx(l) }));
        lex_real.push(("lang".into(), l.clone(), Literal::new_language_tagged_literal("x", l.clone()).is_ok()));
    }
    let lex_rep = driver::batch(&exe, &lex_lines);
    let mut pools = Pools { iris: vec![], preds: vec![], bnodes_ok: vec![], bnodes_odd: vec![], langs: vec![], dts: vec![] };
    let mut lex_break: Option<String> = None;
    for ((kind, text, acc), m) in lex_real.iter().zip(lex_rep.iter()) {
        rep.count(&format!("lex:{}:{}", kind, if *acc { "accepted" } else { "rejected" }));
        let f: Vec<&str> = m.split(' ').collect();
        let bad = match kind.as_str() {
            "iri" | "lang" => *acc && f.get(1) != Some(&"true"), // accepted by the code => lexical condition of the model
            _ => f.get(1) != Some(&if *acc { "true" } else { "false" }), // exact
        };
        if bad && lex_break.is_none() {
            lex_break = Some(format!("lex {} {:?}\nimpl accepted={}\nmodel {}", kind, text, acc, m));
        }
        if *acc {
            match kind.as_str() {
                "iri" => {
                    pools.iris.push(text.clone());
                    pools.preds.push(text.clone());
                    pools.dts.push(text.clone());
                }
                "bnode" => {
                    if f.get(2) == Some(&"true") && f.get(3) == Some(&"true") {
                        pools.bnodes_ok.push(text.clone())
                    } else {
                        pools.bnodes_odd.push(text.clone())
                    }
                }
                _ => pools.langs.push(text.clone()),
            }
        }
    }
    for d in WELL_KNOWN_DTS {
        pools.dts.push(d.to_string());
    }
    if let Some(b) = &lex_break {
        rep.correspondence_break(
            "SgModel.Rdf.{iriOK,langOK,oxBnodeValid} vs NamedNode::new / Literal::new_language_tagged_literal / BlankNode::from_str",
            "a string accepted by the real constructor violates the model's lexical side condition (or blank-node validity differs)",
            b,
        );
    }

    // ---- cases ----------------------------------------------------------------------------
    let mut cases: Vec<Vec<T3>> = vec![];
    let mut files: Vec<std::path::PathBuf> = vec![];
    if let Some(r) = &args.replay {
        files.push(r.clone());
    } else if let Ok(rd) = std::fs::read_dir(args.corpus.join("C36")) {
        files = rd.filter_map(|e| e.ok().map(|e| e.path())).collect();
        files.sort();
    }
    let mut n_corpus = 0;
    for f in &files {
        for line in std::fs::read_to_string(f).unwrap_or_default().lines() {
            if let Some(c) = line.trim().strip_prefix("case ") {
                if let Some(ts) = parse_case(c.trim()) {
                    cases.push(ts);
                    n_corpus += 1;
                }
            }
        }
    }
    rep.count_n("corpus_cases", n_corpus);

    let mut alt_cases: Vec<(Vec<T3>, String)> = vec![];
    if args.replay.is_none() {
        // exhaustive: every boundary string alone and every ordered pair, as a plain literal
        let s = Term::Iri("http://e/s".into());
        for a in BOUNDARY {
            cases.push(vec![T3 { s: s.clone(), p: "http://e/p".into(), o: Term::Simple(a.to_string()) }]);
            for b in BOUNDARY {
                cases.push(vec![T3 { s: s.clone(), p: "http://e/p".into(), o: Term::Simple(format!("{}{}", a, b)) }]);
            }
        }
        // every (lexical form, well-known datatype) pair as a typed literal; every accepted IRI in each position
        // (subject, predicate, object, datatype); every accepted language tag; every blank-node label in both positions
        for d in WELL_KNOWN_DTS {
            for v in LEXICAL {
                cases.push(vec![T3 { s: s.clone(), p: "http://e/p".into(), o: Term::Typed(v.to_string(), d.to_string()) }]);
            }
        }
        for i in &pools.iris {
            cases.push(vec![T3 { s: Term::Iri(i.clone()), p: "http://e/p".into(), o: Term::Simple("x".into()) }]);
            cases.push(vec![T3 { s: s.clone(), p: i.clone(), o: Term::Simple("x".into()) }]);
            cases.push(vec![T3 { s: s.clone(), p: i.clone(), o: Term::Iri(i.clone()) }]);
            cases.push(vec![T3 { s: s.clone(), p: "http://e/p".into(), o: Term::Typed("x".into(), i.clone()) }]);
            // the same predicate twice and next to another one: grouping in Turtle (`,` `;`) and RDF/XML
            cases.push(vec![
                T3 { s: s.clone(), p: i.clone(), o: Term::Simple("1".into()) },
                T3 { s: s.clone(), p: i.clone(), o: Term::Iri("http://e/o".into()) },
                T3 { s: s.clone(), p: "http://e/p".into(), o: Term::Iri(i.clone()) },
                T3 { s: Term::Iri(i.clone()), p: i.clone(), o: Term::Simple("2".into()) },
            ]);
        }
        for l in &pools.langs {
            for v in ["", "x", "a\"b\n", " "] {
                cases.push(vec![T3 { s: s.clone(), p: "http://e/p".into(), o: Term::Lang(v.to_string(), l.clone()) }]);
            }
        }
        for b in pools.bnodes_ok.iter().chain(pools.bnodes_odd.iter()) {
            cases.push(vec![T3 { s: Term::Bnode(b.clone()), p: "http://e/p".into(), o: Term::Simple("x".into()) }]);
            cases.push(vec![T3 { s: s.clone(), p: "http://e/p".into(), o: Term::Bnode(b.clone()) }]);
        }
        // size thresholds: many triples per subject, many objects per (subject, predicate), many subjects
        for &n in &[17usize, 33, 65, 130, 300] {
            for shape in 0..4 {
                let mut ts = vec![];
                for k in 0..n {
                    let subj = match shape {
                        0 | 1 => s.clone(),
                        2 => Term::Iri(format!("http://e/s{}", k)),
                        _ => if k % 3 == 0 { Term::Bnode(format!("b{}", k % 7)) } else { Term::Iri(format!("http://e/s{}", k % 5)) },
                    };
                    let pred = match shape {
                        0 => "http://e/p".to_string(),
                        1 => format!("http://e/ns#p{}", k),
                        2 => "http://e/p".to_string(),
                        _ => format!("http://e/p{}", k % 4),
                    };
                    let o = match k % 5 {
                        0 => Term::Iri(format!("http://e/o{}", k)),
                        1 => Term::Lang(format!("v{}\"", k), "en-us".into()),
                        2 => Term::Typed(format!("{}", k), "http://www.w3.org/2001/XMLSchema#integer".into()),
                        3 => Term::Bnode(format!("b{}", k % 7)),
                        _ => Term::Simple(format!("v{}\n{}", k, rng.pick(BOUNDARY))),
                    };
                    ts.push(T3 { s: subj, p: pred, o });
                }
                cases.push(ts);
            }
        }
        // length thresholds: long literals with escape-needing and multi-byte characters on buffer borders
        let long_lens: &[usize] = if args.thorough() { &[255, 256, 257, 1023, 1025, 4095, 4096, 4097, 8191, 8192, 8193, 16385, 20000] } else { &[255, 257, 4096, 8191, 8193] };
        for &n in long_lens {
            let v = long_value(&mut rng, n);
            cases.push(vec![T3 { s: s.clone(), p: "http://e/p".into(), o: Term::Simple(v.clone()) }]);
            cases.push(vec![
                T3 { s: s.clone(), p: "http://e/p".into(), o: Term::Lang(v.clone(), "en".into()) },
                T3 { s: s.clone(), p: "http://e/p".into(), o: Term::Typed(v, "http://e/dt".into()) },
            ]);
        }
        rep.exhaustive = true;
        rep.exhaustive_note = format!(
            "all plain literals made of one or two of the {} boundary strings (single triple); every (lexical form, well-known datatype) pair; every accepted IRI candidate (incl. rdf:/xml: vocabulary and IRIs ending in # or /) as subject, predicate, object and datatype; every accepted language tag and blank-node label; triple sets of 17-300 triples in four sharing shapes; literals of 255-20000 characters - all in all three formats; plus PRNG triple sets (not exhaustive)",
            BOUNDARY.len()
        );
        let n_rand = if args.thorough() { 40_000 } else { 4_000 };
        for k in 0..n_rand {
            let odd_bnodes = k % 8 == 0; // labels outside bnodeOK / NCName only in a fraction of the cases
            let n = rng.usize(7);
            let subj_pool: Vec<Term> = (0..1 + rng.usize(3))
                .map(|_| {
                    if rng.chance(1, 3) {
                        Term::Bnode(if odd_bnodes && rng.chance(1, 2) { rng.pick(&pools.bnodes_odd).clone() } else { rng.pick(&pools.bnodes_ok).clone() })
                    } else {
                        Term::Iri(rng.pick(&pools.iris).clone())
                    }
                })
                .collect();
            // predicates RDF/XML cannot carry (known findings) only in a fraction of the cases, so that they do not mask the rest
            let special_preds = k % 8 == 1;
            let is_special = |p: &str| {
                p == "http://www.w3.org/2000/xmlns/"
                    || p.strip_prefix("http://www.w3.org/1999/02/22-rdf-syntax-ns#").map_or(false, |l| {
                        ["li", "about", "aboutEach", "aboutEachPrefix", "bagID", "datatype", "ID", "nodeID", "parseType", "RDF", "resource", "Description"].contains(&l)
                    })
            };
            let pred_pool: Vec<String> = (0..1 + rng.usize(2))
                .map(|_| loop {
                    let p = rng.pick(&pools.preds).clone();
                    if special_preds || !is_special(&p) {
                        break p;
                    }
                })
                .collect();
            let mut ts = vec![];
            for _ in 0..n {
                let o = match rng.below(10) {
                    0 => Term::Iri(rng.pick(&pools.iris).clone()),
                    1 => match rng.pick(&subj_pool) {
                        Term::Bnode(b) => Term::Bnode(b.clone()),
                        _ => Term::Bnode(rng.pick(&pools.bnodes_ok).clone()),
                    },
                    2 | 3 => Term::Lang(gen_value(&mut rng), rng.pick(&pools.langs).clone()),
                    4 | 5 => Term::Typed(gen_typed_value(&mut rng), if rng.chance(1, 2) { rng.pick(WELL_KNOWN_DTS).to_string() } else { rng.pick(&pools.dts).clone() }),
                    _ => Term::Simple(gen_value(&mut rng)),
                };
                ts.push(T3 { s: rng.pick(&subj_pool).clone(), p: rng.pick(&pred_pool).clone(), o });
            }
            if rng.chance(1, 10) && !ts.is_empty() {
                let d = rng.pick(&ts).clone();
                ts.push(d);
            }
            cases.push(ts);
        }
        // alternative spellings for the parser tie (blank-node labels inside bnodeOK only)
        let n_alt = if args.thorough() { 8_000 } else { 1_500 };
        for _ in 0..n_alt {
            let base = &cases[rng.usize(cases.len())];
            if base.is_empty() || base.iter().any(|t| matches!(&t.s, Term::Bnode(b) if pools.bnodes_odd.contains(b)) || matches!(&t.o, Term::Bnode(b) if pools.bnodes_odd.contains(b))) {
                continue;
            }
            let txt = alt_ntriples(&mut rng, base);
            alt_cases.push((base.clone(), txt));
        }
    }

    let mut built: Vec<Case> = vec![];
    for ts in cases {
        let real: Option<Vec<Triple>> = ts.iter().map(to_real).collect();
        match real {
            Some(real) => built.push(Case { ts, real }),
            None => rep.count("case_rejected_by_constructors"),
        }
    }

    // ---- evaluate ---------------------------------------------------------------------------
    let mut lines: Vec<String> = Vec::with_capacity(built.len() * 6);
    let mut reals: Vec<(Option<String>, String)> = Vec::with_capacity(built.len() * 3);
    for c in &built {
        let cs = show_case(&c.ts);
        for (fname, f) in FMTS {
            let r = run_real(&c.real, f);
            lines.push(format!("pred {} {}", fname, cs));
            lines.push(format!("spec {} {} {}", fname, cs, r.1));
            reals.push(r);
        }
    }
    let replies = driver::par_batch(&exe, &lines, 12);
    let mut first_break: Option<(String, String)> = None;
    let mut viol: Vec<(usize, usize, String)> = vec![]; // case, fmt, class
    for (ci, c) in built.iter().enumerate() {
        let cs = show_case(&c.ts);
        for (fi, (fname, _)) in FMTS.iter().enumerate() {
            let k = ci * 3 + fi;
            let (bytes, outcome) = &reals[k];
            let m = &replies[2 * k];
            let s = &replies[2 * k + 1];
            let nt = nontrivial(&c.ts, fname);
            rep.case(&format!("{} {}", fname, cs), nt);
            rep.count(&format!("outcome:{}:{}", fname, outcome.split(':').next().unwrap_or("?")));
            if nt && rep.samples.len() < 4 && c.ts.len() > 1 {
                rep.sample(json!({"format": fname, "case": cs, "impl_bytes": bytes, "impl_outcome": outcome}));
            }
            if outcome == "panic" {
                rep.spec_violation(&known, &format!("{}:panic", fname), "serializer or parser panicked", &format!("case {}\nformat {}", cs, fname));
                continue;
            }
            if s != "ok" {
                let cls = s.strip_prefix("viol ").unwrap_or("driver-rejected").to_string();
                viol.push((ci, fi, cls));
            }
            // model fidelity: bytes (when produced) and outcome
            let mf: Vec<&str> = m.split(' ').collect();
            let m_bytes = mf.get(1).map(|h| if *h == "-" { String::new() } else { unhx(h).unwrap_or_default() });
            let m_out = mf.get(2).copied().unwrap_or("?");
            let bytes_ok = match bytes {
                Some(b) => m_bytes.as_deref() == Some(b.as_str()),
                None => true,
            };
            let out_ok = if *fname == "xml" { sorted_outcome(outcome) == sorted_outcome(m_out) } else { outcome == m_out };
            if !(bytes_ok && out_ok) {
                rep.count(&format!("model_mismatch:{}:{}", fname, if bytes_ok { "outcome" } else { "bytes" }));
                if first_break.is_none() {
                    first_break = Some((
                        format!("SgModel.Rdf.predict/render ({}) = RdfSerializer::serialize + RdfParser::parse", fname),
                        format!("case {}\nformat {}\nimpl bytes {:?}\nmodel bytes {:?}\nimpl outcome  {}\nmodel outcome {}\nspec {}", cs, fname, bytes, m_bytes, outcome, m_out, s),
                    ));
                }
            }
        }
    }

    // ---- S ⊭ R: minimise, classify, and check what is left once the known triggers are removed
    if !viol.is_empty() {
        let mut drv = Driver::spawn(&exe);
        let mut still_fails = |ts: &[T3], f: usize| -> Option<String> {
            let real: Vec<Triple> = ts.iter().map(to_real).collect::<Option<Vec<_>>>()?;
            let (_, out) = run_real(&real, FMTS[f].1);
            let s = drv.ask(&format!("spec {} {} {}", FMTS[f].0, show_case(ts), out));
            s.strip_prefix("viol ").map(|c| c.to_string())
        };
        let mut seen: std::collections::HashSet<String> = Default::default();
        for (ci, fi, cls0) in viol {
            let fname = FMTS[fi].0;
            let mut cur = built[ci].ts.clone();
            let mut cls = cls0;
            // greedy one-minimal reduction
            let mut i = 0;
            while i < cur.len() && cur.len() > 1 {
                let mut t = cur.clone();
                t.remove(i);
                if let Some(c) = still_fails(&t, fi) {
                    cur = t;
                    cls = c;
                } else {
                    i += 1;
                }
            }
            let sig = format!("{}:{}", fname, cls);
            rep.count(&format!("spec_violation:{}", sig));
            // human-readable log of every minimised violation (development aid; the replays are the evidence)
            if let Ok(mut f) = std::fs::OpenOptions::new().create(true).append(true).open(args.work.join("c36-violations.txt")) {
                use std::io::Write;
                let _ = writeln!(f, "{}\t{:?}", sig, cur);
            }
            let body = format!("case {}\nformat {}\nminimised from: {}\nclass {}", show_case(&cur), fname, show_case(&built[ci].ts), cls);
            if seen.insert(format!("{}|{}", sig, show_case(&cur))) {
                rep.spec_violation(&known, &sig, &format!("{}: `{}` does not round-trip ({})", fname, show_case(&cur), cls), &body);
            }
            // residual: drop every triple that can trigger a known class; the rest must satisfy S
            if known.is_known(&sig).is_some() {
                let ws_only = |v: &str| !v.is_empty() && v.chars().all(|c| matches!(c, ' ' | '\t' | '\n' | '\r'));
                let odd = |t: &Term| matches!(t, Term::Bnode(b) if pools.bnodes_odd.contains(b) || !pools.bnodes_ok.contains(b));
                const RDF_NS: &str = "http://www.w3.org/1999/02/22-rdf-syntax-ns#";
                let special_pred = |p: &str| {
                    p == "http://www.w3.org/2000/xmlns/"
                        || p.strip_prefix(RDF_NS).map_or(false, |l| {
                            ["li", "about", "aboutEach", "aboutEachPrefix", "bagID", "datatype", "ID", "nodeID", "parseType", "RDF", "resource", "Description"].contains(&l)
                        })
                };
                let rest: Vec<T3> = built[ci]
                    .ts
                    .iter()
                    .filter(|t| {
                        !(odd(&t.s)
                            || odd(&t.o)
                            || (fname == "xml" && special_pred(&t.p))
                            || (fname == "xml" && matches!(&t.o, Term::Simple(v) | Term::Lang(v, _) | Term::Typed(v, _) if ws_only(v))))
                    })
                    .cloned()
                    .collect();
                if let Some(c) = still_fails(&rest, fi) {
                    let sig2 = format!("{}:{}", fname, c);
                    rep.spec_violation(&known, &sig2, &format!("{}: residual of a known-finding case still fails ({})", fname, c), &format!("case {}\nformat {}", show_case(&rest), fname));
                }
            }
        }
    }

    // ---- the model's N-Triples parser against the real one on alternative spellings --------
    if !alt_cases.is_empty() {
        let alt_lines: Vec<String> = alt_cases.iter().map(|(_, txt)| format!("parse nt {}", if txt.is_empty() { "-".to_string() } else { hx(txt) })).collect();
        let alt_rep = driver::par_batch(&exe, &alt_lines, 12);
        for ((base, txt), m) in alt_cases.iter().zip(alt_rep.iter()) {
            let real = match RdfParser::parse(txt, RdfFormat::NTriples) {
                Err(_) => "perr".to_string(),
                Ok(back) => format!("back:{}", show_case(&back.iter().map(from_real).collect::<Vec<_>>())),
            };
            rep.count(&format!("alt_nt:{}", real.split(':').next().unwrap_or("?")));
            rep.evaluations += 1;
            let want = format!("ok {}", real);
            if *m != want {
                rep.count("model_mismatch:alt_nt");
                if first_break.is_none() {
                    first_break = Some((
                        "SgModel.Rdf.parseDoc = RdfParser::parse(NTriples) on alternative spellings".into(),
                        format!("text {:?}\nbase case {}\nimpl  {}\nmodel {}", txt, show_case(base), real, m),
                    ));
                }
            }
        }
    }

    if let Some((name, body)) = first_break {
        if rep.spec_violations.is_empty() {
            rep.correspondence_break(&name, "model and implementation differ (bytes or outcome) although no unknown specification violation was found", &body);
        }
    }
    rep.write(&args.out);
}
