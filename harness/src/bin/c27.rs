//! C27 — iterative graph algorithms (PageRank, CDLP) vs their specified iteration.
//!
//! Real code: `samyama_graph_algorithms::{page_rank, cdlp}` on `GraphView`s built here, run in
//! two child processes of this binary with rayon thread pools of 1 and 8 threads
//! (`RAYON_NUM_THREADS`), on graphs on both sides of the parallel threshold n = 1000.
//! Lean side (`drv_iter`): CDLP labels and iteration count must be *equal* to the model's;
//! PageRank scores (hex bit patterns, converted to exact rationals by the driver) must be
//! within 1e-9 of the same iteration evaluated in exact rationals and satisfy the
//! specification (non-negative, sum 1 with dangling redistribution, <= 1 without).
//! Float round-off and rayon's summation order are the runtime part the model cannot exhibit.
use samyama_graph_algorithms::{cdlp, page_rank, CdlpConfig, GraphView, PageRankConfig};
use serde_json::json;
use std::collections::HashMap;
use vharness::{driver, Args, Known, Report, Rng};

#[derive(Clone, Debug)]
struct Case {
    n: usize,
    edges: Vec<(usize, usize)>,
    ids: Vec<u64>,
    max_iter: usize,
    /// (damping bits, iterations, tolerance bits, dangling)
    pr: Vec<(u64, usize, u64, bool)>,
    origin: String,
}

impl Case {
    fn gtext(&self) -> String {
        if self.edges.is_empty() {
            format!("{}:-", self.n)
        } else {
            format!("{}:{}", self.n, self.edges.iter().map(|(u, v)| format!("{}.{}.1", u, v)).collect::<Vec<_>>().join(","))
        }
    }
    fn ids_text(&self) -> String {
        if self.ids.is_empty() { "-".into() } else { self.ids.iter().map(|x| x.to_string()).collect::<Vec<_>>().join(",") }
    }
    fn text(&self) -> String {
        let pr: Vec<String> = self.pr.iter().map(|(d, i, t, g)| format!("{:016x}.{}.{:016x}.{}", d, i, t, *g as u8)).collect();
        format!("case {} {} {} {}", self.gtext(), self.ids_text(), self.max_iter, if pr.is_empty() { "-".into() } else { pr.join(",") })
    }
    fn parse(line: &str) -> Option<Case> {
        let tok: Vec<&str> = line.split_whitespace().collect();
        if tok.len() != 5 || tok[0] != "case" {
            return None;
        }
        let (n, es) = tok[1].split_once(':')?;
        let n: usize = n.parse().ok()?;
        let mut edges = vec![];
        if es != "-" {
            for e in es.split(',') {
                let f: Vec<&str> = e.split('.').collect();
                let (u, v): (usize, usize) = (f.first()?.parse().ok()?, f.get(1)?.parse().ok()?);
                if u >= n || v >= n {
                    return None;
                }
                edges.push((u, v));
            }
        }
        let ids: Vec<u64> = if tok[2] == "-" { vec![] } else { tok[2].split(',').map(|x| x.parse().ok()).collect::<Option<_>>()? };
        if ids.len() != n {
            return None;
        }
        let mut pr = vec![];
        if tok[4] != "-" {
            for p in tok[4].split(',') {
                let f: Vec<&str> = p.split('.').collect();
                if f.len() != 4 {
                    return None;
                }
                pr.push((u64::from_str_radix(f[0], 16).ok()?, f[1].parse().ok()?, u64::from_str_radix(f[2], 16).ok()?, f[3] == "1"));
            }
        }
        Some(Case { n, edges, ids, max_iter: tok[3].parse().ok()?, pr, origin: "file".into() })
    }
    fn view(&self) -> GraphView {
        let n = self.n;
        let node_to_index: HashMap<u64, usize> = self.ids.iter().enumerate().map(|(i, x)| (*x, i)).collect();
        let mut out = vec![vec![]; n];
        let mut inc = vec![vec![]; n];
        for (u, v) in &self.edges {
            out[*u].push(*v);
        }
        for u in 0..n {
            for v in &out[u] {
                inc[*v].push(u);
            }
        }
        GraphView::from_adjacency_list(n, self.ids.clone(), node_to_index, out, inc, None)
    }
    /// Appendix B: n >= 3 and a cycle, a parallel edge, a mutual pair or a dangling node
    fn nontrivial(&self) -> bool {
        if self.n < 3 {
            return false;
        }
        let mut outdeg = vec![0; self.n];
        let mut seen = std::collections::HashSet::new();
        let mut dup = false;
        for (u, v) in &self.edges {
            outdeg[*u] += 1;
            if !seen.insert((*u.min(v), *u.max(v))) {
                dup = true;
            }
        }
        dup || (outdeg.iter().any(|d| *d == 0) && !self.edges.is_empty()) || self.edges.len() >= self.n
    }
}

/// child process: the real code under this process' rayon pool; one output line per case:
/// `<labels> <iterations> <scores of config 0>;<scores of config 1>;…`
fn child(cases_file: &str, out_file: &str) {
    let txt = std::fs::read_to_string(cases_file).expect("cases");
    let mut out = String::new();
    for line in txt.lines() {
        let Some(c) = Case::parse(line) else {
            out.push_str("unparsable\n");
            continue;
        };
        let r = std::panic::catch_unwind(|| {
            let v = c.view();
            let r = cdlp(&v, &CdlpConfig { max_iterations: c.max_iter });
            let labels: Vec<String> = c.ids.iter().map(|id| r.labels.get(id).map_or("?".into(), |l| l.to_string())).collect();
            let mut prs = vec![];
            for (d, it, tol, dg) in &c.pr {
                let cfg = PageRankConfig { damping_factor: f64::from_bits(*d), iterations: *it, tolerance: f64::from_bits(*tol), dangling_redistribution: *dg };
                let s = page_rank(&v, cfg);
                let sc: Vec<String> = c.ids.iter().map(|id| format!("{:016x}", s.get(id).copied().unwrap_or(f64::NAN).to_bits())).collect();
                prs.push(if sc.is_empty() { "-".to_string() } else { sc.join(",") });
            }
            format!(
                "{} {} {}",
                if labels.is_empty() { "-".into() } else { labels.join(",") },
                r.iterations,
                if prs.is_empty() { "-".into() } else { prs.join(";") }
            )
        });
        match r {
            Ok(l) => out.push_str(&l),
            Err(_) => out.push_str("panic"),
        }
        out.push('\n');
    }
    std::fs::write(out_file, out).expect("child output");
}

fn run_child(threads: usize, cases_file: &std::path::Path, out_file: &std::path::Path) -> Vec<String> {
    let exe = std::env::current_exe().expect("current exe");
    let st = std::process::Command::new(exe)
        .env("RAYON_NUM_THREADS", threads.to_string())
        .arg("--child")
        .arg(cases_file)
        .arg(out_file)
        .status()
        .expect("spawn child");
    assert!(st.success(), "child with {} threads failed: {:?}", threads, st);
    std::fs::read_to_string(out_file).expect("child out").lines().map(|s| s.to_string()).collect()
}

fn f(x: f64) -> u64 {
    x.to_bits()
}

fn random_case(rng: &mut Rng, n: usize, origin: &str, big: bool) -> Case {
    let style = rng.usize(4);
    let m = match style {
        0 => rng.usize(n + 1),
        1 => n + rng.usize(n + 1),
        2 => rng.usize(3 * n + 1),
        _ => 2 * n,
    };
    let mut edges = vec![];
    for _ in 0..m {
        let (u, v) = (rng.usize(n), rng.usize(n));
        edges.push((u, v));
        if rng.chance(1, 5) {
            edges.push((v, u)); // mutual pair: counts twice in CDLP
        }
        if rng.chance(1, 10) {
            edges.push((u, v)); // parallel edge
        }
    }
    // distinct ids, not monotone in the index (ties go to the smallest *label*)
    let mut ids: Vec<u64> = (0..n as u64).map(|i| 3 * i + 1).collect();
    for i in (1..n).rev() {
        let j = rng.usize(i + 1);
        ids.swap(i, j);
    }
    let max_iter = *rng.pick(&[0usize, 1, 2, 5, 100]);
    let mut pr = vec![];
    let k = if big { 2 } else { 3 };
    for _ in 0..k {
        let d = *rng.pick(&[0.85f64, 0.5, 0.75, 0.0, 1.0, 0.85]);
        let it = if big { *rng.pick(&[1usize, 3]) } else { *rng.pick(&[0usize, 1, 5, 20, 20]) };
        let tol = if big { 0.0 } else { *rng.pick(&[0.0f64, 0.0, 1e-4, 1e-2]) };
        pr.push((f(d), it, f(tol), rng.chance(1, 2)));
    }
    Case { n, edges, ids, max_iter, pr, origin: origin.into() }
}


/// Structured families (shapes a uniform random graph rarely produces): hubs, chains, cycles
/// (the uniform vector is a fixed point: early exit in round 1), complete bipartite graphs
/// (synchronous CDLP oscillates with period 2), cliques joined by bridges, all-dangling graphs,
/// spider traps, heavy multi-edges (CDLP and the out-degree count multiplicities).  CDLP budgets
/// sweep 0..=8 (stopping exactly at / one before / one after the converging round), PageRank
/// tolerances and iteration counts sweep wider than the random cases.
fn structured_case(rng: &mut Rng, kind: usize, n: usize, big: bool) -> Case {
    let n = n.max(2);
    let mut edges: Vec<(usize, usize)> = vec![];
    let origin = match kind % 11 {
        0 => {
            for i in 1..n {
                edges.push((0, i));
            }
            "structured:star-out"
        }
        1 => {
            for i in 1..n {
                edges.push((i, 0));
            }
            "structured:star-in"
        }
        2 => {
            for i in 1..n {
                edges.push((0, i));
                edges.push((i, 0));
            }
            "structured:star-mutual"
        }
        3 => {
            for i in 0..n {
                edges.push((i, (i + 1) % n));
            }
            if rng.chance(1, 3) {
                edges.push((rng.usize(n), rng.usize(n))); // one chord breaks the symmetry
            }
            "structured:cycle"
        }
        4 => {
            for i in 0..n - 1 {
                edges.push((i, i + 1));
                if rng.chance(1, 4) {
                    edges.push((i + 1, i));
                }
            }
            "structured:path"
        }
        5 => {
            let a = 1 + rng.usize(n - 1);
            let both = rng.chance(1, 2);
            for i in 0..a {
                for j in a..n {
                    if big && !rng.chance(1, 200) {
                        continue;
                    }
                    edges.push((i, j));
                    if both {
                        edges.push((j, i));
                    }
                }
            }
            "structured:bipartite"
        }
        6 => {
            let a = n / 2;
            for (lo, hi) in [(0, a), (a, n)] {
                for i in lo..hi {
                    for j in lo..hi {
                        if i != j && (!big || rng.chance(1, 100)) {
                            edges.push((i, j));
                        }
                    }
                }
            }
            edges.push((0, n - 1));
            if rng.chance(1, 2) {
                edges.push((n - 1, 0));
            }
            "structured:two-cliques"
        }
        7 => {
            let k = 3;
            let blobs = (n / k).max(1);
            for b in 0..blobs {
                for i in 0..k {
                    for j in 0..k {
                        if i != j && b * k + i < n && b * k + j < n {
                            edges.push((b * k + i, b * k + j));
                        }
                    }
                }
                let nb = ((b + 1) % blobs) * k;
                if nb < n && blobs > 1 {
                    edges.push((b * k, nb));
                }
            }
            "structured:ring-of-cliques"
        }
        8 => {
            if rng.chance(1, 2) {
                edges.push((rng.usize(n), rng.usize(n)));
            }
            "structured:all-dangling"
        }
        9 => {
            for i in 0..n - 2 {
                edges.push((i, i + 1));
            }
            edges.push((n - 2, n - 1));
            edges.push((n - 1, n - 2));
            edges.push((n - 1, n - 1));
            "structured:spider-trap"
        }
        _ => {
            let pairs = 1 + rng.usize(n.min(6));
            for _ in 0..pairs {
                let (u, v) = (rng.usize(n), rng.usize(n));
                for _ in 0..1 + rng.usize(4) {
                    edges.push((u, v));
                }
                if rng.chance(1, 2) {
                    edges.push((v, u));
                }
            }
            "structured:multi-edges"
        }
    };
    let mut ids: Vec<u64> = (0..n as u64).map(|i| 3 * i + 1).collect();
    match rng.usize(3) {
        0 => {}
        1 => ids.reverse(),
        _ => {
            for i in (1..n).rev() {
                let j = rng.usize(i + 1);
                ids.swap(i, j);
            }
        }
    }
    let max_iter = if big { *rng.pick(&[2usize, 3, 100]) } else if rng.chance(1, 5) { 100 } else { rng.usize(9) };
    let mut pr = vec![];
    for _ in 0..if big { 2 } else { 3 } {
        let d = *rng.pick(&[0.85f64, 0.5, 0.99, 0.0, 1.0, 0.85]);
        let it = if big { *rng.pick(&[1usize, 2, 4]) } else { *rng.pick(&[0usize, 1, 2, 3, 10, 50]) };
        let tol = *rng.pick(&[0.0f64, 1e-1, 1e-2, 1e-3, 1e-6, 1e-10]);
        pr.push((f(d), it, f(tol), rng.chance(1, 2)));
    }
    Case { n, edges, ids, max_iter, pr, origin: origin.into() }
}

fn exhaustive(n: usize, cases: &mut Vec<Case>) {
    // every directed simple graph with self-loops on n nodes (2^(n*n) edge sets), two id orders
    let pairs: Vec<(usize, usize)> = (0..n).flat_map(|u| (0..n).map(move |v| (u, v))).collect();
    for mask in 0u32..(1u32 << pairs.len()) {
        let edges: Vec<(usize, usize)> = pairs.iter().enumerate().filter(|(i, _)| mask >> i & 1 == 1).map(|(_, p)| *p).collect();
        let ids: Vec<u64> = if mask % 2 == 0 { (0..n as u64).map(|i| 10 + i).collect() } else { (0..n as u64).map(|i| 20 - 3 * i).collect() };
        let dg = mask % 3 != 0;
        cases.push(Case {
            n,
            edges,
            ids,
            max_iter: [100, 1, 2][(mask % 3) as usize],
            pr: vec![(f(0.85), 20, f(0.0), dg), (f(0.5), 3, f(1e-3), !dg)],
            origin: "exhaustive".into(),
        });
    }
}

fn main() {
    let args = Args::parse();
    if args.extra.first().map(|s| s.as_str()) == Some("--child") {
        child(&args.extra[1], &args.extra[2]);
        return;
    }
    let known = Known::load(&args.known, "C27");
    let mut rep = Report::new(
        "C27",
        "cases = (directed multigraph, node ids, CDLP max_iterations, PageRank configs (damping, iterations, tolerance, dangling)) \
         run under rayon pools of 1 and 8 threads; non-trivial = n >= 3 and a parallel/mutual edge, a dangling node or at least n edges; \
         distinct = distinct case text",
        &args.replays,
        args.seed,
    );
    let exe = args.driver_exe("drv_iter");
    let work = tempfile::Builder::new().prefix("c27").tempdir_in(&args.work).expect("work dir");

    let mut cases: Vec<Case> = vec![];
    let mut files: Vec<std::path::PathBuf> = vec![];
    if let Some(r) = &args.replay {
        files.push(r.clone());
    } else if let Ok(rd) = std::fs::read_dir(args.corpus.join("C27")) {
        files = rd.filter_map(|e| e.ok().map(|e| e.path())).collect();
        files.sort();
    }
    for fl in &files {
        for line in std::fs::read_to_string(fl).unwrap_or_default().lines() {
            if let Some(mut c) = Case::parse(line) {
                c.origin = "corpus".into();
                cases.push(c);
            }
        }
    }
    rep.count_n("corpus_cases", cases.len() as u64);
    if args.replay.is_none() {
        for n in 1..=2 {
            exhaustive(n, &mut cases);
        }
        if args.thorough() {
            exhaustive(3, &mut cases);
        }
        rep.exhaustive = true;
        rep.exhaustive_note = format!(
            "all directed graphs with self-loops on <= {} nodes (two id orders, CDLP max_iterations in {{1,2,100}}, two PageRank configs each); plus PRNG multigraphs up to 60 nodes, structured families (stars, cycles, paths, complete bipartite, cliques with bridges, all-dangling, spider traps, multi-edges; CDLP budgets 0..8) and both on both sides of n = 1000 (not exhaustive)",
            if args.thorough() { 3 } else { 2 }
        );
        let mut rng = Rng::new(args.seed);
        // a deterministic slice of the 3-node graphs in quick
        if !args.thorough() {
            let mut all = vec![];
            exhaustive(3, &mut all);
            let off = (args.seed % 4) as usize;
            cases.extend(all.into_iter().enumerate().filter(|(i, _)| i % 4 == off).map(|(_, c)| c));
        }
        let n_rand = if args.thorough() { 12000 } else { 400 };
        for i in 0..n_rand {
            let n = if i % 20 == 0 { 30 + rng.usize(31) } else { 1 + rng.usize(14) };
            cases.push(random_case(&mut rng, n, "random", false));
        }
        // structured families, quick tier too
        let per_kind = if args.thorough() { 300 } else { 30 };
        for i in 0..per_kind * 11 {
            let n = 2 + rng.usize(if i % 7 == 0 { 24 } else { 10 });
            cases.push(structured_case(&mut rng, i, n, false));
        }
        let bigs: Vec<usize> = if args.thorough() { vec![999, 1000, 1001, 1000, 1500] } else { vec![999, 1000, 1001] };
        let n_heavy_random = bigs.len();
        for n in bigs {
            let mut c = random_case(&mut rng, n, "threshold", true);
            c.max_iter = *rng.pick(&[3usize, 5, 100]);
            cases.push(c);
        }
        // structured shapes on the rayon side of the threshold, with early exit (tolerance > 0)
        let big_kinds: Vec<(usize, usize)> = if args.thorough() {
            vec![(1, 1000), (3, 1000), (4, 1001), (8, 1000), (5, 1200), (6, 1000), (0, 1000), (9, 1003)]
        } else {
            vec![(1, 1000), (3, 1000), (4, 1001), (8, 1000)]
        };
        let n_heavy = n_heavy_random + big_kinds.len();
        for (k, n) in big_kinds {
            let mut c = structured_case(&mut rng, k, n, true);
            c.origin = format!("threshold-{}", c.origin);
            cases.push(c);
        }
        // interleave: par_batch hands out contiguous chunks, so spread the heavy cases
        let nb = n_heavy;
        let heavy: Vec<Case> = cases.split_off(cases.len() - nb);
        let step = cases.len() / nb;
        for (i, h) in heavy.into_iter().enumerate() {
            cases.insert(i * step + i, h);
        }
    }

    // implementation under both pools
    let cf = work.path().join("cases.txt");
    std::fs::write(&cf, cases.iter().map(|c| c.text() + "\n").collect::<String>()).expect("cases file");
    let r1 = run_child(1, &cf, &work.path().join("out1.txt"));
    let r8 = run_child(8, &cf, &work.path().join("out8.txt"));

    // model + specification: one `cdlpspec` per distinct CDLP result, one `pr` per config with
    // the score vectors of both pools (the exact iteration is evaluated once)
    let mut lines = vec![];
    let mut plan: Vec<(usize, Vec<Vec<&str>>)> = vec![]; // per case: number of cdlp lines, tokens per pool
    for (c, o) in cases.iter().zip(r1.iter().zip(r8.iter())) {
        let toks: Vec<Vec<&str>> = [o.0, o.1].iter().map(|out| out.split(' ').collect::<Vec<&str>>()).filter(|t| t.len() == 3).collect();
        let mut n_cdlp = 0;
        let mut seen: Vec<(&str, &str)> = vec![];
        for t in &toks {
            if !seen.contains(&(t[0], t[1])) {
                seen.push((t[0], t[1]));
                lines.push(format!("cdlpspec {} {} {} {} {}", c.gtext(), c.ids_text(), c.max_iter, t[0], t[1]));
                n_cdlp += 1;
            }
        }
        if !toks.is_empty() {
            for (k, (d, it, tol, dg)) in c.pr.iter().enumerate() {
                let mut vs: Vec<&str> = vec![];
                for t in &toks {
                    let prs: Vec<&str> = if t[2] == "-" { vec![] } else { t[2].split(';').collect() };
                    let v = prs.get(k).copied().unwrap_or("-");
                    if !vs.contains(&v) {
                        vs.push(v);
                    }
                }
                lines.push(format!("pr {} {:016x} {} {:016x} {} {}", c.gtext(), d, it, tol, *dg as u8, vs.join("|")));
            }
        }
        plan.push((n_cdlp, toks));
    }
    let replies = driver::par_batch(&exe, &lines, 12);
    let mut k = 0;
    let mut first_break: Option<String> = None;
    let mut max_err: u64 = 0;
    for ((c, o), (n_cdlp, toks)) in cases.iter().zip(r1.iter().zip(r8.iter())).zip(plan.iter()) {
        let ct = c.text();
        rep.case(&ct, c.nontrivial());
        rep.count(&format!("origin:{}", c.origin));
        if c.n >= 1000 {
            rep.count("parallel_path_n_ge_1000");
        }
        let body = format!("{}\npool1 {}\npool8 {}", ct, o.0, o.1);
        if toks.len() < 2 {
            rep.spec_violation(&known, "panic", &format!("implementation failed (`{}` / `{}`) on `{}`", o.0, o.1, c.gtext()), &body);
        }
        // thread-count independence: CDLP exactly; PageRank bit-equal below the threshold
        if toks.len() == 2 {
            let (t1, t8) = (&toks[0], &toks[1]);
            if t1[0] != t8[0] || t1[1] != t8[1] {
                rep.spec_violation(&known, "cdlp-thread-count", &format!("CDLP differs between 1 and 8 threads on `{}`", c.gtext()), &body);
            }
            if c.n < 1000 && t1[2] != t8[2] {
                rep.spec_violation(&known, "pagerank-thread-count", &format!("sequential-path PageRank differs bitwise between pools on `{}`", c.gtext()), &body);
            }
            if c.n >= 1000 && t1[2] != t8[2] {
                rep.count("pagerank_bits_differ_between_pools_n_ge_1000");
            }
        }
        for _ in 0..*n_cdlp {
            let sp = &replies[k];
            k += 1;
            rep.count("cdlp_results_checked");
            let body2 = format!("{}\ncdlp spec {}", body, sp);
            if sp.starts_with("viol") {
                rep.count(&format!("spec_violation:cdlp:{}", sp));
                rep.spec_violation(&known, &format!("cdlp-{}", sp.trim_start_matches("viol ")), &format!("CDLP result is not the synchronous LDBC labelling ({}) on `{}`", sp, c.gtext()), &body2);
            } else if sp != "ok" && first_break.is_none() {
                first_break = Some(body2.clone());
            }
        }
        if !toks.is_empty() {
            for (j, cfg) in c.pr.iter().enumerate() {
                let r = &replies[k];
                k += 1;
                rep.count(&format!("pagerank:{}", if cfg.3 { "dangling" } else { "plain" }));
                let body3 = format!("{}\nconfig {} -> {}", body, j, r);
                if r == "borderline" {
                    rep.count("pagerank_borderline_tolerance_skipped");
                } else if let Some(e) = r.strip_prefix("ok ") {
                    max_err = max_err.max(e.parse().unwrap_or(0));
                } else if r.starts_with("viol") {
                    let what = r.trim_start_matches("viol ");
                    rep.count(&format!("spec_violation:pagerank:{}", what));
                    rep.spec_violation(
                        &known,
                        &format!("pagerank-{}", what),
                        &format!("PageRank ({}) deviates from the exact iteration / specification on `{}` config {:?}", what, c.gtext(), (f64::from_bits(cfg.0), cfg.1, f64::from_bits(cfg.2), cfg.3)),
                        &body3,
                    );
                } else if first_break.is_none() {
                    first_break = Some(body3);
                }
            }
        }
        if rep.samples.len() < 3 && c.nontrivial() && c.n >= 4 && c.n < 20 {
            rep.sample(json!({"case": ct, "pool1": o.0}));
        }
    }
    rep.extra.insert("pagerank_max_abs_error_1e-18".into(), json!(max_err));
    rep.notes.push(format!("largest |float - exact| over all PageRank scores: {}e-18 (bound 1e-9)", max_err));
    if let Some(body) = first_break {
        if rep.spec_violations.is_empty() {
            rep.correspondence_break(
                "SgModel.Iter.{cdlp,pageRank} = samyama_graph_algorithms::{cdlp,page_rank}",
                "driver reply outside the protocol or model/implementation disagree while the specification holds",
                &body,
            );
        }
    }
    rep.write(&args.out);
}
