//! C16 — recovery returns exactly the acknowledged persisted state.
//!
//! Crash = death of the process.  For every case (tenant registration, operation sequence,
//! crash point k) this binary re-executes itself as a child (`c16 child …`) that runs the
//! sequence against a real `PersistenceManager` and `abort()`s when it reaches the k-th
//! `verif_hook` point; the child logs every call's start, result and every point to a file
//! with unbuffered writes.  The parent then opens a fresh manager over the same directory,
//! `recover`s, and compares three ways: implementation observations R, the Lean model's
//! `crashRun` M, and the executable specification `specCrash` evaluated on R.
#[path = "persist/common.rs"]
mod common;
use common::*;
use serde_json::json;
use std::io::Write;
use std::path::{Path, PathBuf};
use std::process::{Command, Stdio};
use std::sync::atomic::{AtomicUsize, Ordering};
use std::sync::{Arc, Mutex};
use vharness::{driver, Args, Known, Report, Rng};

/// The probed tenant: `t1` (registered by the harness), or the pre-registered `default` tenant
/// when the case's registration is the default one (quotas 1M nodes / 10M edges).
const DEFAULT_CFG: &str = "1.1.1000000.10000000";
fn tenant_of(cfg: &Cfg) -> &'static str {
    if cfg.render() == DEFAULT_CFG { "default" } else { "t1" }
}
/// Two other tenants hold data in the same store (ids overlapping the probed tenant's, key
/// ranges before and after it).  They are written before the hook is armed and must come
/// back unchanged whatever happens to the probed tenant.
const NOISE: [&str; 2] = ["a0", "z9"];
fn noise_ops() -> Vec<Op> {
    vec![
        Op::CreateNode { id: 1, labels: vec![1], props: vec![(0, 1)] },
        Op::CreateNode { id: 2, labels: vec![], props: vec![] },
        Op::CreateEdge { id: 1, src: 1, tgt: 2, ty: 1, props: vec![(1, 3)] },
    ]
}
const NOISE_DUMP: &str = "1:1:0=1,2:-:-/1:1:2:1:1=3";
/// `<i>f` = `flush()` after op i, `<i>c` = `checkpoint()` after op i (no effect on what `recover`
/// returns, no hook points; they move data from the memtable/WAL to SST files)
fn parse_admin(s: &str) -> Option<Vec<(usize, char)>> {
    if s == "-" { return Some(vec![]); }
    s.split('+').map(|x| { let (i, c) = x.split_at(x.len().checked_sub(1)?); let c = c.chars().next()?; if c != 'f' && c != 'c' { return None; } Some((i.parse().ok()?, c)) }).collect()
}
fn render_admin(a: &[(usize, char)]) -> String {
    if a.is_empty() { "-".into() } else { a.iter().map(|(i, c)| format!("{}{}", i, c)).collect::<Vec<_>>().join("+") }
}

// ---------------------------------------------------------------------------------------------
// child
// ---------------------------------------------------------------------------------------------

fn log_line(f: &Mutex<std::fs::File>, s: &str) {
    let mut g = f.lock().unwrap_or_else(|e| e.into_inner());
    let _ = g.write_all(s.as_bytes());
}

/// `c16 child <dir> <cfg> <ops> <k> [<repeat>]`: run the sequence (`repeat` times, for the
/// kill-timer mode), die at the k-th hook point
fn child(argv: &[String]) -> ! {
    let dir = PathBuf::from(&argv[0]);
    let cfg = Cfg::parse(&argv[1]).expect("cfg");
    let ops = parse_ops(&argv[2]).expect("ops");
    let k: usize = argv[3].parse().expect("k");
    let admin = parse_admin(&argv[4]).expect("admin");
    let repeat: usize = argv.get(5).map(|x| x.parse().expect("repeat")).unwrap_or(1);
    let tenant = tenant_of(&cfg);
    let log = Arc::new(Mutex::new(
        std::fs::OpenOptions::new().create(true).append(true).open(dir.join("child.log")).expect("log"),
    ));
    let pm = samyama::persistence::PersistenceManager::new(dir.join("db")).expect("open");
    cfg.setup(&pm, tenant);
    for t in NOISE {
        Cfg::open().setup(&pm, t);
        for op in noise_ops() {
            assert_eq!(apply(&pm, t, &op), "ok");
        }
    }
    let hits = Arc::new(AtomicUsize::new(0));
    {
        let (log, hits) = (log.clone(), hits.clone());
        samyama::verif_hook::install(Arc::new(move |name: &'static str| {
            let n = hits.fetch_add(1, Ordering::SeqCst);
            log_line(&log, &format!("p {}\n", name.strip_prefix("persist.").unwrap_or(name)));
            if n == k {
                std::process::abort();
            }
        }));
    }
    for _ in 0..repeat {
        for (i, op) in ops.iter().enumerate() {
            log_line(&log, "s\n");
            let r = apply(&pm, tenant, op);
            log_line(&log, &format!("r {}\n", r));
            for (_, c) in admin.iter().filter(|(j, _)| *j == i) {
                let r = if *c == 'f' { pm.flush() } else { pm.checkpoint() };
                if let Err(e) = r { log_line(&log, &format!("admin-error {}\n", e)); }
            }
        }
    }
    samyama::verif_hook::clear();
    log_line(&log, "end\n");
    drop(pm);
    std::process::exit(0);
}

// ---------------------------------------------------------------------------------------------
// parent
// ---------------------------------------------------------------------------------------------

#[derive(Clone, Debug)]
struct Case {
    cfg: Cfg,
    ops: Vec<Op>,
    k: usize,
    admin: Vec<(usize, char)>,
}

#[derive(Clone, Debug)]
struct Obs {
    results: Vec<String>,
    inflight: bool,
    points: Vec<String>,
    ended: bool,
    crashed: bool,
    dump: Result<String, String>,
    noise: Vec<Result<String, String>>,
}

fn j(v: &[String]) -> String {
    if v.is_empty() { "-".into() } else { v.join(",") }
}

fn read_log(dir: &Path) -> Obs {
    let txt = std::fs::read_to_string(dir.join("child.log")).unwrap_or_default();
    let mut o = Obs { results: vec![], inflight: false, points: vec![], ended: false, crashed: false, dump: Err("unset".into()), noise: vec![] };
    let mut started = 0usize;
    let complete = txt.ends_with('\n');
    let lines: Vec<&str> = txt.lines().collect();
    let n = if complete { lines.len() } else { lines.len().saturating_sub(1) };
    for l in &lines[..n] {
        if *l == "s" {
            started += 1;
        } else if let Some(r) = l.strip_prefix("r ") {
            o.results.push(r.to_string());
        } else if let Some(p) = l.strip_prefix("p ") {
            o.points.push(p.to_string());
        } else if *l == "end" {
            o.ended = true;
        }
    }
    o.inflight = started > o.results.len();
    o
}

/// open a fresh manager over the directory the child left behind, register the tenant, recover
fn recover_dir(dir: &Path, cfg: &Cfg) -> (Result<String, String>, Vec<Result<String, String>>) {
    let pm = match samyama::persistence::PersistenceManager::new(dir.join("db")) {
        Ok(pm) => pm,
        Err(e) => return (Err(format!("reopen[{}]", e)), vec![]),
    };
    let tenant = tenant_of(cfg);
    cfg.setup(&pm, tenant);
    let d = dump(&pm, tenant);
    let noise = NOISE.iter().map(|t| { Cfg::open().setup(&pm, t); dump(&pm, t) }).collect();
    (d, noise)
}

fn run_case(work: &Path, tag: &str, c: &Case) -> Obs {
    let dir = work.join(tag);
    let _ = std::fs::remove_dir_all(&dir);
    std::fs::create_dir_all(&dir).expect("case dir");
    let st = Command::new(std::env::current_exe().expect("exe"))
        .args(["child", dir.to_str().unwrap(), &c.cfg.render(), &render_ops(&c.ops), &c.k.to_string(), &render_admin(&c.admin)])
        .stdin(Stdio::null())
        .stdout(Stdio::null())
        .stderr(Stdio::null())
        .status()
        .expect("spawn child");
    let mut o = read_log(&dir);
    o.crashed = !st.success();
    let (d, noise) = recover_dir(&dir, &c.cfg);
    o.dump = d;
    o.noise = noise;
    let _ = std::fs::remove_dir_all(&dir);
    o
}

/// thorough tier: the child repeats the sequence and is killed by a timer at a random instant
fn run_kill_case(work: &Path, tag: &str, c: &Case, repeat: usize, delay_us: u64) -> (Obs, usize) {
    let dir = work.join(tag);
    let _ = std::fs::remove_dir_all(&dir);
    std::fs::create_dir_all(&dir).expect("case dir");
    let mut ch = Command::new(std::env::current_exe().expect("exe"))
        .args(["child", dir.to_str().unwrap(), &c.cfg.render(), &render_ops(&c.ops), &usize::MAX.to_string(), &render_admin(&c.admin), &repeat.to_string()])
        .stdin(Stdio::null())
        .stdout(Stdio::null())
        .stderr(Stdio::null())
        .spawn()
        .expect("spawn child");
    // wait until the child has opened the store and started, then let it run for `delay_us`
    let t0 = std::time::Instant::now();
    while !dir.join("child.log").exists() || std::fs::metadata(dir.join("child.log")).map(|m| m.len()).unwrap_or(0) == 0 {
        if t0.elapsed().as_secs() > 20 { break; }
        std::thread::sleep(std::time::Duration::from_micros(200));
    }
    std::thread::sleep(std::time::Duration::from_micros(delay_us));
    let _ = ch.kill();
    let st = ch.wait().expect("wait");
    let mut o = read_log(&dir);
    o.crashed = !st.success();
    let (d, noise) = recover_dir(&dir, &c.cfg);
    o.dump = d;
    o.noise = noise;
    let _ = std::fs::remove_dir_all(&dir);
    let n = o.results.len();
    (o, n)
}

fn classify(c: &Case, o: &Obs) -> &'static str {
    // structural class of the failing case: which kind of operation's effect is wrong
    let n = o.results.len();
    let acked = &c.ops[..n.min(c.ops.len())];
    if acked.iter().any(|op| op.is_update()) || (o.inflight && c.ops.get(n).map(|x| x.is_update()).unwrap_or(false)) {
        "update-lost"
    } else {
        "recovered-state"
    }
}

fn main() {
    let args = Args::parse();
    if args.extra.first().map(|s| s.as_str()) == Some("child") {
        child(&args.extra[1..]);
    }
    let known = Known::load(&args.known, "C16");
    let mut rep = Report::new(
        "C16",
        "case = (tenant registration incl. the pre-registered `default` tenant, op sequence over create/delete/update of nodes and edges with ids 1-4 and 0 / 2^32 / 2^64-1, optional flush()/checkpoint() between ops, crash point k; two other tenants hold data in the same store); \
         the child process aborts at its k-th hook point, the parent recovers; non-trivial = the process died strictly inside \
         a call (after its first effect-free point, before its last: at persist.checked/logged/stored) and the sequence has an \
         acknowledged or in-flight write; distinct = distinct (cfg, ops, k)",
        &args.replays,
        args.seed,
    );
    let exe = args.driver_exe("drv_persist");
    let work = tempfile::Builder::new().prefix("c16").tempdir_in(&args.work).expect("work dir");

    // ---- sequences: corpus / replay, then generated ----
    let mut seqs: Vec<(Cfg, Vec<Op>, Option<usize>, Vec<(usize, char)>)> = vec![];
    let mut files: Vec<PathBuf> = vec![];
    if let Some(r) = &args.replay {
        files.push(r.clone());
    } else if let Ok(rd) = std::fs::read_dir(args.corpus.join("C16")) {
        files = rd.filter_map(|e| e.ok().map(|e| e.path())).collect();
        files.sort();
    }
    let mut n_corpus = 0;
    for f in &files {
        for line in std::fs::read_to_string(f).unwrap_or_default().lines() {
            // `case <cfg> <ops> <k|all> [<admin>]`
            let t: Vec<&str> = line.split_whitespace().collect();
            if (t.len() == 4 || t.len() == 5) && t[0] == "case" {
                let admin = if t.len() == 5 { parse_admin(t[4]) } else { Some(vec![]) };
                if let (Some(cfg), Some(ops), Some(admin)) = (Cfg::parse(t[1]), parse_ops(t[2]), admin) {
                    seqs.push((cfg, ops, t[3].parse().ok(), admin));
                    n_corpus += 1;
                }
            }
        }
    }
    rep.count_n("corpus_sequences", n_corpus);
    let mut rng = Rng::new(args.seed);
    if args.replay.is_none() {
        let n_seq = if args.thorough() { 90 } else { 10 };
        for i in 0..n_seq {
            let len = if i % 8 == 0 { 12 } else { 2 + rng.usize(7) };
            let max_id = 2 + rng.below(3);
            let ops: Vec<Op> = (0..len).map(|_| gen_op(&mut rng, max_id)).collect();
            let cfg = match i % 8 {
                3 => Cfg { registered: true, enabled: true, max_nodes: Some(1 + rng.usize(2)), max_edges: Some(1 + rng.usize(2)) },
                6 => Cfg { registered: true, enabled: false, max_nodes: None, max_edges: None },
                1 | 5 => Cfg::parse(DEFAULT_CFG).unwrap(), // the pre-registered `default` tenant
                _ => Cfg::open(),
            };
            // every other sequence moves data to SST files in the middle (flush / checkpoint)
            let admin: Vec<(usize, char)> = if i % 2 == 1 {
                (0..1 + rng.usize(2)).map(|_| (rng.usize(len), if rng.chance(1, 2) { 'f' } else { 'c' })).collect()
            } else { vec![] };
            seqs.push((cfg, ops, None, admin));
        }
        // one unregistered tenant: `recover` itself must fail, on both sides
        seqs.push((Cfg { registered: false, enabled: true, max_nodes: None, max_edges: None }, vec![Op::DeleteNode(1), Op::UpdateNode(1, vec![])], Some(usize::MAX), vec![]));
    }

    // ---- run: one worker per sequence, every crash point k = 0,1,… until the child survives ----
    let n_workers = 8usize;
    let next = AtomicUsize::new(0);
    let out: Mutex<Vec<(Case, Obs)>> = Mutex::new(vec![]);
    std::thread::scope(|sc| {
        for w in 0..n_workers {
            let (next, out, seqs, work) = (&next, &out, &seqs, work.path());
            sc.spawn(move || loop {
                let i = next.fetch_add(1, Ordering::SeqCst);
                if i >= seqs.len() { break; }
                let (cfg, ops, k, admin) = &seqs[i];
                let ks: Box<dyn Iterator<Item = usize>> = match k {
                    Some(k) => Box::new(std::iter::once(*k)),
                    None => Box::new(0..),
                };
                for k in ks {
                    let c = Case { cfg: cfg.clone(), ops: ops.clone(), k, admin: admin.clone() };
                    let o = run_case(work, &format!("w{}", w), &c);
                    let survived = !o.crashed;
                    out.lock().unwrap().push((c, o));
                    if survived { break; }
                }
            });
        }
    });
    let mut cases = out.into_inner().unwrap();
    cases.sort_by_key(|(c, _)| format!("{} {} {:020}", c.cfg.render(), render_ops(&c.ops), c.k));

    // ---- three-way evaluation ----
    let mut lines = vec![];
    for (c, o) in &cases {
        let kk = if c.k > 1_000_000 { 1_000_000 } else { c.k };
        lines.push(format!("crash {} {} {}", c.cfg.render(), render_ops(&c.ops), kk));
        match &o.dump {
            Ok(d) => lines.push(format!("speccrash {} {}|{}|{}", render_ops(&c.ops), j(&o.results), o.inflight as u8, d)),
            Err(_) => lines.push("noop".to_string()),
        }
    }
    let replies = driver::par_batch(&exe, &lines, 8);
    let mut first_break: Option<String> = None;
    for (i, (c, o)) in cases.iter().enumerate() {
        let (m, s) = (&replies[2 * i], &replies[2 * i + 1]);
        let r = match &o.dump {
            Ok(d) => format!("ok {}|{}|{}|{}", j(&o.results), o.inflight as u8, j(&o.points), d),
            Err(e) if e == "notfound" => "err recover".to_string(),
            Err(e) => format!("err {}", e),
        };
        let canon = format!("{} {} {} {}", c.cfg.render(), render_ops(&c.ops), c.k, render_admin(&c.admin));
        let inside = o.inflight && matches!(o.points.last().map(|s| s.as_str()), Some("checked") | Some("logged") | Some("stored"));
        let has_write = o.results.iter().any(|x| x == "ok") || o.inflight;
        rep.case(&canon, inside && has_write);
        if o.crashed { rep.count("crashed_runs"); } else { rep.count("clean_runs"); }
        if let Some(p) = o.points.last() {
            if o.crashed { rep.count(&format!("crash_at:{}", p)); }
        }
        if o.inflight {
            if let Some(op) = c.ops.get(o.results.len()) { rep.count(&format!("inflight:{}", op.kind())); }
        }
        for x in &o.results { rep.count(&format!("result:{}", x.split('[').next().unwrap_or(x))); }
        if inside && rep.samples.len() < 3 {
            rep.sample(json!({"cfg": c.cfg.render(), "ops": render_ops(&c.ops), "k": c.k, "impl": r}));
        }
        let body = format!("case {} {} {} {}\nimpl  {}\nmodel {}\nspec  {}\nother-tenants {:?}", c.cfg.render(), render_ops(&c.ops), c.k, render_admin(&c.admin), r, m, s, o.noise);
        rep.count(&format!("tenant:{}", tenant_of(&c.cfg)));
        if !c.admin.is_empty() { rep.count("with_flush_or_checkpoint"); }
        // the other tenants of the store come back exactly as they were written
        if c.cfg.registered && o.noise.iter().any(|d| d.as_deref() != Ok(NOISE_DUMP)) {
            rep.count("spec_violation:other-tenant-changed");
            rep.spec_violation(&known, "other-tenant-changed", &format!("tenants {:?} of the same store were written once before the sequence and recovered as {:?} (expected {})", NOISE, o.noise, NOISE_DUMP), &body);
        }
        if o.dump.is_ok() && s != "ok" {
            let sig = if s == "viol" { classify(c, o) } else { "driver-rejected" };
            rep.count(&format!("spec_violation:{}", sig));
            rep.spec_violation(&known, sig, &format!("recovered graph is neither the acknowledged state nor that plus the in-flight call ({}) on `{}` k={}", s, render_ops(&c.ops), c.k), &body);
        } else if *m != r {
            rep.count("model_mismatch");
            if first_break.is_none() { first_break = Some(body); }
        }
    }

    // ---- thorough: kill timer at random instants (S only: the instant is not a hook point) ----
    if args.thorough() && args.replay.is_none() {
        let mut kl = vec![];
        let mut kc = vec![];
        for i in 0..60 {
            let len = 6 + rng.usize(7);
            let ops: Vec<Op> = (0..len).map(|_| gen_op(&mut rng, 4)).collect();
            let c = Case { cfg: Cfg::open(), ops, k: usize::MAX, admin: if i % 3 == 0 { vec![(0, 'f')] } else { vec![] } };
            let repeat = 400;
            let delay = rng.below(30_000);
            let (o, _) = run_kill_case(work.path(), &format!("kill{}", i % 4), &c, repeat, delay);
            // the acknowledged prefix of the repeated sequence
            let full: Vec<Op> = (0..repeat).flat_map(|_| c.ops.clone()).take(o.results.len() + 1).collect();
            if let Ok(d) = &o.dump {
                kl.push(format!("speccrash {} {}|{}|{}", render_ops(&full), j(&o.results), o.inflight as u8, d));
                kc.push((c, o, full));
            }
        }
        let kr = driver::par_batch(&exe, &kl, 8);
        for (i, (c, o, full)) in kc.iter().enumerate() {
            rep.case(&format!("kill {} {}", render_ops(&c.ops), o.results.len()), o.inflight);
            rep.count(if o.crashed { "kill_timer:killed" } else { "kill_timer:finished" });
            if kr[i] != "ok" {
                let cc = Case { cfg: c.cfg.clone(), ops: full.clone(), k: usize::MAX, admin: vec![] };
                let sig = if kr[i] == "viol" { classify(&cc, o) } else { "driver-rejected" };
                rep.spec_violation(&known, sig, "recovered graph after SIGKILL is neither the acknowledged state nor that plus the in-flight call",
                    &format!("kill-case {} acked={} inflight={}\nimpl-dump {:?}\nspec {}", render_ops(full), o.results.len(), o.inflight, o.dump, kr[i]));
            }
        }
    }

    // model self-test: on the corpus witnesses the model of the pinned tree must be told apart
    // from the model of the repaired code by the same comparison
    {
        let mut l = vec![];
        for (cfg, ops, _, _) in seqs.iter().take(n_corpus as usize) {
            l.push(format!("crash {} {} 1000000", cfg.render(), render_ops(ops)));
            l.push(format!("crashlegacy {} {} 1000000", cfg.render(), render_ops(ops)));
        }
        let r = driver::batch(&exe, &l);
        let detected = r.chunks(2).filter(|c| c[0] != c[1]).count();
        rep.extra.insert("model_self_test".into(), json!({"mutants": r.len() / 2, "detected": detected}));
    }
    if let Some(body) = first_break {
        if rep.spec_violations.is_empty() {
            rep.correspondence_break(
                "SgModel.Persist.crashRun fixed = PersistenceManager::persist_* + process death + recover (results, hook points, recovered graph)",
                "model and implementation observations differ but the specification holds on all explored cases",
                &body,
            );
        }
    }
    rep.extra.insert("crash_points".into(), json!({"enumerated": cases.iter().filter(|(_, o)| o.crashed).count(), "exhaustive_per_sequence": true}));
    rep.exhaustive = false;
    rep.exhaustive_note = "every hook point of every generated sequence is used as a crash point (exhaustive per sequence); the sequences themselves are PRNG-generated".into();
    rep.write(&args.out);
}
