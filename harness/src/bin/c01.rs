//! C01 — read queries return exactly the rows openCypher semantics define.
//!
//! Real engine (`QueryEngine::execute`: pest parser → planner → physical operators) against
//! the Lean reference semantics `Cy` (`drv_cy`).  The harness generates a logical graph and a
//! query in the clean AST, unparses the query to Cypher text for the engine (so the real
//! parser is inside the implementation under test) and ships graph + AST + the engine's
//! table as s-expressions to the driver, which evaluates the *specification* on the engine's
//! table (`check`: bag equality, sortedness up to ties, admissible LIMIT windows) and also
//! returns the model's own table.
#[path = "c01/ast.rs"]
mod ast;
#[path = "c01/engine.rs"]
mod engine;
#[path = "c01/gen.rs"]
mod gen;

use ast::*;
use engine::*;
use samyama::query::QueryEngine;
use serde_json::json;
use std::collections::BTreeMap;
use vharness::{driver, Args, Known, Report, Rng};

const GRAMMAR_VERSION: u32 = 1;

struct Case {
    gsexp: String,
    qsexp: String,
    cypher: String,
    outcome: Outcome,
    ops: Vec<String>,
    feats: Feats,
    origin: &'static str,
}

#[derive(Default, Clone, Debug)]
struct Feats {
    multilabel: bool,
    varlen: bool,
    proj_cmp: bool,
    has_where: bool,
    order: bool,
    limit: bool,
    distinct: bool,
    agg: bool,
    clauses: usize,
}

fn expr_has_cmp(e: &E) -> bool {
    match e {
        E::Cmp(..) | E::In(..) => true,
        E::Lit(_) | E::Var(_) => false,
        E::Prop(a, _) | E::Not(a) | E::IsNull(a) | E::NotNull(a) | E::Neg(a) | E::Fn(_, a) => expr_has_cmp(a),
        E::And(a, b) | E::Or(a, b) | E::Xor(a, b) | E::Str(_, a, b) | E::Ar(_, a, b) | E::Coalesce(a, b) => expr_has_cmp(a) || expr_has_cmp(b),
    }
}

fn feats_of(q: &Query) -> Feats {
    let mut f = Feats { clauses: q.clauses.len(), ..Default::default() };
    let mut projs: Vec<&Proj> = vec![&q.ret];
    for c in &q.clauses {
        match c {
            Clause::Match(_, pats, w) => {
                f.has_where |= w.is_some();
                for p in pats {
                    f.multilabel |= p.start.labels.len() > 1;
                    for (r, n) in &p.steps {
                        f.multilabel |= n.labels.len() > 1;
                        f.varlen |= r.range.is_some();
                    }
                }
            }
            Clause::With(p) => projs.push(p),
            Clause::Unwind(..) => {}
        }
    }
    for p in projs {
        f.order |= !p.order.is_empty();
        f.limit |= p.limit.is_some() || p.skip.is_some();
        f.distinct |= p.distinct;
        for it in &p.items {
            match it {
                Item::E(e, _, _) => f.proj_cmp |= expr_has_cmp(e),
                Item::Agg(_, _, e, _) => {
                    f.agg = true;
                    f.proj_cmp |= expr_has_cmp(e)
                }
            }
        }
        for (e, _) in &p.order {
            f.proj_cmp |= expr_has_cmp(e);
        }
        if let Some(w) = &p.where_ {
            f.has_where = true;
            let _ = w;
        }
    }
    f
}

/// features of a query given only as text (corpus / replay cases)
fn feats_of_text(cypher: &str, qsexp: &str) -> Feats {
    let ret = cypher.rfind("RETURN").map(|i| &cypher[i..]).unwrap_or("");
    Feats {
        multilabel: {
            // (x:A:B …)
            let b = cypher.as_bytes();
            let mut found = false;
            let mut i = 0;
            while i < b.len() {
                if b[i] == b':' {
                    let mut j = i + 1;
                    while j < b.len() && (b[j].is_ascii_alphanumeric() || b[j] == b'_') {
                        j += 1;
                    }
                    if j < b.len() && b[j] == b':' && j > i + 1 {
                        found = true;
                    }
                    i = j;
                } else {
                    i += 1;
                }
            }
            found && !cypher.contains("|")
        },
        varlen: qsexp.contains(") (") && cypher.contains('*') && cypher.contains("*") && cypher.contains("-["),
        proj_cmp: ret.contains(" = ") || ret.contains(" <> ") || ret.contains(" IN "),
        has_where: cypher.contains("WHERE"),
        order: cypher.contains("ORDER BY"),
        limit: cypher.contains("LIMIT") || cypher.contains("SKIP"),
        distinct: cypher.contains("DISTINCT"),
        agg: cypher.contains("count(") || cypher.contains("sum(") || cypher.contains("collect("),
        clauses: 1,
    }
}

fn panic_signature(msg: &str) -> String {
    let l = msg.to_lowercase();
    if l.contains("overflow") {
        "panic:int-overflow".into()
    } else if l.contains("index out of bounds") || l.contains("out of range") {
        "panic:index".into()
    } else if l.contains("unwrap") {
        "panic:unwrap".into()
    } else {
        "panic:other".into()
    }
}

fn main() {
    let args = Args::parse();
    let known = Known::load(&args.known, "C01");
    let mut rep = Report::new(
        "C01",
        "graph (0-6 nodes, label subsets of {A,B,C}, 0-8 relationships incl. self-loops/parallel, mixed-type properties) x typed read-only query of the staged fragment; \
         non-trivial = the first MATCH has >= 1 match before its WHERE and the engine's plan has an operator beyond NodeScan/Project; \
         distinct = distinct (graph, query) pair",
        &args.replays,
        args.seed,
    );
    std::panic::set_hook(Box::new(|_| {}));
    let exe = args.driver_exe("drv_cy");
    let eng = QueryEngine::new();
    let mut cases: Vec<Case> = vec![];
    let mut mutated: Vec<(String, String)> = vec![];

    // ---- 1. corpus / replay: `case <graph-sexp> ;; <query-sexp> ;; <cypher>` ----------------
    let mut files: Vec<std::path::PathBuf> = vec![];
    if let Some(r) = &args.replay {
        files.push(r.clone());
    } else if let Ok(rd) = std::fs::read_dir(args.corpus.join("C01")) {
        files = rd.filter_map(|e| e.ok().map(|e| e.path())).collect();
        files.sort();
    }
    let mut n_corpus = 0u64;
    for f in &files {
        for line in std::fs::read_to_string(f).unwrap_or_default().lines() {
            let line = line.trim();
            let Some(body) = line.strip_prefix("case ") else { continue };
            let parts: Vec<&str> = body.split(" ;; ").collect();
            if parts.len() != 3 {
                rep.notes.push(format!("corpus line not understood: {}", line));
                continue;
            }
            let Some(g) = g_of_sexp(parts[0]) else {
                rep.notes.push(format!("corpus graph not understood: {}", parts[0]));
                continue;
            };
            let b = build_api(&g);
            let before = b.fingerprint();
            let outcome = run(&eng, &b, parts[2]);
            let ops = plan_ops(&b, parts[2]);
            if b.fingerprint() != before {
                mutated.push((parts[0].to_string(), parts[2].to_string()));
            }
            cases.push(Case {
                gsexp: g.sexp(),
                qsexp: parts[1].to_string(),
                cypher: parts[2].to_string(),
                outcome,
                ops,
                feats: feats_of_text(parts[2], parts[1]),
                origin: "corpus",
            });
            n_corpus += 1;
        }
    }
    rep.count_n("corpus_cases", n_corpus);

    // ---- 2. generated -------------------------------------------------------------------------
    if args.replay.is_none() {
        // `Rng::new(s)` and `Rng::new(s+1)` are the same stream shifted by one draw; mix the
        // seed first so that different seeds explore different cases
        let mut z = args.seed.wrapping_add(0x9E37_79B9_7F4A_7C15).wrapping_mul(0xBF58_476D_1CE4_E5B9);
        z = (z ^ (z >> 29)).wrapping_mul(0x94D0_49BB_1331_11EB);
        let mut rng = Rng(z ^ (z >> 32));
        let (n_graphs, per_graph) = if args.thorough() { (6000, 16) } else { (700, 12) };
        for gi in 0..n_graphs {
            let g = gen::gen_graph(&mut rng);
            let via_cypher = gi % 4 == 3;
            let b = if via_cypher {
                match build_cypher(&g) {
                    Some(b) => {
                        rep.count("graph_built:cypher");
                        b
                    }
                    None => {
                        rep.count("graph_built:cypher-failed-fallback-api");
                        build_api(&g)
                    }
                }
            } else {
                rep.count("graph_built:api");
                build_api(&g)
            };
            let gsexp = g.sexp();
            let before = b.fingerprint();
            for _ in 0..per_graph {
                let mut qrng = rng.fork();
                let q = gen::QGen::new(&mut qrng, GRAMMAR_VERSION).gen_query();
                let cypher = q.cypher();
                let outcome = run(&eng, &b, &cypher);
                let ops = plan_ops(&b, &cypher);
                cases.push(Case { gsexp: gsexp.clone(), qsexp: q.sexp(), cypher, outcome, ops, feats: feats_of(&q), origin: "generated" });
            }
            if b.fingerprint() != before {
                mutated.push((gsexp.clone(), "(one of the generated read queries)".into()));
            }
        }
    }

    // ---- 3. the model and the specification --------------------------------------------------
    let mut lines = Vec::with_capacity(cases.len());
    for c in &cases {
        match c.outcome.table_sexp() {
            Some(t) if c.outcome.representable() => lines.push(format!("check 0 {} {} {}", c.gsexp, c.qsexp, t)),
            _ => lines.push(format!("run 0 {} {}", c.gsexp, c.qsexp)),
        }
    }
    let replies = driver::par_batch(&exe, &lines, 12);

    // second opinion for variable-length queries that failed: the engine's own semantics
    let mut de_lines = vec![];
    let mut de_idx = vec![];
    for (i, c) in cases.iter().enumerate() {
        if c.feats.varlen && replies[i].starts_with("viol") {
            if let Some(t) = c.outcome.table_sexp() {
                de_lines.push(format!("check 1 {} {} {}", c.gsexp, c.qsexp, t));
                de_idx.push(i);
            }
        }
    }
    let de_replies = if de_lines.is_empty() { vec![] } else { driver::par_batch(&exe, &de_lines, 12) };
    let de_ok: BTreeMap<usize, bool> = de_idx.iter().zip(de_replies.iter()).map(|(i, r)| (*i, r.starts_with("ok"))).collect();

    let mut pred_total = 0u64;
    let mut pred_nonconst = 0u64;
    let mut first_break: Option<String> = None;
    for (i, c) in cases.iter().enumerate() {
        let reply = &replies[i];
        let parts: Vec<&str> = reply.split(" ;; ").collect();
        let body = format!(
            "case {} ;; {} ;; {}\n# engine: {}\n# driver: {}\n# plan: {}",
            c.gsexp,
            c.qsexp,
            c.cypher,
            c.outcome.short(),
            reply,
            c.ops.join(">")
        );
        if reply == "bad-op" || parts.len() < 2 {
            rep.count("driver:bad-op");
            if first_break.is_none() {
                first_break = Some(body.clone());
            }
            rep.case(&format!("{}{}", c.gsexp, c.qsexp), false);
            continue;
        }
        // stats: m=<n> w=<t,f,n,e>|-
        let stats = parts.last().unwrap();
        let mut matches = 0u64;
        for tok in stats.split(' ') {
            if let Some(m) = tok.strip_prefix("m=") {
                matches = m.parse().unwrap_or(0);
            } else if let Some(w) = tok.strip_prefix("w=") {
                if w != "-" {
                    let v: Vec<u64> = w.split(',').filter_map(|x| x.parse().ok()).collect();
                    if v.len() == 4 && c.origin == "generated" {
                        pred_total += 1;
                        if v[..3].iter().filter(|x| **x > 0).count() >= 2 {
                            pred_nonconst += 1;
                        }
                    }
                }
            }
        }
        let beyond = c.ops.iter().any(|o| o != "NodeScan" && o != "Project");
        let nontrivial = matches >= 1 && beyond;
        rep.case(&format!("{}{}", c.gsexp, c.qsexp), nontrivial);
        for o in &c.ops {
            rep.count(&format!("plan_op:{}", o));
        }
        if c.feats.has_where { rep.count("feature:where"); }
        if c.feats.order { rep.count("feature:order-by"); }
        if c.feats.limit { rep.count("feature:skip-limit"); }
        if c.feats.distinct { rep.count("feature:distinct"); }
        if c.feats.agg { rep.count("feature:aggregate"); }
        if c.feats.multilabel { rep.count("feature:multi-label"); }
        if c.feats.varlen { rep.count("feature:var-length"); }

        // model verdict: first part for `check`, for `run` only the model table
        let is_check = lines[i].starts_with("check");
        let model = if is_check { parts[1] } else { parts[0] };
        let model_ok = model.starts_with("(t");
        match &c.outcome {
            Outcome::Panic(msg) => {
                let sig = panic_signature(msg);
                rep.count(&format!("engine:{}", sig));
                rep.spec_violation(&known, &sig, &format!("the engine panicked ({}) on `{}`", msg, c.cypher), &body);
            }
            Outcome::Err(e) => {
                if model_ok {
                    rep.count(&format!("engine-refuses-model-answers:{}", classify_error(e)));
                    if rep.samples.len() < 2 {
                        rep.sample(json!({"kind": "refusal", "cypher": c.cypher, "error": e}));
                    }
                } else {
                    rep.count("both-error");
                }
            }
            Outcome::Table { rows, .. } => {
                if !is_check {
                    // the engine produced a value the model's value language cannot express
                    if model_ok {
                        rep.count("spec_violation:unrepresentable-value");
                        rep.spec_violation(&known, "unrepresentable-value", &format!("the engine returned a value outside the fragment's value language on `{}`", c.cypher), &body);
                    } else {
                        rep.count("engine-answers-model-undefined");
                    }
                    continue;
                }
                let verdict = parts[0];
                if verdict == "ok" {
                    rep.count(if rows.is_empty() { "agree:empty" } else { "agree:rows" });
                    if nontrivial && !rows.is_empty() && rep.samples.len() < 5 {
                        rep.sample(json!({"cypher": c.cypher, "graph": c.gsexp, "engine_table": c.outcome.short(), "plan": c.ops}));
                    }
                } else if verdict.starts_with("skip") {
                    rep.count(&format!("model-undefined:{}", verdict));
                } else {
                    // S ⊭ R: classify the witness structurally
                    let has_op = |name: &str| c.ops.iter().any(|o| o == name);
                    let sig = if c.feats.varlen && de_ok.get(&i).copied().unwrap_or(false) {
                        "varlen-distinct-endpoint".to_string()
                    } else if has_op("EdgeCount") || has_op("EdgeTypeCount") {
                        "edge-count-shortcut".to_string()
                    } else if has_op("AdjacencyCountAggregate") {
                        "adjacency-count-rewrite".to_string()
                    } else if c.feats.multilabel {
                        "multilabel-union".to_string()
                    } else if c.feats.proj_cmp {
                        "eq-int-float-projection".to_string()
                    } else {
                        let mut fs = vec![];
                        if c.feats.varlen { fs.push("varlen"); }
                        if c.feats.agg { fs.push("agg"); }
                        if c.feats.distinct { fs.push("distinct"); }
                        if c.feats.order { fs.push("order"); }
                        if c.feats.limit { fs.push("limit"); }
                        if c.feats.has_where { fs.push("where"); }
                        if c.feats.clauses > 1 { fs.push("multi-clause"); }
                        format!("{}:{}", verdict.replace(' ', "-"), fs.join("+"))
                    };
                    rep.count(&format!("spec_violation:{}", sig));
                    rep.spec_violation(&known, &sig, &format!("{} on `{}`: engine {} / model {}", verdict, c.cypher, c.outcome.short(), model), &body);
                }
            }
        }
    }
    for (g, q) in &mutated {
        rep.spec_violation(&known, "read-query-mutated-graph", "the store's content changed while only read queries ran", &format!("# graph {}\n# query {}", g, q));
    }
    if let Some(body) = first_break {
        rep.correspondence_break("drv_cy understands every generated case", "the driver rejected a request (bad-op)", &body);
    }
    rep.extra.insert("grammar_version".into(), json!(format!("v{}", GRAMMAR_VERSION)));
    rep.extra.insert(
        "predicates".into(),
        json!({"where_predicates": pred_total, "non_constant_on_their_graph": pred_nonconst,
               "fraction_non_constant": if pred_total > 0 { pred_nonconst as f64 / pred_total as f64 } else { 0.0 }}),
    );
    rep.extra.insert("disagreements_checked".into(), json!(cases.len()));
    rep.exhaustive = false;
    rep.exhaustive_note = "PRNG-generated graphs and queries plus the corpus; nothing exhaustive".into();
    rep.write(&args.out);
}
