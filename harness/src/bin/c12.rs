//! C12 — snapshot export then import reproduces the graph.
//! Real `export_tenant` / `import_tenant` vs the Lean model `SgModel.SnapJson`
//! (`importLines ∅ (exportLines g)`), and the executable specification `specRoundTrip`
//! evaluated on dumps of the real source and destination stores.
#[path = "snap/mod.rs"]
mod snap;
use samyama::graph::GraphStore;
use samyama::snapshot::{export_tenant, import_tenant};
use serde_json::json;
use snap::ops::{build, gen_big, gen_program, parse_ops, render_ops, Op};
use snap::*;
use std::io::Read;
use std::panic::{catch_unwind, AssertUnwindSafe};
use vharness::{driver, Args, Known, Report, Rng};

struct Outcome {
    ops_txt: String,
    src: String,
    /// "ok <dst> <stats>" | "err <dst> -" | "export-failed …" | "panic …"
    real: String,
    dst: Option<String>,
    /// second generation: the dump after exporting the imported store and importing that again
    dst2: Option<String>,
    gen2_err: Option<String>,
    lines: Option<String>,
    feat: Features,
    executed: Vec<String>,
    import_err: Option<String>,
    src_nodes: usize,
    dst_nodes: usize,
    src_edges: usize,
    dst_edges: usize,
    /// (node_count, edge_count) the export header announces
    header_counts: Option<(u64, u64)>,
    edge_id_hole_crosses_64: bool,
    /// (node, relationship, hierarchy) records in the whole file vs what the import reported
    file_records: Option<(usize, usize, usize)>,
    import_reported: Option<(usize, usize, usize)>,
    node_id_holes: bool,
    diff_hint: String,
}

/// every line of the file, ALL gzip members (a multi-member file is a valid gzip file)
fn decode_lines(buf: &[u8]) -> Option<Vec<String>> {
    let mut s = String::new();
    flate2::read::MultiGzDecoder::new(buf).read_to_string(&mut s).ok()?;
    Some(s.lines().map(|x| x.to_string()).collect())
}

/// exported body lines as model `J` text, node/edge ids renamed to ranks
fn canon_lines(lines: &[String], src: &Dump) -> Option<String> {
    let mut out = vec![];
    let mut edge_rank = 0usize;
    for l in lines.iter().skip(1) {
        let mut v: serde_json::Value = serde_json::from_str(l).ok()?;
        let t = v.get("t").and_then(|x| x.as_str()).unwrap_or("").to_string();
        let rk = |x: &serde_json::Value| -> serde_json::Value {
            json!(x.as_u64().and_then(|i| src.rank.get(&i).copied()).unwrap_or(999_999))
        };
        if t == "n" {
            let r = rk(&v["id"]);
            v["id"] = r;
            // label order comes from a hash set
            if let Some(a) = v["labels"].as_array_mut() {
                a.sort_by(|x, y| x.as_str().unwrap_or("").as_bytes().cmp(y.as_str().unwrap_or("").as_bytes()));
            }
        } else if t == "e" {
            v["id"] = json!(edge_rank);
            edge_rank += 1;
            let (a, b) = (rk(&v["src"]), rk(&v["tgt"]));
            v["src"] = a;
            v["tgt"] = b;
        }
        out.push(j_text(&v));
    }
    Some(if out.is_empty() { "-".into() } else { out.join("+") })
}

fn count_records(lines: &[String]) -> (usize, usize, usize) {
    let (mut n, mut e, mut h) = (0, 0, 0);
    for l in lines.iter().skip(1) {
        if let Ok(v) = serde_json::from_str::<serde_json::Value>(l) {
            match v.get("t").and_then(|t| t.as_str()) {
                Some("n") => n += 1,
                Some("e") => e += 1,
                Some("h") => h += 1,
                _ => {}
            }
        }
    }
    (n, e, h)
}

// ---------------------------------------------------------------------------------------------
// size-dependent container / framing behaviour: few entities with LARGE values, or very many
// small entities.  These graphs are compared **in Rust only** (same comparison: nodes in order
// with label sets and property maps, relationships as a multiset of (source, target, type,
// properties), header counts, records-in-file vs records-imported) on 64-bit digests of the
// canonical value text — the payloads (MiBs) are not handed to the Lean driver.
// ---------------------------------------------------------------------------------------------

#[derive(Clone, Debug)]
enum Huge {
    /// `n` nodes whose `blob` property is a string of the given byte lengths (cycled), `r` relationships
    Strings { lens: Vec<usize>, rels: usize, seed: u64 },
    /// `n` nodes each carrying a list of `len` integers and a vector of `len / 4` floats
    Lists { n: usize, len: usize, rels: usize, seed: u64 },
    /// many small nodes / relationships (bulk API)
    Many { nodes: usize, rels: usize, seed: u64 },
}

fn render_huge(h: &Huge) -> String {
    match h {
        Huge::Strings { lens, rels, seed } => format!("huge strings {} {} {}", lens.iter().map(|l| l.to_string()).collect::<Vec<_>>().join(","), rels, seed),
        Huge::Lists { n, len, rels, seed } => format!("huge lists {} {} {} {}", n, len, rels, seed),
        Huge::Many { nodes, rels, seed } => format!("huge many {} {} {}", nodes, rels, seed),
    }
}

fn parse_huge(s: &str) -> Option<Huge> {
    let f: Vec<&str> = s.split(' ').collect();
    match f.as_slice() {
        ["huge", "strings", lens, rels, seed] => Some(Huge::Strings {
            lens: lens.split(',').map(|x| x.parse().ok()).collect::<Option<Vec<_>>>()?,
            rels: rels.parse().ok()?,
            seed: seed.parse().ok()?,
        }),
        ["huge", "lists", n, len, rels, seed] => Some(Huge::Lists { n: n.parse().ok()?, len: len.parse().ok()?, rels: rels.parse().ok()?, seed: seed.parse().ok()? }),
        ["huge", "many", nodes, rels, seed] => Some(Huge::Many { nodes: nodes.parse().ok()?, rels: rels.parse().ok()?, seed: seed.parse().ok()? }),
        _ => None,
    }
}

/// FNV-1a over a canonical byte feed of a value (type tag, length, content; map keys sorted) —
/// the same information as the canonical text, without expanding MiBs into hex
fn feed(h: &mut u64, bytes: &[u8]) {
    for b in bytes {
        *h ^= *b as u64;
        *h = h.wrapping_mul(0x100000001b3);
    }
}

fn pv_feed(h: &mut u64, v: &samyama::graph::PropertyValue) {
    use samyama::graph::PropertyValue as PV;
    match v {
        PV::Null => feed(h, b"z"),
        PV::Boolean(b) => feed(h, if *b { b"b1" } else { b"b0" }),
        PV::Integer(i) => {
            feed(h, b"i");
            feed(h, &i.to_le_bytes())
        }
        PV::Float(f) => {
            feed(h, b"f");
            feed(h, &f.to_bits().to_le_bytes())
        }
        PV::String(s) => {
            feed(h, b"s");
            feed(h, &(s.len() as u64).to_le_bytes());
            feed(h, s.as_bytes())
        }
        PV::DateTime(t) => {
            feed(h, b"t");
            feed(h, &t.to_le_bytes())
        }
        PV::Array(a) => {
            feed(h, b"a");
            feed(h, &(a.len() as u64).to_le_bytes());
            a.iter().for_each(|x| pv_feed(h, x))
        }
        PV::Map(m) => {
            feed(h, b"m");
            let mut kv: Vec<_> = m.iter().collect();
            kv.sort_by(|a, b| a.0.as_bytes().cmp(b.0.as_bytes()));
            feed(h, &(kv.len() as u64).to_le_bytes());
            for (k, x) in kv {
                feed(h, &(k.len() as u64).to_le_bytes());
                feed(h, k.as_bytes());
                pv_feed(h, x);
            }
        }
        PV::Vector(x) => {
            feed(h, b"v");
            feed(h, &(x.len() as u64).to_le_bytes());
            x.iter().for_each(|c| feed(h, &(*c as f64).to_bits().to_le_bytes()))
        }
        PV::Duration { months, days, seconds, nanos } => {
            feed(h, b"d");
            feed(h, &months.to_le_bytes());
            feed(h, &days.to_le_bytes());
            feed(h, &seconds.to_le_bytes());
            feed(h, &nanos.to_le_bytes())
        }
    }
}

fn props_digest<'a>(it: impl Iterator<Item = (&'a String, &'a samyama::graph::PropertyValue)>) -> u64 {
    let mut kv: Vec<_> = it.collect();
    kv.sort_by(|a, b| a.0.as_bytes().cmp(b.0.as_bytes()));
    let mut h: u64 = 0xcbf29ce484222325;
    for (k, v) in kv {
        feed(&mut h, &(k.len() as u64).to_le_bytes());
        feed(&mut h, k.as_bytes());
        pv_feed(&mut h, v);
    }
    h
}

fn fnv(s: &str) -> u64 {
    let mut h: u64 = 0xcbf29ce484222325;
    for b in s.as_bytes() {
        h ^= *b as u64;
        h = h.wrapping_mul(0x100000001b3);
    }
    h
}

/// deterministic ASCII text of exactly `len` bytes (no JSON escapes, edges are not white space)
fn pattern(len: usize, seed: u64) -> String {
    let alphabet = b"abcdefghijklmnopqrstuvwxyz0123456789 ABCDEFGHIJKLMNOPQRSTUVWXYZ_-.,;";
    let mut x = seed.wrapping_mul(0x9e3779b97f4a7c15) | 1;
    let mut out = Vec::with_capacity(len);
    while out.len() < len {
        x ^= x << 13;
        x ^= x >> 7;
        x ^= x << 17;
        let mut w = x;
        for _ in 0..8 {
            if out.len() < len {
                out.push(alphabet[(w % alphabet.len() as u64) as usize]);
                w /= alphabet.len() as u64;
            }
        }
    }
    if len > 0 {
        out[0] = b'<';
        out[len - 1] = b'>';
    }
    String::from_utf8(out).unwrap()
}

fn build_huge(h: &Huge) -> GraphStore {
    use samyama::graph::PropertyValue as PV;
    let mut g = GraphStore::new();
    let mut ids = vec![];
    let (n_rels, seed) = match h {
        Huge::Strings { lens, rels, seed } => {
            for (i, len) in lens.iter().enumerate() {
                let id = if i % 2 == 0 { g.create_node_stub("Doc") } else { g.create_node("Doc") };
                g.set_column_property(id, "uid", PV::Integer(i as i64));
                let blob = PV::String(pattern(*len, seed + i as u64));
                if i % 2 == 0 {
                    g.set_column_property(id, "blob", blob);
                } else {
                    g.set_node_property("default", id, "blob", blob).unwrap();
                }
                ids.push(id);
            }
            (*rels, *seed)
        }
        Huge::Lists { n, len, rels, seed } => {
            for i in 0..*n {
                let id = g.create_node_with_labels([samyama::graph::Label::new("L"), samyama::graph::Label::new("M")]);
                g.set_node_property("default", id, "uid", PV::Integer(i as i64)).unwrap();
                let list: Vec<PV> = (0..*len).map(|k| PV::Integer((k as i64).wrapping_mul(7919) ^ (*seed as i64 + i as i64))).collect();
                g.set_node_property("default", id, "list", PV::Array(list)).unwrap();
                let vecv: Vec<f32> = (0..*len / 4).map(|k| (k as f32) * 0.25 + i as f32).collect();
                g.set_node_property("default", id, "vec", PV::Vector(vecv)).unwrap();
                ids.push(id);
            }
            (*rels, *seed)
        }
        Huge::Many { nodes, rels, seed } => {
            for i in 0..*nodes {
                let id = g.create_node_stub(if i % 3 == 0 { "A" } else { "B" });
                g.set_column_property(id, "uid", PV::Integer(i as i64));
                g.set_column_property(id, "name", PV::String(pattern(60, seed + i as u64)));
                ids.push(id);
            }
            (*rels, *seed)
        }
    };
    let mut r = Rng::new(seed ^ 0x51ab);
    for k in 0..n_rels {
        let (a, b) = (ids[r.usize(ids.len())], ids[r.usize(ids.len())]);
        match k % 3 {
            0 => {
                g.create_edge_stub(a, b, "R").unwrap();
            }
            1 => {
                g.create_edge(a, b, "KNOWS").unwrap();
            }
            _ => {
                let mut pm = samyama::graph::PropertyMap::new();
                pm.insert("i".into(), PV::Integer(k as i64));
                g.create_edge_with_properties(a, b, "LINK", pm).unwrap();
            }
        }
    }
    if matches!(h, Huge::Many { .. }) {
        g.finish_bulk_load();
    }
    g
}

/// the logical graph as digests: nodes in order (sorted labels + canonical property text), and the
/// sorted multiset of relationships (source rank, target rank, type, canonical property text)
fn logical_digest(g: &GraphStore) -> (Vec<u64>, Vec<(usize, usize, String, u64)>) {
    let d_ids: Vec<u64> = {
        let mut seen = std::collections::HashSet::new();
        g.all_nodes().iter().map(|n| n.id.as_u64()).filter(|i| seen.insert(*i)).collect()
    };
    let rank: std::collections::HashMap<u64, usize> = d_ids.iter().enumerate().map(|(i, id)| (*id, i)).collect();
    let mut nodes = vec![];
    for id in &d_ids {
        let nid = samyama::graph::NodeId::new(*id);
        let mut labels: Vec<String> = g.get_node(nid).map(|n| n.labels.iter().map(|l| l.as_str().to_string()).collect()).unwrap_or_default();
        labels.sort();
        let props: std::collections::BTreeMap<String, samyama::graph::PropertyValue> = g.node_properties_merged(nid).into_iter().collect();
        nodes.push(fnv(&labels.join(",")) ^ props_digest(props.iter()).rotate_left(17));
    }
    let mut rels = vec![];
    for id in &d_ids {
        let nid = samyama::graph::NodeId::new(*id);
        let mut out = g.frozen_outgoing_neighbors(*id as usize);
        out.extend_from_slice(g.get_outgoing_neighbor_slice(nid));
        for (tgt, eid) in out {
            let ty = g.get_edge_type(eid).map(|t| t.as_str().to_string()).unwrap_or_default();
            let props = g.get_edge_properties(eid).cloned().unwrap_or_default();
            rels.push((rank[id], rank.get(&tgt.as_u64()).copied().unwrap_or(usize::MAX), ty, props_digest(props.iter())));
        }
    }
    rels.sort();
    (nodes, rels)
}

/// Ok(description) or Err((signature, what))
fn run_huge(h: &Huge) -> Result<String, (String, String)> {
    let src = build_huge(h);
    let (sn, sr) = logical_digest(&src);
    let mut buf = vec![];
    export_tenant(&src, &mut buf).map_err(|e| ("huge:export-failed".to_string(), e.to_string()))?;
    let lines = decode_lines(&buf).ok_or(("huge:file-unreadable".to_string(), "MultiGzDecoder cannot read the export".to_string()))?;
    let json_bytes: usize = lines.iter().map(|l| l.len() + 1).sum();
    let file = count_records(&lines);
    let header: serde_json::Value = serde_json::from_str(&lines[0]).map_err(|e| ("huge:header".to_string(), e.to_string()))?;
    let (hn, he) = (header["node_count"].as_u64().unwrap_or(0) as usize, header["edge_count"].as_u64().unwrap_or(0) as usize);
    if hn != sn.len() || he != sr.len() || file.0 != sn.len() || file.1 != sr.len() {
        return Err(("huge:export-counts".into(), format!("graph has {} nodes / {} relationships; header says {} / {}; the file holds {} / {} records", sn.len(), sr.len(), hn, he, file.0, file.1)));
    }
    let mut dst = GraphStore::new();
    let st = import_tenant(&mut dst, &buf[..]).map_err(|e| ("huge:import-error".to_string(), e.to_string()))?;
    if st.node_count as usize != file.0 || st.edge_count as usize != file.1 {
        return Err((
            "import-did-not-consume-the-file".into(),
            format!("the file ({} bytes of JSON) holds {} node and {} relationship records; import_tenant returned Ok and reported {} / {}", json_bytes, file.0, file.1, st.node_count, st.edge_count),
        ));
    }
    let (dn, dr) = logical_digest(&dst);
    if dn.len() != sn.len() || dr.len() != sr.len() {
        return Err(("huge:entity-count".into(), format!("source {} nodes / {} relationships, imported {} / {}", sn.len(), sr.len(), dn.len(), dr.len())));
    }
    if dn != sn {
        let i = dn.iter().zip(&sn).position(|(a, b)| a != b).unwrap_or(0);
        return Err(("huge:node-differs".into(), format!("node {} (labels or properties) differs after the round trip", i)));
    }
    if dr != sr {
        return Err(("huge:relationships-differ".into(), "the multisets of relationships differ after the round trip".into()));
    }
    Ok(format!("{} nodes, {} relationships, {} bytes of JSON, {} bytes gzip", sn.len(), sr.len(), json_bytes, buf.len()))
}

fn run_case(ops: &[Op]) -> Outcome {
    let ops_txt = render_ops(ops);
    let r = catch_unwind(AssertUnwindSafe(|| {
        let b = build(ops);
        let src = dump_store(&b.store);
        let mut buf = vec![];
        let mut o = Outcome {
            ops_txt: ops_txt.clone(),
            src: src.text.clone(),
            real: String::new(),
            dst: None,
            dst2: None,
            gen2_err: None,
            lines: None,
            feat: b.feat.clone(),
            executed: b.executed.clone(),
            import_err: None,
            src_nodes: src.n_nodes,
            dst_nodes: 0,
            src_edges: src.n_edges,
            dst_edges: 0,
            header_counts: None,
            edge_id_hole_crosses_64: (src.max_edge_id / 64) as usize > src.n_edges / 64,
            file_records: None,
            import_reported: None,
            node_id_holes: src.max_node_id as usize > src.n_nodes,
            diff_hint: String::new(),
        };
        o.feat.versions = src.multi_version;
        if let Err(e) = export_tenant(&b.store, &mut buf) {
            o.real = format!("export-failed {}", e);
            return o;
        }
        let decoded = decode_lines(&buf);
        o.header_counts = decoded.as_ref().and_then(|l| l.first()).and_then(|h| serde_json::from_str::<serde_json::Value>(h).ok()).and_then(|h| {
            Some((h.get("node_count")?.as_u64()?, h.get("edge_count")?.as_u64()?))
        });
        o.file_records = decoded.as_ref().map(|l| count_records(l));
        o.lines = decoded.and_then(|l| canon_lines(&l, &src));
        let mut dst = GraphStore::new();
        match import_tenant(&mut dst, &buf[..]) {
            Ok(st) => {
                let d = dump_store(&dst);
                o.real = format!("ok {} {}.{}.{}.{}", d.text, st.node_count, st.edge_count, st.merged_count, st.hierarchy_count);
                o.dst_nodes = d.n_nodes;
                o.dst_edges = d.n_edges;
                o.import_reported = Some(((st.node_count + st.merged_count) as usize, st.edge_count as usize, st.hierarchy_count as usize));
                o.diff_hint = diff_hint(&src, &d);
                o.dst = Some(d.text);
                // second generation: an imported store keeps scalars in columns only — export it
                // again and import that
                let mut buf2 = vec![];
                match export_tenant(&dst, &mut buf2) {
                    Err(e) => o.gen2_err = Some(format!("export of the imported store: {}", e)),
                    Ok(_) => {
                        let mut dst2 = GraphStore::new();
                        match import_tenant(&mut dst2, &buf2[..]) {
                            Ok(_) => {
                                let d2 = dump_store(&dst2);
                                if o.diff_hint.is_empty() {
                                    o.diff_hint = diff_hint(&src, &d2);
                                }
                                o.dst2 = Some(d2.text);
                            }
                            Err(e) => o.gen2_err = Some(format!("import of the second-generation export: {}", e)),
                        }
                    }
                }
            }
            Err(e) => {
                let d = dump_store(&dst);
                o.real = format!("err {} -", d.text);
                o.import_err = Some(e.to_string());
                o.dst = Some(d.text);
            }
        }
        o
    }));
    match r {
        Ok(o) => o,
        Err(p) => {
            let msg = p.downcast_ref::<String>().cloned().or_else(|| p.downcast_ref::<&str>().map(|s| s.to_string())).unwrap_or_default();
            Outcome {
                ops_txt,
                src: String::new(),
                real: format!("panic {}", msg),
                dst: None,
                dst2: None,
                gen2_err: None,
                lines: None,
                feat: Features::default(),
                executed: vec![],
                import_err: None,
                src_nodes: 0,
                dst_nodes: 0,
                src_edges: 0,
                dst_edges: 0,
                header_counts: None,
                edge_id_hole_crosses_64: false,
                file_records: None,
                import_reported: None,
                node_id_holes: false,
                diff_hint: String::new(),
            }
        }
    }
}

/// structural class of the first difference between the source and destination dumps
fn diff_hint(src: &Dump, dst: &Dump) -> String {
    use samyama::graph::PropertyValue as PV;
    if src.n_nodes != dst.n_nodes {
        return if src.multi_version { "mvcc-versions-exported".into() } else { "node-count".into() };
    }
    for i in 0..src.n_nodes {
        if src.node_labels[i] != dst.node_labels[i] {
            return if src.node_labels[i].is_empty() { "unlabelled-node".into() } else { "labels".into() };
        }
        if props_text(src.node_props[i].iter()) != props_text(dst.node_props[i].iter()) {
            for (k, v) in &src.node_props[i] {
                let w = dst.node_props[i].get(k);
                if w == Some(v) || (pv_text(v) == w.map(pv_text).unwrap_or_default()) {
                    continue;
                }
                if src.clash_keys[i].contains(k) {
                    return "row-column-clash".into();
                }
                return value_diff_class(v);
            }
            return "node-props-extra".into();
        }
    }
    fn value_diff_class(v: &PV) -> String {
        let mut f = Features::default();
        value_features(v, &mut f);
        if f.tag_map {
            "map-tag-collision".into()
        } else if f.vec_nonfinite {
            "vector-nonfinite".into()
        } else if f.nonfinite {
            "nonfinite-float".into()
        } else if has_trimmable(v) {
            "string-trimmed".into()
        } else if has_float(v) {
            "float-text-roundtrip".into()
        } else {
            "node-props".into()
        }
    }
    fn has_trimmable(v: &PV) -> bool {
        match v {
            PV::String(s) => s != s.trim(),
            PV::Array(a) => a.iter().any(has_trimmable),
            PV::Map(m) => m.values().any(has_trimmable),
            _ => false,
        }
    }
    fn has_float(v: &PV) -> bool {
        match v {
            PV::Float(_) => true,
            PV::Array(a) => a.iter().any(has_float),
            PV::Map(m) => m.values().any(has_float),
            _ => false,
        }
    }
    String::new()
}

fn signature(o: &Outcome, spec: &str) -> String {
    if o.real.starts_with("panic") {
        return "panic".into();
    }
    if o.real.starts_with("export-failed") {
        return "export-failed".into();
    }
    if o.import_err.is_some() {
        return if o.feat.route_key { "line-routing-substring".into() } else { "import-error".into() };
    }
    if o.dst.is_some() && o.src_nodes == o.dst_nodes && o.dst_edges > o.src_edges {
        return "relationship-duplicated".into();
    }
    if o.dst.is_some() && o.src_nodes == o.dst_nodes && o.dst_edges < o.src_edges {
        return "relationship-lost".into();
    }
    if !o.diff_hint.is_empty() {
        return o.diff_hint.clone();
    }
    match spec {
        "viol lidx" => "label-index-extra-labels".into(),
        "viol hier" => "hierarchy-declaration".into(),
        "viol edges" => {
            if o.feat.tag_map {
                "map-tag-collision".into()
            } else {
                "edges".into()
            }
        }
        s if s.starts_with("viol node") => "node".into(),
        _ => "other".into(),
    }
}

fn main() {
    let args = Args::parse();
    let known = Known::load(&args.known, "C12");
    let mut rep = Report::new(
        "C12",
        "graph-building programs (API / bulk stub / row-only / Cypher nodes, full and stub relationships, property updates, \
         commits, compaction, hierarchy declarations, deletions) -> export_tenant -> import_tenant into an empty store; \
         non-trivial = the graph has >= 1 relationship, >= 1 non-ASCII or whitespace-edged string and >= 1 non-scalar value; \
         distinct = distinct program text",
        &args.replays,
        args.seed,
    );
    let exe = args.driver_exe("drv_snapjson");

    let mut progs: Vec<Vec<Op>> = vec![];
    let mut n_corpus = 0;
    let mut huge: Vec<Huge> = vec![];
    let mut files: Vec<std::path::PathBuf> = vec![];
    if let Some(r) = &args.replay {
        files.push(r.clone());
    } else if let Ok(rd) = std::fs::read_dir(args.corpus.join("C12")) {
        files = rd.filter_map(|e| e.ok().map(|e| e.path())).collect();
        files.sort();
    }
    for f in &files {
        for line in std::fs::read_to_string(f).unwrap_or_default().lines() {
            let line = line.trim();
            if let Some(h) = parse_huge(line) {
                huge.push(h);
                continue;
            }
            if let Some(p) = line.strip_prefix("ops ").and_then(parse_ops) {
                progs.push(p);
                n_corpus += 1;
            }
        }
    }
    rep.count_n("corpus_programs", n_corpus);
    rep.count_n("corpus_huge_cases", huge.len() as u64);
    if args.replay.is_none() {
        // size-dependent container / framing behaviour (compared in Rust on digests, see `run_huge`)
        let sd = args.seed;
        // ~9 MiB of JSON in 6 nodes; the 64 KiB / 1 MiB / 4 MiB boundaries; long lists and vectors
        huge.push(Huge::Strings { lens: vec![1_100_000; 6], rels: 9, seed: sd });
        huge.push(Huge::Strings { lens: vec![65_535, 65_536, 65_537, 1_048_575, 1_048_576, 1_048_577, 2_300_000, 10], rels: 12, seed: sd + 1 });
        huge.push(Huge::Lists { n: 3, len: 200_000, rels: 6, seed: sd + 2 });
        if args.thorough() {
            huge.push(Huge::Many { nodes: 40_000, rels: 40_000, seed: sd + 3 });
            huge.push(Huge::Strings { lens: vec![2_000_000, 4_194_303, 4_194_304, 4_194_305, 2_000_000, 64, 8_500_000], rels: 20, seed: sd + 4 });
            huge.push(Huge::Lists { n: 8, len: 250_000, rels: 16, seed: sd + 5 });
        }
    }

    if args.replay.is_none() {
        let mut rng = Rng::new(args.seed);
        let n = if args.thorough() { 20_000 } else { 2_000 };
        for i in 0..n {
            let mut r = rng.fork();
            let size = 2 + r.usize(if i % 10 == 0 { 40 } else { 14 });
            let mut p = gen_program(&mut r, size, i % 3 == 0);
            // a few programs carry a map that collides with the tagged encodings (known finding)
            if i % 97 == 5 {
                p.push(Op::Node { method: "api".into(), labels: vec!["A".into()], props: vec![("m".into(), gen_tag_map(&mut r))] });
            }
            progs.push(p);
        }
        // size/threshold-dependent export paths: larger graphs with holes in the id spaces
        let n_big = if args.thorough() { 400 } else { 14 };
        for _ in 0..n_big {
            let mut r = rng.fork();
            progs.push(gen_big(&mut r));
        }
    }

    // run the implementation (threads), then the model and the specification (driver batch)
    let outcomes: Vec<Outcome> = {
        let n_threads = 8;
        let chunk = (progs.len() + n_threads - 1) / n_threads.max(1);
        let mut out: Vec<Vec<Outcome>> = vec![];
        std::thread::scope(|sc| {
            let hs: Vec<_> = progs
                .chunks(chunk.max(1))
                .map(|c| sc.spawn(move || c.iter().map(|p| run_case(p)).collect::<Vec<_>>()))
                .collect();
            for h in hs {
                out.push(h.join().expect("worker"));
            }
        });
        out.into_iter().flatten().collect()
    };

    let mut lines = vec![];
    for o in &outcomes {
        if o.src.is_empty() {
            lines.push("noop".to_string());
            lines.push("noop".to_string());
            lines.push("noop".to_string());
            lines.push("noop".to_string());
            continue;
        }
        lines.push(format!("rt {}", o.src));
        lines.push(match &o.dst {
            Some(d) if o.import_err.is_none() => format!("spec-rt {} {}", o.src, d),
            _ => "noop".to_string(),
        });
        lines.push(format!("export {}", o.src));
        lines.push(match &o.dst2 {
            Some(d) => format!("spec-rt {} {}", o.src, d),
            None => "noop".to_string(),
        });
    }
    let replies = driver::par_batch(&exe, &lines, 12);

    let mut first_break: Option<(String, String)> = None;
    for (k, o) in outcomes.iter().enumerate() {
        let m = &replies[4 * k];
        let s = &replies[4 * k + 1];
        let ex = &replies[4 * k + 2];
        let s2 = &replies[4 * k + 3];
        let nt = o.feat.rels > 0 && o.feat.edgy_string && o.feat.nonscalar;
        rep.case(&o.ops_txt, nt);
        if o.src_edges >= 50 {
            rep.count("big-graph(>=50 relationships)");
        }
        if o.edge_id_hole_crosses_64 {
            rep.count("relationship-id-holes-cross-a-64-multiple");
        }
        if o.node_id_holes {
            rep.count("node-id-holes");
        }
        for e in &o.executed {
            rep.count(&format!("op:{}", e));
        }
        for (name, on) in [
            ("unlabelled", o.feat.unlabelled),
            ("multilabel", o.feat.multilabel),
            ("nonfinite-float", o.feat.nonfinite),
            ("vector-nonfinite", o.feat.vec_nonfinite),
            ("multi-version", o.feat.versions),
            ("hierarchy", o.feat.hier),
            ("compaction", o.feat.compaction),
            ("tag-map", o.feat.tag_map),
            ("edge-prop-t", o.feat.route_key),
        ] {
            if on {
                rep.count(&format!("feature:{}", name));
            }
        }
        if nt && rep.samples.len() < 3 {
            rep.sample(json!({"ops": o.ops_txt, "src": o.src, "impl": o.real}));
        }
        let body = format!(
            "ops {}\nsrc   {}\nimpl  {}\nmodel {}\nspec  {}\nimport_error {:?}",
            o.ops_txt, o.src, o.real, m, s, o.import_err
        );
        // the import read the whole file: as many records as all gzip members hold
        if let (Some(f), Some(i)) = (o.file_records, o.import_reported) {
            if f.0 != i.0 || f.1 != i.1 || f.2 < i.2 {
                rep.count("spec_violation:import-did-not-consume-the-file");
                rep.spec_violation(
                    &known,
                    "import-did-not-consume-the-file",
                    &format!("the file holds {:?} (node, relationship, hierarchy) records, import_tenant returned Ok and reported {:?}", f, i),
                    &body,
                );
                continue;
            }
        }
        // the header announces what the body holds
        if let (Some((hn, he)), true) = (o.header_counts, s == "ok" && o.import_err.is_none()) {
            if hn as usize != o.src_nodes || he as usize != o.src_edges {
                rep.count("spec_violation:export-header-count");
                rep.spec_violation(
                    &known,
                    "export-header-count",
                    &format!("the export header announces {} nodes / {} relationships, the graph has {} / {} (`{}`)", hn, he, o.src_nodes, o.src_edges, &o.ops_txt[..o.ops_txt.len().min(300)]),
                    &body,
                );
                continue;
            }
        }
        // an export that cannot be imported, a failing export, a panic: violations by themselves
        let spec_ok = s == "ok" && o.import_err.is_none() && !o.src.is_empty() && o.dst.is_some();
        if spec_ok && (s2 != "ok" || o.gen2_err.is_some()) {
            let sig = format!("second-generation:{}", if o.gen2_err.is_some() { "error".to_string() } else { signature(o, s2) });
            rep.count(&format!("spec_violation:{}", sig));
            rep.spec_violation(
                &known,
                &sig,
                &format!("export→import→export→import does not reproduce the graph ({}; {:?}) for `{}`", s2, o.gen2_err, o.ops_txt),
                &format!("{}\ngen2  {:?}\nspec2 {}", body, o.dst2, s2),
            );
            continue;
        }
        if spec_ok {
            rep.count("second-generation-checked");
        }
        if !spec_ok {
            let sig = signature(o, s);
            rep.count(&format!("spec_violation:{}", sig));
            rep.spec_violation(
                &known,
                &sig,
                &format!("export→import does not reproduce the graph ({}; {}) for `{}`", s, o.import_err.clone().unwrap_or_default(), o.ops_txt),
                &body,
            );
            continue;
        }
        // R vs M: the imported store and the stats; and the exported lines
        let want = o.real.clone();
        let model_cmp = {
            // compare stores without counters / history column
            let mut it = m.splitn(3, ' ');
            let (st, dump, stats) = (it.next().unwrap_or(""), it.next().unwrap_or(""), it.next().unwrap_or(""));
            format!("{} {} {}", st, comparable(dump), stats)
        };
        let real_cmp = {
            let mut it = want.splitn(3, ' ');
            let (st, dump, stats) = (it.next().unwrap_or(""), it.next().unwrap_or(""), it.next().unwrap_or(""));
            format!("{} {} {}", st, comparable(dump), stats)
        };
        if model_cmp != real_cmp {
            rep.count("model_mismatch:import");
            if first_break.is_none() {
                first_break = Some(("SgModel.SnapJson.importLines ∘ exportLines = import_tenant ∘ export_tenant (store dump)".into(), body.clone()));
            }
        } else if let Some(l) = &o.lines {
            if *ex != format!("ok {}", l) {
                rep.count("model_mismatch:export");
                if first_break.is_none() {
                    first_break = Some((
                        "SgModel.SnapJson.exportLines = export_tenant (body lines)".into(),
                        format!("{}\nexport impl  {}\nexport model {}", body, l, ex),
                    ));
                }
            }
        }
    }
    if let Some((name, body)) = first_break {
        if rep.spec_violations.is_empty() {
            rep.correspondence_break(&name, "model and implementation differ although the specification holds on every explored case", &body);
        }
    }
    // the huge cases, one at a time (each holds MiBs)
    for h in &huge {
        let txt = render_huge(h);
        let t0 = std::time::Instant::now();
        let res = catch_unwind(AssertUnwindSafe(|| run_huge(h)));
        rep.case(&txt, true);
        rep.count("huge-case(compared in Rust on digests)");
        match res {
            Ok(Ok(desc)) => {
                rep.count(&format!("huge:{}", txt.split(' ').nth(1).unwrap_or("")));
                if rep.samples.len() < 6 {
                    rep.sample(json!({"huge": txt, "round_trip": desc, "seconds": t0.elapsed().as_secs_f64()}));
                }
            }
            Ok(Err((sig, what))) => {
                rep.count(&format!("spec_violation:{}", sig));
                rep.spec_violation(&known, &sig, &format!("{} (`{}`)", what, txt), &format!("{}\n{}", txt, what));
            }
            Err(_) => {
                rep.spec_violation(&known, "huge:panic", &format!("panic in `{}`", txt), &txt);
            }
        }
    }
    rep.write(&args.out);
}
