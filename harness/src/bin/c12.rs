//! C12 — snapshot export then import reproduces the graph.
//! Real `export_tenant` / `import_tenant` vs the Lean model `SgModel.SnapJson`
//! (`importLines ∅ (exportLines g)`), and the executable specification `specRoundTrip`
//! evaluated on dumps of the real source and destination stores.
#[path = "snap/mod.rs"]
mod snap;
use samyama::graph::GraphStore;
use samyama::snapshot::{export_tenant, import_tenant};
use serde_json::json;
use snap::ops::{build, gen_big, gen_program, parse_ops, render_ops, Op};
use snap::*;
use std::io::Read;
use std::panic::{catch_unwind, AssertUnwindSafe};
use vharness::{driver, Args, Known, Report, Rng};

struct Outcome {
    ops_txt: String,
    src: String,
    /// "ok <dst> <stats>" | "err <dst> -" | "export-failed …" | "panic …"
    real: String,
    dst: Option<String>,
    /// second generation: the dump after exporting the imported store and importing that again
    dst2: Option<String>,
    gen2_err: Option<String>,
    lines: Option<String>,
    feat: Features,
    executed: Vec<String>,
    import_err: Option<String>,
    src_nodes: usize,
    dst_nodes: usize,
    src_edges: usize,
    dst_edges: usize,
    /// (node_count, edge_count) the export header announces
    header_counts: Option<(u64, u64)>,
    edge_id_hole_crosses_64: bool,
    node_id_holes: bool,
    diff_hint: String,
}

fn decode_lines(buf: &[u8]) -> Option<Vec<String>> {
    let mut s = String::new();
    flate2::read::GzDecoder::new(buf).read_to_string(&mut s).ok()?;
    Some(s.lines().map(|x| x.to_string()).collect())
}

/// exported body lines as model `J` text, node/edge ids renamed to ranks
fn canon_lines(lines: &[String], src: &Dump) -> Option<String> {
    let mut out = vec![];
    let mut edge_rank = 0usize;
    for l in lines.iter().skip(1) {
        let mut v: serde_json::Value = serde_json::from_str(l).ok()?;
        let t = v.get("t").and_then(|x| x.as_str()).unwrap_or("").to_string();
        let rk = |x: &serde_json::Value| -> serde_json::Value {
            json!(x.as_u64().and_then(|i| src.rank.get(&i).copied()).unwrap_or(999_999))
        };
        if t == "n" {
            let r = rk(&v["id"]);
            v["id"] = r;
            // label order comes from a hash set
            if let Some(a) = v["labels"].as_array_mut() {
                a.sort_by(|x, y| x.as_str().unwrap_or("").as_bytes().cmp(y.as_str().unwrap_or("").as_bytes()));
            }
        } else if t == "e" {
            v["id"] = json!(edge_rank);
            edge_rank += 1;
            let (a, b) = (rk(&v["src"]), rk(&v["tgt"]));
            v["src"] = a;
            v["tgt"] = b;
        }
        out.push(j_text(&v));
    }
    Some(if out.is_empty() { "-".into() } else { out.join("+") })
}

fn run_case(ops: &[Op]) -> Outcome {
    let ops_txt = render_ops(ops);
    let r = catch_unwind(AssertUnwindSafe(|| {
        let b = build(ops);
        let src = dump_store(&b.store);
        let mut buf = vec![];
        let mut o = Outcome {
            ops_txt: ops_txt.clone(),
            src: src.text.clone(),
            real: String::new(),
            dst: None,
            dst2: None,
            gen2_err: None,
            lines: None,
            feat: b.feat.clone(),
            executed: b.executed.clone(),
            import_err: None,
            src_nodes: src.n_nodes,
            dst_nodes: 0,
            src_edges: src.n_edges,
            dst_edges: 0,
            header_counts: None,
            edge_id_hole_crosses_64: (src.max_edge_id / 64) as usize > src.n_edges / 64,
            node_id_holes: src.max_node_id as usize > src.n_nodes,
            diff_hint: String::new(),
        };
        o.feat.versions = src.multi_version;
        if let Err(e) = export_tenant(&b.store, &mut buf) {
            o.real = format!("export-failed {}", e);
            return o;
        }
        let decoded = decode_lines(&buf);
        o.header_counts = decoded.as_ref().and_then(|l| l.first()).and_then(|h| serde_json::from_str::<serde_json::Value>(h).ok()).and_then(|h| {
            Some((h.get("node_count")?.as_u64()?, h.get("edge_count")?.as_u64()?))
        });
        o.lines = decoded.and_then(|l| canon_lines(&l, &src));
        let mut dst = GraphStore::new();
        match import_tenant(&mut dst, &buf[..]) {
            Ok(st) => {
                let d = dump_store(&dst);
                o.real = format!("ok {} {}.{}.{}.{}", d.text, st.node_count, st.edge_count, st.merged_count, st.hierarchy_count);
                o.dst_nodes = d.n_nodes;
                o.dst_edges = d.n_edges;
                o.diff_hint = diff_hint(&src, &d);
                o.dst = Some(d.text);
                // second generation: an imported store keeps scalars in columns only — export it
                // again and import that
                let mut buf2 = vec![];
                match export_tenant(&dst, &mut buf2) {
                    Err(e) => o.gen2_err = Some(format!("export of the imported store: {}", e)),
                    Ok(_) => {
                        let mut dst2 = GraphStore::new();
                        match import_tenant(&mut dst2, &buf2[..]) {
                            Ok(_) => {
                                let d2 = dump_store(&dst2);
                                if o.diff_hint.is_empty() {
                                    o.diff_hint = diff_hint(&src, &d2);
                                }
                                o.dst2 = Some(d2.text);
                            }
                            Err(e) => o.gen2_err = Some(format!("import of the second-generation export: {}", e)),
                        }
                    }
                }
            }
            Err(e) => {
                let d = dump_store(&dst);
                o.real = format!("err {} -", d.text);
                o.import_err = Some(e.to_string());
                o.dst = Some(d.text);
            }
        }
        o
    }));
    match r {
        Ok(o) => o,
        Err(p) => {
            let msg = p.downcast_ref::<String>().cloned().or_else(|| p.downcast_ref::<&str>().map(|s| s.to_string())).unwrap_or_default();
            Outcome {
                ops_txt,
                src: String::new(),
                real: format!("panic {}", msg),
                dst: None,
                dst2: None,
                gen2_err: None,
                lines: None,
                feat: Features::default(),
                executed: vec![],
                import_err: None,
                src_nodes: 0,
                dst_nodes: 0,
                src_edges: 0,
                dst_edges: 0,
                header_counts: None,
                edge_id_hole_crosses_64: false,
                node_id_holes: false,
                diff_hint: String::new(),
            }
        }
    }
}

/// structural class of the first difference between the source and destination dumps
fn diff_hint(src: &Dump, dst: &Dump) -> String {
    use samyama::graph::PropertyValue as PV;
    if src.n_nodes != dst.n_nodes {
        return if src.multi_version { "mvcc-versions-exported".into() } else { "node-count".into() };
    }
    for i in 0..src.n_nodes {
        if src.node_labels[i] != dst.node_labels[i] {
            return if src.node_labels[i].is_empty() { "unlabelled-node".into() } else { "labels".into() };
        }
        if props_text(src.node_props[i].iter()) != props_text(dst.node_props[i].iter()) {
            for (k, v) in &src.node_props[i] {
                let w = dst.node_props[i].get(k);
                if w == Some(v) || (pv_text(v) == w.map(pv_text).unwrap_or_default()) {
                    continue;
                }
                if src.clash_keys[i].contains(k) {
                    return "row-column-clash".into();
                }
                return value_diff_class(v);
            }
            return "node-props-extra".into();
        }
    }
    fn value_diff_class(v: &PV) -> String {
        let mut f = Features::default();
        value_features(v, &mut f);
        if f.tag_map {
            "map-tag-collision".into()
        } else if f.vec_nonfinite {
            "vector-nonfinite".into()
        } else if f.nonfinite {
            "nonfinite-float".into()
        } else if has_trimmable(v) {
            "string-trimmed".into()
        } else if has_float(v) {
            "float-text-roundtrip".into()
        } else {
            "node-props".into()
        }
    }
    fn has_trimmable(v: &PV) -> bool {
        match v {
            PV::String(s) => s != s.trim(),
            PV::Array(a) => a.iter().any(has_trimmable),
            PV::Map(m) => m.values().any(has_trimmable),
            _ => false,
        }
    }
    fn has_float(v: &PV) -> bool {
        match v {
            PV::Float(_) => true,
            PV::Array(a) => a.iter().any(has_float),
            PV::Map(m) => m.values().any(has_float),
            _ => false,
        }
    }
    String::new()
}

fn signature(o: &Outcome, spec: &str) -> String {
    if o.real.starts_with("panic") {
        return "panic".into();
    }
    if o.real.starts_with("export-failed") {
        return "export-failed".into();
    }
    if o.import_err.is_some() {
        return if o.feat.route_key { "line-routing-substring".into() } else { "import-error".into() };
    }
    if o.dst.is_some() && o.src_nodes == o.dst_nodes && o.dst_edges > o.src_edges {
        return "relationship-duplicated".into();
    }
    if o.dst.is_some() && o.src_nodes == o.dst_nodes && o.dst_edges < o.src_edges {
        return "relationship-lost".into();
    }
    if !o.diff_hint.is_empty() {
        return o.diff_hint.clone();
    }
    match spec {
        "viol lidx" => "label-index-extra-labels".into(),
        "viol hier" => "hierarchy-declaration".into(),
        "viol edges" => {
            if o.feat.tag_map {
                "map-tag-collision".into()
            } else {
                "edges".into()
            }
        }
        s if s.starts_with("viol node") => "node".into(),
        _ => "other".into(),
    }
}

fn main() {
    let args = Args::parse();
    let known = Known::load(&args.known, "C12");
    let mut rep = Report::new(
        "C12",
        "graph-building programs (API / bulk stub / row-only / Cypher nodes, full and stub relationships, property updates, \
         commits, compaction, hierarchy declarations, deletions) -> export_tenant -> import_tenant into an empty store; \
         non-trivial = the graph has >= 1 relationship, >= 1 non-ASCII or whitespace-edged string and >= 1 non-scalar value; \
         distinct = distinct program text",
        &args.replays,
        args.seed,
    );
    let exe = args.driver_exe("drv_snapjson");

    let mut progs: Vec<Vec<Op>> = vec![];
    let mut n_corpus = 0;
    let mut files: Vec<std::path::PathBuf> = vec![];
    if let Some(r) = &args.replay {
        files.push(r.clone());
    } else if let Ok(rd) = std::fs::read_dir(args.corpus.join("C12")) {
        files = rd.filter_map(|e| e.ok().map(|e| e.path())).collect();
        files.sort();
    }
    for f in &files {
        for line in std::fs::read_to_string(f).unwrap_or_default().lines() {
            let line = line.trim();
            if let Some(p) = line.strip_prefix("ops ").and_then(parse_ops) {
                progs.push(p);
                n_corpus += 1;
            }
        }
    }
    rep.count_n("corpus_programs", n_corpus);

    if args.replay.is_none() {
        let mut rng = Rng::new(args.seed);
        let n = if args.thorough() { 20_000 } else { 2_000 };
        for i in 0..n {
            let mut r = rng.fork();
            let size = 2 + r.usize(if i % 10 == 0 { 40 } else { 14 });
            let mut p = gen_program(&mut r, size, i % 3 == 0);
            // a few programs carry a map that collides with the tagged encodings (known finding)
            if i % 97 == 5 {
                p.push(Op::Node { method: "api".into(), labels: vec!["A".into()], props: vec![("m".into(), gen_tag_map(&mut r))] });
            }
            progs.push(p);
        }
        // size/threshold-dependent export paths: larger graphs with holes in the id spaces
        let n_big = if args.thorough() { 400 } else { 14 };
        for _ in 0..n_big {
            let mut r = rng.fork();
            progs.push(gen_big(&mut r));
        }
    }

    // run the implementation (threads), then the model and the specification (driver batch)
    let outcomes: Vec<Outcome> = {
        let n_threads = 8;
        let chunk = (progs.len() + n_threads - 1) / n_threads.max(1);
        let mut out: Vec<Vec<Outcome>> = vec![];
        std::thread::scope(|sc| {
            let hs: Vec<_> = progs
                .chunks(chunk.max(1))
                .map(|c| sc.spawn(move || c.iter().map(|p| run_case(p)).collect::<Vec<_>>()))
                .collect();
            for h in hs {
                out.push(h.join().expect("worker"));
            }
        });
        out.into_iter().flatten().collect()
    };

    let mut lines = vec![];
    for o in &outcomes {
        if o.src.is_empty() {
            lines.push("noop".to_string());
            lines.push("noop".to_string());
            lines.push("noop".to_string());
            lines.push("noop".to_string());
            continue;
        }
        lines.push(format!("rt {}", o.src));
        lines.push(match &o.dst {
            Some(d) if o.import_err.is_none() => format!("spec-rt {} {}", o.src, d),
            _ => "noop".to_string(),
        });
        lines.push(format!("export {}", o.src));
        lines.push(match &o.dst2 {
            Some(d) => format!("spec-rt {} {}", o.src, d),
            None => "noop".to_string(),
        });
    }
    let replies = driver::par_batch(&exe, &lines, 12);

    let mut first_break: Option<(String, String)> = None;
    for (k, o) in outcomes.iter().enumerate() {
        let m = &replies[4 * k];
        let s = &replies[4 * k + 1];
        let ex = &replies[4 * k + 2];
        let s2 = &replies[4 * k + 3];
        let nt = o.feat.rels > 0 && o.feat.edgy_string && o.feat.nonscalar;
        rep.case(&o.ops_txt, nt);
        if o.src_edges >= 50 {
            rep.count("big-graph(>=50 relationships)");
        }
        if o.edge_id_hole_crosses_64 {
            rep.count("relationship-id-holes-cross-a-64-multiple");
        }
        if o.node_id_holes {
            rep.count("node-id-holes");
        }
        for e in &o.executed {
            rep.count(&format!("op:{}", e));
        }
        for (name, on) in [
            ("unlabelled", o.feat.unlabelled),
            ("multilabel", o.feat.multilabel),
            ("nonfinite-float", o.feat.nonfinite),
            ("vector-nonfinite", o.feat.vec_nonfinite),
            ("multi-version", o.feat.versions),
            ("hierarchy", o.feat.hier),
            ("compaction", o.feat.compaction),
            ("tag-map", o.feat.tag_map),
            ("edge-prop-t", o.feat.route_key),
        ] {
            if on {
                rep.count(&format!("feature:{}", name));
            }
        }
        if nt && rep.samples.len() < 3 {
            rep.sample(json!({"ops": o.ops_txt, "src": o.src, "impl": o.real}));
        }
        let body = format!(
            "ops {}\nsrc   {}\nimpl  {}\nmodel {}\nspec  {}\nimport_error {:?}",
            o.ops_txt, o.src, o.real, m, s, o.import_err
        );
        // the header announces what the body holds
        if let (Some((hn, he)), true) = (o.header_counts, s == "ok" && o.import_err.is_none()) {
            if hn as usize != o.src_nodes || he as usize != o.src_edges {
                rep.count("spec_violation:export-header-count");
                rep.spec_violation(
                    &known,
                    "export-header-count",
                    &format!("the export header announces {} nodes / {} relationships, the graph has {} / {} (`{}`)", hn, he, o.src_nodes, o.src_edges, &o.ops_txt[..o.ops_txt.len().min(300)]),
                    &body,
                );
                continue;
            }
        }
        // an export that cannot be imported, a failing export, a panic: violations by themselves
        let spec_ok = s == "ok" && o.import_err.is_none() && !o.src.is_empty() && o.dst.is_some();
        if spec_ok && (s2 != "ok" || o.gen2_err.is_some()) {
            let sig = format!("second-generation:{}", if o.gen2_err.is_some() { "error".to_string() } else { signature(o, s2) });
            rep.count(&format!("spec_violation:{}", sig));
            rep.spec_violation(
                &known,
                &sig,
                &format!("export→import→export→import does not reproduce the graph ({}; {:?}) for `{}`", s2, o.gen2_err, o.ops_txt),
                &format!("{}\ngen2  {:?}\nspec2 {}", body, o.dst2, s2),
            );
            continue;
        }
        if spec_ok {
            rep.count("second-generation-checked");
        }
        if !spec_ok {
            let sig = signature(o, s);
            rep.count(&format!("spec_violation:{}", sig));
            rep.spec_violation(
                &known,
                &sig,
                &format!("export→import does not reproduce the graph ({}; {}) for `{}`", s, o.import_err.clone().unwrap_or_default(), o.ops_txt),
                &body,
            );
            continue;
        }
        // R vs M: the imported store and the stats; and the exported lines
        let want = o.real.clone();
        let model_cmp = {
            // compare stores without counters / history column
            let mut it = m.splitn(3, ' ');
            let (st, dump, stats) = (it.next().unwrap_or(""), it.next().unwrap_or(""), it.next().unwrap_or(""));
            format!("{} {} {}", st, comparable(dump), stats)
        };
        let real_cmp = {
            let mut it = want.splitn(3, ' ');
            let (st, dump, stats) = (it.next().unwrap_or(""), it.next().unwrap_or(""), it.next().unwrap_or(""));
            format!("{} {} {}", st, comparable(dump), stats)
        };
        if model_cmp != real_cmp {
            rep.count("model_mismatch:import");
            if first_break.is_none() {
                first_break = Some(("SgModel.SnapJson.importLines ∘ exportLines = import_tenant ∘ export_tenant (store dump)".into(), body.clone()));
            }
        } else if let Some(l) = &o.lines {
            if *ex != format!("ok {}", l) {
                rep.count("model_mismatch:export");
                if first_break.is_none() {
                    first_break = Some((
                        "SgModel.SnapJson.exportLines = export_tenant (body lines)".into(),
                        format!("{}\nexport impl  {}\nexport model {}", body, l, ex),
                    ));
                }
            }
        }
    }
    if let Some((name, body)) = first_break {
        if rep.spec_violations.is_empty() {
            rep.correspondence_break(&name, "model and implementation differ although the specification holds on every explored case", &body);
        }
    }
    rep.write(&args.out);
}
