// temporary probe (uniqvec): run Cypher statements given on the command line (one per arg;
// args starting with '?' are read queries) and print Ok/Err + rows.
use samyama::graph::GraphStore;
use samyama::query::QueryEngine;

fn main() {
    let eng = QueryEngine::new();
    let mut store = GraphStore::new();
    for a in std::env::args().skip(1) {
        if a == "--" {
            println!("---- new store");
            store = GraphStore::new();
            continue;
        }
        if let Some(q) = a.strip_prefix("!stub ") {
            // !stub <int> : stub node labelled L with column-only k = int
            let v: i64 = q.trim().parse().unwrap();
            let id = store.create_node_stub("L");
            store.set_column_property(id, "k", samyama::graph::PropertyValue::Integer(v));
            println!("stub {:?}", id);
            continue;
        }
        let r = std::panic::catch_unwind(std::panic::AssertUnwindSafe(|| {
            if let Some(q) = a.strip_prefix('?') {
                eng.execute(q, &store).map_err(|e| e.to_string())
            } else {
                eng.execute_mut(&a, &mut store, "default").map_err(|e| e.to_string())
            }
        }));
        match r {
            Ok(Ok(b)) => {
                println!("OK  {}  cols={:?}", a, b.columns);
                for rec in &b.records {
                    let row: Vec<String> = b.columns.iter().map(|c| format!("{:?}", rec.get(c))).collect();
                    println!("      {}", row.join(" | "));
                }
            }
            Ok(Err(e)) => println!("ERR {}  => {}", a, e),
            Err(_) => println!("PANIC {}", a),
        }
    }
}
