//! Shared by c04 / c05 / c35: driving the real Cypher engine (`parse_query` +
//! `MutQueryExecutor`) and dumping the whole store in the canonical text the Lean driver
//! `drv_cyw` speaks.
//!
//! Value text (no spaces anywhere):
//!   N | T | F | I<dec> | D<16 hex digits of the f64 bits> | S<hex of utf-8> (S- when empty)
//!   L[v,v,…] | M{k<n>:v,…}   (keys sorted)
//! Graph dump:  `<node>;<node>;…|<rel>;<rel>;…`  (or `-` for an empty part)
//!   node = <id>:<l.l.…|->:<prop,prop|->      prop = <keyid>=<value>
//!   rel  = <id>:<src>:<tgt>:<typeid>:<prop,prop|->
//! Names: labels `L<n>`, relationship types `T<n>`, property keys `k<n>`, variables `v<n>`,
//! parameters `p<n>`; the dump shows only the numbers.  Anything else found in the store
//! (a label that is not `L<n>` …) is rendered as id 999 so that it never compares equal.
#![allow(dead_code)]
use samyama::graph::{GraphStore, PropertyValue};
use samyama::query::executor::record::{RecordBatch, Value};
use samyama::query::executor::MutQueryExecutor;
use samyama::query::parser::parse_query;
use std::collections::HashMap;

pub fn num_suffix(s: &str, prefix: char) -> u64 {
    let mut cs = s.chars();
    if cs.next() == Some(prefix) {
        cs.as_str().parse().unwrap_or(999)
    } else {
        999
    }
}

pub fn hex_str(s: &str) -> String {
    if s.is_empty() {
        return "-".into();
    }
    s.as_bytes().iter().map(|b| format!("{:02x}", b)).collect()
}

pub fn pv_text(v: &PropertyValue) -> String {
    match v {
        PropertyValue::Null => "N".into(),
        PropertyValue::Boolean(true) => "T".into(),
        PropertyValue::Boolean(false) => "F".into(),
        PropertyValue::Integer(i) => format!("I{}", i),
        PropertyValue::Float(f) => format!("D{:016x}", f.to_bits()),
        PropertyValue::String(s) => format!("S{}", hex_str(s)),
        PropertyValue::Array(a) => format!("L[{}]", a.iter().map(pv_text).collect::<Vec<_>>().join(",")),
        PropertyValue::Map(m) => {
            let mut es: Vec<(u64, String)> = m.iter().map(|(k, v)| (num_suffix(k, 'k'), pv_text(v))).collect();
            es.sort();
            format!("M{{{}}}", es.iter().map(|(k, v)| format!("k{}:{}", k, v)).collect::<Vec<_>>().join(","))
        }
        other => format!("X{}", hex_str(&format!("{:?}", other))),
    }
}

pub fn value_text(v: &Value) -> String {
    match v {
        Value::Null => "N".into(),
        Value::Property(p) => pv_text(p),
        Value::List(l) => format!("L[{}]", l.iter().map(value_text).collect::<Vec<_>>().join(",")),
        Value::Map(m) => {
            let mut es: Vec<(u64, String)> = m.iter().map(|(k, v)| (num_suffix(k, 'k'), value_text(v))).collect();
            es.sort();
            format!("M{{{}}}", es.iter().map(|(k, v)| format!("k{}:{}", k, v)).collect::<Vec<_>>().join(","))
        }
        Value::Node(id, _) | Value::NodeRef(id) => format!("n{}", id.as_u64()),
        Value::Edge(id, _) => format!("r{}", id.as_u64()),
        Value::EdgeRef(id, ..) => format!("r{}", id.as_u64()),
        Value::Path { .. } => "P".into(),
    }
}

fn props_text(props: &HashMap<String, PropertyValue>) -> String {
    let mut es: Vec<(u64, String)> = props
        .iter()
        .filter(|(_, v)| !matches!(v, PropertyValue::Null))
        .map(|(k, v)| (num_suffix(k, 'k'), pv_text(v)))
        .collect();
    if es.is_empty() {
        return "-".into();
    }
    es.sort();
    es.iter().map(|(k, v)| format!("{}={}", k, v)).collect::<Vec<_>>().join(",")
}

/// Full dump of the logical graph.  Node properties are read through
/// `node_properties_full` (columns + row map, what queries see); a property holding
/// `null` is the same as an absent one (openCypher) and is not listed.
pub fn dump(store: &GraphStore) -> String {
    let mut nodes: Vec<(u64, String)> = store
        .all_nodes()
        .iter()
        .map(|n| {
            let mut ls: Vec<u64> = n.labels.iter().map(|l| num_suffix(l.as_str(), 'L')).collect();
            ls.sort();
            let lt = if ls.is_empty() { "-".to_string() } else { ls.iter().map(|x| x.to_string()).collect::<Vec<_>>().join(".") };
            let props = store.node_properties_full(n.id);
            (n.id.as_u64(), format!("{}:{}:{}", n.id.as_u64(), lt, props_text(&props)))
        })
        .collect();
    nodes.sort();
    let edge_text = |e: &samyama::graph::Edge| {
        let props: HashMap<String, PropertyValue> = e.properties.iter().map(|(k, v)| (k.clone(), v.clone())).collect();
        (e.id.as_u64(), format!("{}:{}:{}:{}:{}", e.id.as_u64(), e.source.as_u64(), e.target.as_u64(), num_suffix(e.edge_type.as_str(), 'T'), props_text(&props)))
    };
    // Relationships are listed through the ADJACENCY API of every node (outgoing lists); the incoming lists and
    // the edge table must tell the same story.  A relationship missing from one of the views, or a phantom one,
    // is listed with a marker type (9001 edge table only / not in outgoing adjacency, 9002 differs in the
    // incoming adjacency) so that it never compares equal to the reference.
    let mut out_view: Vec<(u64, String)> = vec![];
    let mut in_view: Vec<(u64, String)> = vec![];
    for n in store.all_nodes() {
        out_view.extend(store.get_outgoing_edges(n.id).iter().map(|e| edge_text(e)));
        in_view.extend(store.get_incoming_edges(n.id).iter().map(|e| edge_text(e)));
    }
    let mut tab_view: Vec<(u64, String)> = store.all_edges().iter().map(|e| edge_text(e)).collect();
    out_view.sort();
    in_view.sort();
    tab_view.sort();
    let mut marked: Vec<(u64, String)> = vec![];
    if out_view != tab_view {
        for x in tab_view.iter().filter(|x| !out_view.contains(x)) {
            marked.push((x.0, format!("{}:0:0:9001:-", x.0)));
        }
        for x in out_view.iter().filter(|x| !tab_view.contains(x)) {
            marked.push((x.0, format!("{}:0:0:9001:-", x.0)));
        }
    }
    if in_view != out_view {
        for x in in_view.iter().filter(|x| !out_view.contains(x)).chain(out_view.iter().filter(|x| !in_view.contains(x))) {
            marked.push((x.0, format!("{}:0:0:9002:-", x.0)));
        }
    }
    let mut rels: Vec<(u64, String)> = out_view.clone();
    rels.extend(marked);
    let _unused: Vec<(u64, String)> = store
        .all_edges()
        .iter()
        .map(|e| {
            let props: HashMap<String, PropertyValue> = e.properties.iter().map(|(k, v)| (k.clone(), v.clone())).collect();
            (
                e.id.as_u64(),
                format!(
                    "{}:{}:{}:{}:{}",
                    e.id.as_u64(),
                    e.source.as_u64(),
                    e.target.as_u64(),
                    num_suffix(e.edge_type.as_str(), 'T'),
                    props_text(&props)
                ),
            )
        })
        .collect();
    rels.sort();
    let j = |v: &Vec<(u64, String)>| if v.is_empty() { "-".to_string() } else { v.iter().map(|x| x.1.clone()).collect::<Vec<_>>().join(";") };
    format!("{}|{}", j(&nodes), j(&rels))
}

#[derive(Clone, Debug, PartialEq, Eq)]
pub enum ErrKind {
    Parse,
    Div0,
    Type,
    Constraint,
    Param,
    Other,
}

impl ErrKind {
    pub fn tag(&self) -> &'static str {
        match self {
            ErrKind::Parse => "parse",
            ErrKind::Div0 => "div0",
            ErrKind::Type => "type",
            ErrKind::Constraint => "constraint",
            ErrKind::Param => "param",
            ErrKind::Other => "other",
        }
    }
}

pub fn classify(msg: &str) -> ErrKind {
    let m = msg.to_lowercase();
    if m.contains("division by zero") || m.contains("divide by zero") || m.contains("modulo by zero") {
        ErrKind::Div0
    } else if m.contains("unresolved parameter") {
        ErrKind::Param
    } else if m.contains("constraint") || m.contains("still has relationships") || m.contains("already has value") {
        ErrKind::Constraint
    } else if m.contains("type error") || m.contains("typeerror") || m.contains("expects") || m.contains("must be") || m.contains("cannot") {
        ErrKind::Type
    } else {
        ErrKind::Other
    }
}

pub struct Outcome {
    /// Ok(rows) — each row the values of the result columns in order, rendered — or the error
    pub rows: Result<Vec<Vec<String>>, (ErrKind, String)>,
    pub columns: Vec<String>,
}

pub fn batch_rows(b: &RecordBatch) -> Vec<Vec<String>> {
    b.records
        .iter()
        .map(|r| b.columns.iter().map(|c| r.get(c).map(value_text).unwrap_or_else(|| "?".into())).collect())
        .collect()
}

/// parse + MutQueryExecutor (the path `QueryEngine::execute_mut` takes, minus the cache),
/// panics caught and reported as `Other`
pub fn exec(store: &mut GraphStore, text: &str, params: Option<&HashMap<String, PropertyValue>>) -> Outcome {
    let q = match parse_query(text) {
        Ok(q) => q,
        Err(e) => return Outcome { rows: Err((ErrKind::Parse, format!("{}", e))), columns: vec![] },
    };
    static QUIET: std::sync::Once = std::sync::Once::new();
    QUIET.call_once(|| std::panic::set_hook(Box::new(|_| {})));
    let r = std::panic::catch_unwind(std::panic::AssertUnwindSafe(|| {
        let mut ex = MutQueryExecutor::new(store, "default".to_string());
        if let Some(p) = params {
            ex = ex.with_params(p.clone());
        }
        ex.execute(&q)
    }));
    match r {
        Ok(Ok(b)) => Outcome { rows: Ok(batch_rows(&b)), columns: b.columns.clone() },
        Ok(Err(e)) => {
            let m = format!("{}", e);
            Outcome { rows: Err((classify(&m), m)), columns: vec![] }
        }
        Err(_) => Outcome { rows: Err((ErrKind::Other, "panic".into())), columns: vec![] },
    }
}

/// the read-only path: parse + `QueryExecutor` (what `QueryEngine::execute` takes)
pub fn exec_read(store: &GraphStore, text: &str, params: Option<&HashMap<String, PropertyValue>>) -> Outcome {
    let q = match parse_query(text) {
        Ok(q) => q,
        Err(e) => return Outcome { rows: Err((ErrKind::Parse, format!("{}", e))), columns: vec![] },
    };
    static QUIET: std::sync::Once = std::sync::Once::new();
    QUIET.call_once(|| std::panic::set_hook(Box::new(|_| {})));
    let r = std::panic::catch_unwind(std::panic::AssertUnwindSafe(|| {
        let mut ex = samyama::query::executor::QueryExecutor::new(store);
        if let Some(p) = params {
            ex = ex.with_params(p.clone());
        }
        ex.execute(&q)
    }));
    match r {
        Ok(Ok(b)) => Outcome { rows: Ok(batch_rows(&b)), columns: b.columns.clone() },
        Ok(Err(e)) => {
            let m = format!("{}", e);
            Outcome { rows: Err((classify(&m), m)), columns: vec![] }
        }
        Err(_) => Outcome { rows: Err((ErrKind::Other, "panic".into())), columns: vec![] },
    }
}

/// sorted bag of rows as one token: `row/row/…` with row = `v,v,…`; `-` for no rows,
/// `_` for a row without columns
pub fn rows_text(rows: &[Vec<String>]) -> String {
    if rows.is_empty() {
        return "-".into();
    }
    let mut rs: Vec<String> = rows.iter().map(|r| if r.is_empty() { "_".to_string() } else { r.join(",") }).collect();
    rs.sort();
    rs.join("/")
}

/// probe mode: one Cypher statement per line (`#` comments, `!reset` starts a fresh store,
/// `!param p0=<value text>` sets a parameter for the following statements)
pub fn probe(path: &str) {
    let mut store = GraphStore::new();
    let mut params: HashMap<String, PropertyValue> = HashMap::new();
    for line in std::fs::read_to_string(path).expect("probe file").lines() {
        let line = line.trim();
        if line.is_empty() || line.starts_with('#') {
            println!("{}", line);
            continue;
        }
        if line == "!reset" {
            store = GraphStore::new();
            params.clear();
            println!("--- reset");
            continue;
        }
        if let Some(rest) = line.strip_prefix("!param ") {
            let (k, v) = rest.split_once('=').unwrap();
            params.insert(k.to_string(), parse_pv(v).expect("value"));
            continue;
        }
        let o = exec(&mut store, line, if params.is_empty() { None } else { Some(&params) });
        println!("> {}", line);
        match &o.rows {
            Ok(rows) => println!("  ok cols={:?} rows={}", o.columns, rows_text(rows)),
            Err((k, m)) => println!("  ERR[{}] {}", k.tag(), m),
        }
        println!("  dump {}", dump(&store));
    }
}

/// value text → PropertyValue (the inverse of `pv_text` on the classes the harness uses)
pub fn parse_pv(s: &str) -> Option<PropertyValue> {
    let (v, rest) = parse_pv_prefix(s)?;
    if rest.is_empty() {
        Some(v)
    } else {
        None
    }
}

fn parse_pv_prefix(s: &str) -> Option<(PropertyValue, &str)> {
    let c = s.chars().next()?;
    let r = &s[1..];
    match c {
        'N' => Some((PropertyValue::Null, r)),
        'T' => Some((PropertyValue::Boolean(true), r)),
        'F' => Some((PropertyValue::Boolean(false), r)),
        'I' => {
            let end = r.char_indices().find(|(i, ch)| !(ch.is_ascii_digit() || (*i == 0 && *ch == '-'))).map(|x| x.0).unwrap_or(r.len());
            Some((PropertyValue::Integer(r[..end].parse().ok()?), &r[end..]))
        }
        'D' => {
            let bits = u64::from_str_radix(r.get(..16)?, 16).ok()?;
            Some((PropertyValue::Float(f64::from_bits(bits)), &r[16..]))
        }
        'S' => {
            if let Some(rest) = r.strip_prefix('-') {
                return Some((PropertyValue::String(String::new()), rest));
            }
            let end = r.char_indices().find(|(_, ch)| !ch.is_ascii_hexdigit()).map(|x| x.0).unwrap_or(r.len());
            let bytes = vharness::util::unhex(&r[..end])?;
            Some((PropertyValue::String(String::from_utf8(bytes).ok()?), &r[end..]))
        }
        'L' => {
            let mut r = r.strip_prefix('[')?;
            let mut out = vec![];
            if let Some(rest) = r.strip_prefix(']') {
                return Some((PropertyValue::Array(out), rest));
            }
            loop {
                let (v, rest) = parse_pv_prefix(r)?;
                out.push(v);
                if let Some(rest) = rest.strip_prefix(',') {
                    r = rest;
                } else {
                    return Some((PropertyValue::Array(out), rest.strip_prefix(']')?));
                }
            }
        }
        'M' => {
            let mut r = r.strip_prefix('{')?;
            let mut out = HashMap::new();
            if let Some(rest) = r.strip_prefix('}') {
                return Some((PropertyValue::Map(out), rest));
            }
            loop {
                let (k, rest) = r.split_once(':')?;
                let (v, rest) = parse_pv_prefix(rest)?;
                out.insert(k.to_string(), v);
                if let Some(rest) = rest.strip_prefix(',') {
                    r = rest;
                } else {
                    return Some((PropertyValue::Map(out), rest.strip_prefix('}')?));
                }
            }
        }
        _ => None,
    }
}

// ---------------------------------------------------------------------------------------
// Statement AST shared by the generators: rendered as Cypher text for the engine and as the
// driver's term syntax for the Lean model.
// ---------------------------------------------------------------------------------------

#[derive(Clone, Debug)]
pub enum Ex {
    Lit(PropertyValue),
    Var(u32),
    Prop(u32, u32),
    Param(u32),
    List(Vec<Ex>),
    Map(Vec<(u32, Ex)>),
    Un(&'static str, Box<Ex>),
    Bin(&'static str, Box<Ex>, Box<Ex>),
    Ite(Box<Ex>, Box<Ex>, Box<Ex>),
    Idx(Box<Ex>, Box<Ex>),
    Comp(u32, Box<Ex>, Box<Ex>, Box<Ex>),
}

pub fn int(i: i64) -> Ex {
    Ex::Lit(PropertyValue::Integer(i))
}
pub fn bin(op: &'static str, a: Ex, b: Ex) -> Ex {
    Ex::Bin(op, Box::new(a), Box::new(b))
}

/// a value written as a Cypher literal
pub fn lit_cypher(v: &PropertyValue) -> String {
    match v {
        PropertyValue::Null => "null".into(),
        PropertyValue::Boolean(b) => b.to_string(),
        PropertyValue::Integer(i) => i.to_string(),
        PropertyValue::Float(f) => format!("{:?}", f),
        PropertyValue::String(s) => {
            let mut o = String::from("'");
            for c in s.chars() {
                match c {
                    '\'' => o.push_str("\\'"),
                    '\\' => o.push_str("\\\\"),
                    c => o.push(c),
                }
            }
            o.push('\'');
            o
        }
        PropertyValue::Array(a) => format!("[{}]", a.iter().map(lit_cypher).collect::<Vec<_>>().join(", ")),
        PropertyValue::Map(m) => {
            let mut es: Vec<(u64, String)> = m.iter().map(|(k, v)| (num_suffix(k, 'k'), lit_cypher(v))).collect();
            es.sort();
            format!("{{{}}}", es.iter().map(|(k, v)| format!("k{}: {}", k, v)).collect::<Vec<_>>().join(", "))
        }
        other => format!("{:?}", other),
    }
}

fn bin_cy(op: &str) -> &'static str {
    match op {
        "add" => "+",
        "sub" => "-",
        "mul" => "*",
        "div" => "/",
        "mod" => "%",
        "eq" => "=",
        "ne" => "<>",
        "lt" => "<",
        "le" => "<=",
        "gt" => ">",
        "ge" => ">=",
        "and" => "AND",
        "or" => "OR",
        "xor" => "XOR",
        "in" => "IN",
        _ => "?",
    }
}

impl Ex {
    pub fn cypher(&self) -> String {
        match self {
            Ex::Lit(v) => lit_cypher(v),
            Ex::Var(x) => format!("v{}", x),
            Ex::Prop(x, k) => format!("v{}.k{}", x, k),
            Ex::Param(p) => format!("$p{}", p),
            Ex::List(es) => format!("[{}]", es.iter().map(|e| e.cypher()).collect::<Vec<_>>().join(", ")),
            Ex::Map(es) => format!("{{{}}}", es.iter().map(|(k, e)| format!("k{}: {}", k, e.cypher())).collect::<Vec<_>>().join(", ")),
            Ex::Un(op, a) => match *op {
                "not" => format!("NOT ({})", a.cypher()),
                "neg" => format!("-({})", a.cypher()),
                "isnull" => format!("({}) IS NULL", a.cypher()),
                _ => format!("({}) IS NOT NULL", a.cypher()),
            },
            Ex::Bin(op, a, b) if *op == "coalesce" => format!("coalesce({}, {})", a.cypher(), b.cypher()),
            Ex::Bin(op, a, b) => format!("({} {} {})", a.cypher(), bin_cy(op), b.cypher()),
            Ex::Ite(c, t, e) => format!("CASE WHEN {} THEN {} ELSE {} END", c.cypher(), t.cypher(), e.cypher()),
            Ex::Idx(a, i) => format!("({})[{}]", a.cypher(), i.cypher()),
            Ex::Comp(x, l, f, m) => format!("[v{} IN {} WHERE {} | {}]", x, l.cypher(), f.cypher(), m.cypher()),
        }
    }
    pub fn model(&self) -> String {
        match self {
            Ex::Lit(v) => format!("#{}", pv_text(v)),
            Ex::Var(x) => format!("v{}", x),
            Ex::Prop(x, k) => format!("v{}.k{}", x, k),
            Ex::Param(p) => format!("${}", p),
            Ex::List(es) => format!("[{}]", es.iter().map(|e| e.model()).collect::<Vec<_>>().join(",")),
            Ex::Map(es) => format!("{{{}}}", es.iter().map(|(k, e)| format!("k{}:{}", k, e.model())).collect::<Vec<_>>().join(",")),
            Ex::Un(op, a) => format!("{}({})", op, a.model()),
            Ex::Bin(op, a, b) => format!("{}({},{})", op, a.model(), b.model()),
            Ex::Ite(c, t, e) => format!("ite({},{},{})", c.model(), t.model(), e.model()),
            Ex::Idx(a, i) => format!("idx({},{})", a.model(), i.model()),
            Ex::Comp(x, l, f, m) => format!("comp(v{},{},{},{})", x, l.model(), f.model(), m.model()),
        }
    }
    pub fn has_param(&self) -> bool {
        match self {
            Ex::Param(_) => true,
            Ex::Lit(_) | Ex::Var(_) | Ex::Prop(..) => false,
            Ex::List(es) => es.iter().any(|e| e.has_param()),
            Ex::Map(es) => es.iter().any(|(_, e)| e.has_param()),
            Ex::Un(_, a) => a.has_param(),
            Ex::Bin(_, a, b) | Ex::Idx(a, b) => a.has_param() || b.has_param(),
            Ex::Ite(a, b, c) => a.has_param() || b.has_param() || c.has_param(),
            Ex::Comp(_, a, b, c) => a.has_param() || b.has_param() || c.has_param(),
        }
    }
    pub fn is_lit(&self) -> bool {
        matches!(self, Ex::Lit(_))
    }
    /// every parameter replaced by its value written as a literal
    pub fn inline(&self, ps: &HashMap<u32, PropertyValue>) -> Ex {
        let b = |e: &Ex| Box::new(e.inline(ps));
        match self {
            Ex::Param(p) => match ps.get(p) {
                Some(v) => Ex::Lit(v.clone()),
                None => Ex::Param(*p),
            },
            Ex::Lit(_) | Ex::Var(_) | Ex::Prop(..) => self.clone(),
            Ex::List(es) => Ex::List(es.iter().map(|e| e.inline(ps)).collect()),
            Ex::Map(es) => Ex::Map(es.iter().map(|(k, e)| (*k, e.inline(ps))).collect()),
            Ex::Un(op, a) => Ex::Un(op, b(a)),
            Ex::Bin(op, a, c) => Ex::Bin(op, b(a), b(c)),
            Ex::Ite(a, c, d) => Ex::Ite(b(a), b(c), b(d)),
            Ex::Idx(a, c) => Ex::Idx(b(a), b(c)),
            Ex::Comp(x, a, c, d) => Ex::Comp(*x, b(a), b(c), b(d)),
        }
    }
}

#[derive(Clone, Debug)]
pub struct NPat {
    pub var: Option<u32>,
    pub labels: Vec<u32>,
    pub props: Vec<(u32, Ex)>,
}

#[derive(Clone, Debug)]
pub struct CPath {
    pub a: NPat,
    /// (type, properties, outgoing?, other end)
    pub seg: Option<(u32, Vec<(u32, Ex)>, bool, NPat)>,
}

#[derive(Clone, Debug)]
pub enum SetItem {
    Prop(u32, u32, Ex),
    All(u32, Ex),
    MAdd(u32, Ex),
    Label(u32, u32),
}

#[derive(Clone, Debug)]
pub enum RemItem {
    Prop(u32, u32),
    Label(u32, u32),
}

#[derive(Clone, Debug)]
pub enum Cl {
    Unwind(Ex, u32),
    MatchN(u32, Vec<u32>, Vec<(u32, Ex)>),
    MatchR(u32, Vec<u32>, u32, u32, u32, Vec<u32>),
    /// the same pattern written from the other end: MATCH (b)<-[r:T]-(a)
    MatchRRev(u32, Vec<u32>, u32, u32, u32, Vec<u32>),
    Filter(Ex),
    With(Vec<u32>, Vec<(u32, Ex)>),
    Create(Vec<CPath>),
    /// CREATE of ONE comma-free path: nodes n0..nL and L relationships (type, literal properties, outgoing?).
    /// A variable that recurs at a later position is written bare there; for the model the chain is the
    /// equivalent list of single-relationship paths (a recurring / already declared variable is a reference).
    CreateChain(Vec<NPat>, Vec<(u32, Vec<(u32, Ex)>, bool)>),
    Merge(NPat, Vec<SetItem>, Vec<SetItem>),
    /// MERGE (a)-[:T]->(b) with both ends unbound pattern nodes
    MergeRel(NPat, u32, NPat),
    /// the same with ON CREATE SET / ON MATCH SET items (the model term drops the items: not modelled)
    MergeRelOn(NPat, u32, NPat, Vec<SetItem>, Vec<SetItem>),
    Set(Vec<SetItem>),
    Remove(Vec<RemItem>),
    Delete(bool, Vec<u32>),
}

#[derive(Clone, Debug)]
pub struct St {
    pub cls: Vec<Cl>,
    pub ret: Option<Vec<Ex>>,
}

fn props_cy(ps: &[(u32, Ex)]) -> String {
    if ps.is_empty() {
        String::new()
    } else {
        format!(" {{{}}}", ps.iter().map(|(k, e)| format!("k{}: {}", k, e.cypher())).collect::<Vec<_>>().join(", "))
    }
}
fn props_m(ps: &[(u32, Ex)]) -> String {
    format!("{{{}}}", ps.iter().map(|(k, e)| format!("k{}:{}", k, e.model())).collect::<Vec<_>>().join(","))
}
fn labels_cy(ls: &[u32]) -> String {
    ls.iter().map(|l| format!(":L{}", l)).collect()
}
fn labels_m(ls: &[u32]) -> String {
    format!("[{}]", ls.iter().map(|l| l.to_string()).collect::<Vec<_>>().join(","))
}

impl NPat {
    pub fn cypher(&self) -> String {
        format!("({}{}{})", self.var.map(|v| format!("v{}", v)).unwrap_or_default(), labels_cy(&self.labels), props_cy(&self.props))
    }
    pub fn model(&self) -> String {
        format!("({},{},{})", self.var.map(|v| format!("v{}", v)).unwrap_or("_".into()), labels_m(&self.labels), props_m(&self.props))
    }
}

impl SetItem {
    pub fn cypher(&self) -> String {
        match self {
            SetItem::Prop(x, k, e) => format!("v{}.k{} = {}", x, k, e.cypher()),
            SetItem::All(x, e) => format!("v{} = {}", x, e.cypher()),
            SetItem::MAdd(x, e) => format!("v{} += {}", x, e.cypher()),
            SetItem::Label(x, l) => format!("v{}:L{}", x, l),
        }
    }
    pub fn model(&self) -> String {
        match self {
            SetItem::Prop(x, k, e) => format!("p(v{},k{},{})", x, k, e.model()),
            SetItem::All(x, e) => format!("a(v{},{})", x, e.model()),
            SetItem::MAdd(x, e) => format!("m(v{},{})", x, e.model()),
            SetItem::Label(x, l) => format!("l(v{},{})", x, l),
        }
    }
}

impl Cl {
    pub fn is_write(&self) -> bool {
        matches!(self, Cl::Create(_) | Cl::CreateChain(..) | Cl::Merge(..) | Cl::MergeRel(..) | Cl::MergeRelOn(..) | Cl::Set(_) | Cl::Remove(_) | Cl::Delete(..))
    }
    pub fn kind(&self) -> &'static str {
        match self {
            Cl::Unwind(..) => "unwind",
            Cl::MatchN(..) => "match",
            Cl::MatchR(..) => "matchrel",
            Cl::MatchRRev(..) => "matchrelrev",
            Cl::Filter(_) => "where",
            Cl::With(..) => "with",
            Cl::Create(_) => "create",
            Cl::CreateChain(..) => "createchain",
            Cl::Merge(..) => "merge",
            Cl::MergeRel(..) => "mergerel",
            Cl::MergeRelOn(..) => "mergerelon",
            Cl::Set(_) => "set",
            Cl::Remove(_) => "remove",
            Cl::Delete(false, _) => "delete",
            Cl::Delete(true, _) => "detachdelete",
        }
    }
    pub fn cypher(&self) -> String {
        match self {
            Cl::Unwind(e, x) => format!("UNWIND {} AS v{}", e.cypher(), x),
            Cl::MatchN(x, ls, ps) => format!("MATCH (v{}{}{})", x, labels_cy(ls), props_cy(ps)),
            Cl::MatchR(a, la, r, ty, b, lb) => format!("MATCH (v{}{})-[v{}{}]->(v{}{})", a, labels_cy(la), r, if *ty == 999 { String::new() } else { format!(":T{}", ty) }, b, labels_cy(lb)),
            Cl::MatchRRev(a, la, r, ty, b, lb) => format!("MATCH (v{}{})<-[v{}{}]-(v{}{})", b, labels_cy(lb), r, if *ty == 999 { String::new() } else { format!(":T{}", ty) }, a, labels_cy(la)),
            Cl::Filter(e) => format!("WHERE {}", e.cypher()),
            Cl::With(keep, items) => {
                let mut parts: Vec<String> = keep.iter().map(|v| format!("v{}", v)).collect();
                parts.extend(items.iter().map(|(x, e)| format!("{} AS v{}", e.cypher(), x)));
                format!("WITH {}", parts.join(", "))
            }
            Cl::Create(paths) => format!(
                "CREATE {}",
                paths
                    .iter()
                    .map(|p| match &p.seg {
                        None => p.a.cypher(),
                        Some((ty, ps, true, b)) => format!("{}-[:T{}{}]->{}", p.a.cypher(), ty, props_cy(ps), b.cypher()),
                        Some((ty, ps, false, b)) => format!("{}<-[:T{}{}]-{}", p.a.cypher(), ty, props_cy(ps), b.cypher()),
                    })
                    .collect::<Vec<_>>()
                    .join(", ")
            ),
            Cl::CreateChain(nodes, rels) => {
                let mut s = format!("CREATE {}", nodes[0].cypher());
                for (i, (ty, ps, out)) in rels.iter().enumerate() {
                    if *out {
                        s.push_str(&format!("-[:T{}{}]->{}", ty, props_cy(ps), nodes[i + 1].cypher()));
                    } else {
                        s.push_str(&format!("<-[:T{}{}]-{}", ty, props_cy(ps), nodes[i + 1].cypher()));
                    }
                }
                s
            }
            Cl::Merge(p, oc, om) => {
                let mut s = format!("MERGE {}", p.cypher());
                if !oc.is_empty() {
                    s.push_str(&format!(" ON CREATE SET {}", oc.iter().map(|i| i.cypher()).collect::<Vec<_>>().join(", ")));
                }
                if !om.is_empty() {
                    s.push_str(&format!(" ON MATCH SET {}", om.iter().map(|i| i.cypher()).collect::<Vec<_>>().join(", ")));
                }
                s
            }
            Cl::MergeRel(a, ty, b) => format!("MERGE {}-[:T{}]->{}", a.cypher(), ty, b.cypher()),
            Cl::MergeRelOn(a, ty, b, oc, om) => {
                let mut s = format!("MERGE {}-[:T{}]->{}", a.cypher(), ty, b.cypher());
                if !oc.is_empty() {
                    s.push_str(&format!(" ON CREATE SET {}", oc.iter().map(|i| i.cypher()).collect::<Vec<_>>().join(", ")));
                }
                if !om.is_empty() {
                    s.push_str(&format!(" ON MATCH SET {}", om.iter().map(|i| i.cypher()).collect::<Vec<_>>().join(", ")));
                }
                s
            }
            Cl::Set(items) => format!("SET {}", items.iter().map(|i| i.cypher()).collect::<Vec<_>>().join(", ")),
            Cl::Remove(items) => format!(
                "REMOVE {}",
                items
                    .iter()
                    .map(|i| match i {
                        RemItem::Prop(x, k) => format!("v{}.k{}", x, k),
                        RemItem::Label(x, l) => format!("v{}:L{}", x, l),
                    })
                    .collect::<Vec<_>>()
                    .join(", ")
            ),
            Cl::Delete(d, xs) => format!("{}DELETE {}", if *d { "DETACH " } else { "" }, xs.iter().map(|x| format!("v{}", x)).collect::<Vec<_>>().join(", ")),
        }
    }
    pub fn model(&self) -> String {
        match self {
            Cl::Unwind(e, x) => format!("U({},v{})", e.model(), x),
            Cl::MatchN(x, ls, ps) => format!("MN(v{},{},{})", x, labels_m(ls), props_m(ps)),
            Cl::MatchR(a, la, r, ty, b, lb) | Cl::MatchRRev(a, la, r, ty, b, lb) => format!("MR(v{},{},v{},{},v{},{})", a, labels_m(la), r, ty, b, labels_m(lb)),
            Cl::Filter(e) => format!("W({})", e.model()),
            Cl::With(keep, items) => format!(
                "WI([{}],{{{}}})",
                keep.iter().map(|v| format!("v{}", v)).collect::<Vec<_>>().join(","),
                items.iter().map(|(x, e)| format!("v{}:{}", x, e.model())).collect::<Vec<_>>().join(",")
            ),
            Cl::Create(paths) => format!(
                "C({})",
                paths
                    .iter()
                    .map(|p| match &p.seg {
                        None => p.a.model(),
                        Some((ty, ps, true, b)) => format!("{}>{}{}>{}", p.a.model(), ty, props_m(ps), b.model()),
                        Some((ty, ps, false, b)) => format!("{}<{}{}<{}", p.a.model(), ty, props_m(ps), b.model()),
                    })
                    .collect::<Vec<_>>()
                    .join(",")
            ),
            Cl::CreateChain(nodes, rels) => {
                if rels.is_empty() {
                    return format!("C({})", nodes[0].model());
                }
                // the start of every later segment is a bare reference to the node the previous one ended at
                let bare = |n: &NPat| NPat { var: n.var, labels: vec![], props: vec![] }.model();
                let parts: Vec<String> = rels
                    .iter()
                    .enumerate()
                    .map(|(i, (ty, ps, out))| {
                        let a = if i == 0 { nodes[0].model() } else { bare(&nodes[i]) };
                        format!("{}{}{}{}{}{}", a, if *out { ">" } else { "<" }, ty, props_m(ps), if *out { ">" } else { "<" }, nodes[i + 1].model())
                    })
                    .collect();
                format!("C({})", parts.join(","))
            }
            Cl::Merge(p, oc, om) => format!(
                "MG({},[{}],[{}])",
                p.model(),
                oc.iter().map(|i| i.model()).collect::<Vec<_>>().join(","),
                om.iter().map(|i| i.model()).collect::<Vec<_>>().join(",")
            ),
            Cl::MergeRel(a, ty, b) | Cl::MergeRelOn(a, ty, b, _, _) => format!("MP({},{},{})", a.model(), ty, b.model()),
            Cl::Set(items) => format!("S({})", items.iter().map(|i| i.model()).collect::<Vec<_>>().join(",")),
            Cl::Remove(items) => format!(
                "RM({})",
                items
                    .iter()
                    .map(|i| match i {
                        RemItem::Prop(x, k) => format!("p(v{},k{})", x, k),
                        RemItem::Label(x, l) => format!("l(v{},{})", x, l),
                    })
                    .collect::<Vec<_>>()
                    .join(",")
            ),
            Cl::Delete(d, xs) => format!("D({},{})", if *d { 1 } else { 0 }, xs.iter().map(|x| format!("v{}", x)).collect::<Vec<_>>().join(",")),
        }
    }
    pub fn map_exprs(&self, f: &dyn Fn(&Ex) -> Ex) -> Cl {
        let mp = |ps: &Vec<(u32, Ex)>| ps.iter().map(|(k, e)| (*k, f(e))).collect::<Vec<_>>();
        let mn = |p: &NPat| NPat { var: p.var, labels: p.labels.clone(), props: mp(&p.props) };
        let ms = |i: &SetItem| match i {
            SetItem::Prop(x, k, e) => SetItem::Prop(*x, *k, f(e)),
            SetItem::All(x, e) => SetItem::All(*x, f(e)),
            SetItem::MAdd(x, e) => SetItem::MAdd(*x, f(e)),
            SetItem::Label(x, l) => SetItem::Label(*x, *l),
        };
        match self {
            Cl::Unwind(e, x) => Cl::Unwind(f(e), *x),
            Cl::MatchN(x, ls, ps) => Cl::MatchN(*x, ls.clone(), mp(ps)),
            Cl::Filter(e) => Cl::Filter(f(e)),
            Cl::With(keep, items) => Cl::With(keep.clone(), mp(items)),
            Cl::Create(paths) => Cl::Create(
                paths
                    .iter()
                    .map(|p| CPath { a: mn(&p.a), seg: p.seg.as_ref().map(|(t, ps, o, b)| (*t, mp(ps), *o, mn(b))) })
                    .collect(),
            ),
            Cl::Merge(p, oc, om) => Cl::Merge(mn(p), oc.iter().map(ms).collect(), om.iter().map(ms).collect()),
            Cl::MergeRel(a, ty, b) => Cl::MergeRel(mn(a), *ty, mn(b)),
            Cl::Set(items) => Cl::Set(items.iter().map(ms).collect()),
            other => other.clone(),
        }
    }
}

impl St {
    pub fn cypher(&self) -> String {
        let mut parts: Vec<String> = self.cls.iter().map(|c| c.cypher()).collect();
        if let Some(items) = &self.ret {
            parts.push(format!("RETURN {}", items.iter().enumerate().map(|(i, e)| format!("{} AS c{}", e.cypher(), i)).collect::<Vec<_>>().join(", ")));
        }
        parts.join(" ")
    }
    pub fn model(&self) -> String {
        let mut s = if self.cls.is_empty() { "-".to_string() } else { self.cls.iter().map(|c| c.model()).collect::<Vec<_>>().join(";") };
        if let Some(items) = &self.ret {
            s.push_str(&format!("|R({})", items.iter().map(|e| e.model()).collect::<Vec<_>>().join(",")));
        }
        s
    }
    pub fn inline(&self, ps: &HashMap<u32, PropertyValue>) -> St {
        St { cls: self.cls.iter().map(|c| c.map_exprs(&|e| e.inline(ps))).collect(), ret: self.ret.as_ref().map(|r| r.iter().map(|e| e.inline(ps)).collect()) }
    }
    pub fn kinds(&self) -> String {
        self.cls.iter().map(|c| c.kind()).collect::<Vec<_>>().join("+")
    }
}

pub fn params_model(ps: &[(u32, PropertyValue)]) -> String {
    if ps.is_empty() {
        "-".into()
    } else {
        format!("P{{{}}}", ps.iter().map(|(k, v)| format!("{}:{}", k, pv_text(v))).collect::<Vec<_>>().join(","))
    }
}

// ---------------------------------------------------------------------------------------
// Dumps as structures, and the renaming certificate (implementation handle -> model handle)
// ---------------------------------------------------------------------------------------

#[derive(Clone, Debug, Default)]
pub struct DumpG {
    /// (id, labels text, props text)
    pub nodes: Vec<(u64, String, String)>,
    /// (id, src, tgt, type, props text)
    pub rels: Vec<(u64, u64, u64, String, String)>,
}

pub fn parse_dump(s: &str) -> Option<DumpG> {
    let (ns, rs) = s.split_once('|')?;
    let mut g = DumpG::default();
    if ns != "-" {
        for n in ns.split(';') {
            let mut it = n.splitn(3, ':');
            g.nodes.push((it.next()?.parse().ok()?, it.next()?.to_string(), it.next()?.to_string()));
        }
    }
    if rs != "-" {
        for r in rs.split(';') {
            let mut it = r.splitn(5, ':');
            g.rels.push((it.next()?.parse().ok()?, it.next()?.parse().ok()?, it.next()?.parse().ok()?, it.next()?.to_string(), it.next()?.to_string()));
        }
    }
    Some(g)
}

fn rel_bag(g: &DumpG, ren: &HashMap<u64, u64>) -> Vec<(u64, u64, String, String)> {
    let mut v: Vec<_> = g
        .rels
        .iter()
        .map(|(_, s, t, ty, p)| (*ren.get(s).unwrap_or(s), *ren.get(t).unwrap_or(t), ty.clone(), p.clone()))
        .collect();
    v.sort();
    v
}

/// a bijection implementation-node -> model-node under which the two graphs are equal
/// (node contents, relationship bag); identity is preferred.  None: not isomorphic.
pub fn find_renaming(imp: &DumpG, model: &DumpG) -> Option<Vec<(u64, u64)>> {
    find_renaming_rows(imp, model, None)
}

/// as `find_renaming`, and the renaming must also carry the implementation's rows (node
/// handles `n<id>` in them) onto the model's rows: `rows = Some((implementation rows, model rows))`
pub fn find_renaming_rows(imp: &DumpG, model: &DumpG, rows: Option<(&str, &str)>) -> Option<Vec<(u64, u64)>> {
    // nodes present under the same handle with the same content keep their handle: they are
    // placed first so that a new node never takes the place of an old look-alike
    let mut imp = imp.clone();
    imp.nodes.sort_by_key(|(id, ls, ps)| if model.nodes.iter().any(|(j, l2, p2)| j == id && l2 == ls && p2 == ps) { 0 } else { 1 });
    let imp = &imp;
    let want_rows = rows.map(|(_, m)| sort_rows_text(m));
    let rows_ok = |ren: &HashMap<u64, u64>| -> bool {
        match (&rows, &want_rows) {
            (Some((r, _)), Some(w)) => {
                let v: Vec<(u64, u64)> = ren.iter().map(|(a, b)| (*a, *b)).collect();
                &rename_rows(r, &v) == w
            }
            _ => true,
        }
    };
    find_renaming_inner(imp, model, &rows_ok)
}

fn find_renaming_inner(imp: &DumpG, model: &DumpG, rows_ok: &dyn Fn(&HashMap<u64, u64>) -> bool) -> Option<Vec<(u64, u64)>> {
    if imp.nodes.len() != model.nodes.len() || imp.rels.len() != model.rels.len() {
        return None;
    }
    let target = rel_bag(model, &HashMap::new());
    fn go(
        i: usize,
        imp: &DumpG,
        model: &DumpG,
        used: &mut Vec<bool>,
        ren: &mut HashMap<u64, u64>,
        target: &Vec<(u64, u64, String, String)>,
        budget: &mut u64,
        rows_ok: &dyn Fn(&HashMap<u64, u64>) -> bool,
    ) -> bool {
        if *budget == 0 {
            return false;
        }
        *budget -= 1;
        if i == imp.nodes.len() {
            return &rel_bag(imp, ren) == target && rows_ok(ren);
        }
        let (id, ls, ps) = &imp.nodes[i];
        // identity first
        let mut order: Vec<usize> = (0..model.nodes.len()).collect();
        order.sort_by_key(|j| if model.nodes[*j].0 == *id { 0 } else { 1 });
        for j in order {
            if used[j] || &model.nodes[j].1 != ls || &model.nodes[j].2 != ps {
                continue;
            }
            used[j] = true;
            ren.insert(*id, model.nodes[j].0);
            // every relationship of the implementation whose two ends are assigned by now must exist in the model
            // (with multiplicity): prunes the search when many new nodes look alike and differ only in what they hang on
            let consistent = {
                let mut need: HashMap<(u64, u64, &str, &str), i64> = HashMap::new();
                for (_, s, t, ty, p) in &imp.rels {
                    if (*s == *id || *t == *id) && ren.contains_key(s) && ren.contains_key(t) {
                        *need.entry((ren[s], ren[t], ty.as_str(), p.as_str())).or_insert(0) += 1;
                    }
                }
                need.iter().all(|((s, t, ty, p), n)| target.iter().filter(|x| x.0 == *s && x.1 == *t && x.2 == *ty && x.3 == *p).count() as i64 >= *n)
            };
            if consistent && go(i + 1, imp, model, used, ren, target, budget, rows_ok) {
                return true;
            }
            ren.remove(id);
            used[j] = false;
        }
        false
    }
    let mut used = vec![false; model.nodes.len()];
    let mut ren = HashMap::new();
    let mut budget = 200_000u64;
    if go(0, imp, model, &mut used, &mut ren, &target, &mut budget, rows_ok) {
        let mut v: Vec<(u64, u64)> = ren.into_iter().filter(|(a, b)| a != b).collect();
        v.sort();
        Some(v)
    } else {
        None
    }
}

pub fn ren_text(ren: &[(u64, u64)]) -> String {
    if ren.is_empty() {
        "-".into()
    } else {
        ren.iter().map(|(a, b)| format!("{}>{}", a, b)).collect::<Vec<_>>().join(",")
    }
}

/// split a driver reply `ok <rows> <graph>` / `err <kind> [<graph>]`
pub fn split_reply(r: &str) -> (bool, String, String) {
    let mut it = r.split(' ');
    let head = it.next().unwrap_or("");
    let a = it.next().unwrap_or("").to_string();
    let b = it.next().unwrap_or("").to_string();
    (head == "ok", a, b)
}

/// rows of a driver reply, sorted like `rows_text`
pub fn sort_rows_text(s: &str) -> String {
    if s == "-" {
        return s.to_string();
    }
    let mut v: Vec<&str> = s.split('/').collect();
    v.sort();
    v.join("/")
}

/// apply the handle renaming to the node values (`n<id>` cells) of a rows token, re-sorted
pub fn rename_rows(rows: &str, ren: &[(u64, u64)]) -> String {
    if rows == "-" {
        return rows.to_string();
    }
    let mut out: Vec<String> = rows
        .split('/')
        .map(|r| {
            r.split(',')
                .map(|c| match c.strip_prefix('n').and_then(|d| d.parse::<u64>().ok()) {
                    Some(id) => format!("n{}", ren.iter().find(|(a, _)| *a == id).map(|(_, b)| *b).unwrap_or(id)),
                    None => c.to_string(),
                })
                .collect::<Vec<_>>()
                .join(",")
        })
        .collect();
    out.sort();
    out.join("/")
}

fn outcome_of(r: std::thread::Result<Result<RecordBatch, samyama::query::executor::ExecutionError>>) -> Outcome {
    match r {
        Ok(Ok(b)) => Outcome { rows: Ok(batch_rows(&b)), columns: b.columns.clone() },
        Ok(Err(e)) => {
            let m = format!("{}", e);
            Outcome { rows: Err((classify(&m), m)), columns: vec![] }
        }
        Err(_) => Outcome { rows: Err((ErrKind::Other, "panic".into())), columns: vec![] },
    }
}

/// A script on ONE `MutQueryExecutor`: built once with the first statement's parameters; when a later statement
/// names a different parameter map the same executor is re-parameterised with `with_params` (executor state is
/// carried from one statement to the next — that is the point).
pub fn exec_script_mut(store: &mut GraphStore, script: &[(String, Option<HashMap<String, PropertyValue>>)]) -> Vec<Outcome> {
    static QUIET: std::sync::Once = std::sync::Once::new();
    QUIET.call_once(|| std::panic::set_hook(Box::new(|_| {})));
    let mut out = vec![];
    let mut ex = MutQueryExecutor::new(store, "default".to_string());
    let mut current: Option<String> = None;
    for (text, params) in script {
        let key = params.as_ref().map(|p| {
            let mut v: Vec<String> = p.iter().map(|(k, v)| format!("{}={}", k, pv_text(v))).collect();
            v.sort();
            v.join(";")
        });
        if key != current {
            if let Some(p) = params {
                ex = ex.with_params(p.clone());
            }
            current = key;
        }
        let q = match parse_query(text) {
            Ok(q) => q,
            Err(e) => {
                out.push(Outcome { rows: Err((ErrKind::Parse, format!("{}", e))), columns: vec![] });
                continue;
            }
        };
        let r = std::panic::catch_unwind(std::panic::AssertUnwindSafe(|| ex.execute(&q)));
        out.push(outcome_of(r));
    }
    out
}

/// the same on ONE read-only `QueryExecutor::with_params`
pub fn exec_script_read(store: &GraphStore, script: &[String], params: Option<&HashMap<String, PropertyValue>>) -> Vec<Outcome> {
    static QUIET: std::sync::Once = std::sync::Once::new();
    QUIET.call_once(|| std::panic::set_hook(Box::new(|_| {})));
    let mut ex = samyama::query::executor::QueryExecutor::new(store);
    if let Some(p) = params {
        ex = ex.with_params(p.clone());
    }
    let mut out = vec![];
    for text in script {
        let q = match parse_query(text) {
            Ok(q) => q,
            Err(e) => {
                out.push(Outcome { rows: Err((ErrKind::Parse, format!("{}", e))), columns: vec![] });
                continue;
            }
        };
        let r = std::panic::catch_unwind(std::panic::AssertUnwindSafe(|| ex.execute(&q)));
        out.push(outcome_of(r));
    }
    out
}
