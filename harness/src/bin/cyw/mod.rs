//! Shared by c04 / c05 / c35: driving the real Cypher engine (`parse_query` +
//! `MutQueryExecutor`) and dumping the whole store in the canonical text the Lean driver
//! `drv_cyw` speaks.
//!
//! Value text (no spaces anywhere):
//!   N | T | F | I<dec> | D<16 hex digits of the f64 bits> | S<hex of utf-8> (S- when empty)
//!   L[v,v,…] | M{k<n>:v,…}   (keys sorted)
//! Graph dump:  `<node>;<node>;…|<rel>;<rel>;…`  (or `-` for an empty part)
//!   node = <id>:<l.l.…|->:<prop,prop|->      prop = <keyid>=<value>
//!   rel  = <id>:<src>:<tgt>:<typeid>:<prop,prop|->
//! Names: labels `L<n>`, relationship types `T<n>`, property keys `k<n>`, variables `v<n>`,
//! parameters `p<n>`; the dump shows only the numbers.  Anything else found in the store
//! (a label that is not `L<n>` …) is rendered as id 999 so that it never compares equal.
#![allow(dead_code)]
use samyama::graph::{GraphStore, PropertyValue};
use samyama::query::executor::record::{RecordBatch, Value};
use samyama::query::executor::MutQueryExecutor;
use samyama::query::parser::parse_query;
use std::collections::HashMap;

pub fn num_suffix(s: &str, prefix: char) -> u64 {
    let mut cs = s.chars();
    if cs.next() == Some(prefix) {
        cs.as_str().parse().unwrap_or(999)
    } else {
        999
    }
}

pub fn hex_str(s: &str) -> String {
    if s.is_empty() {
        return "-".into();
    }
    s.as_bytes().iter().map(|b| format!("{:02x}", b)).collect()
}

pub fn pv_text(v: &PropertyValue) -> String {
    match v {
        PropertyValue::Null => "N".into(),
        PropertyValue::Boolean(true) => "T".into(),
        PropertyValue::Boolean(false) => "F".into(),
        PropertyValue::Integer(i) => format!("I{}", i),
        PropertyValue::Float(f) => format!("D{:016x}", f.to_bits()),
        PropertyValue::String(s) => format!("S{}", hex_str(s)),
        PropertyValue::Array(a) => format!("L[{}]", a.iter().map(pv_text).collect::<Vec<_>>().join(",")),
        PropertyValue::Map(m) => {
            let mut es: Vec<(u64, String)> = m.iter().map(|(k, v)| (num_suffix(k, 'k'), pv_text(v))).collect();
            es.sort();
            format!("M{{{}}}", es.iter().map(|(k, v)| format!("k{}:{}", k, v)).collect::<Vec<_>>().join(","))
        }
        other => format!("X{}", hex_str(&format!("{:?}", other))),
    }
}

pub fn value_text(v: &Value) -> String {
    match v {
        Value::Null => "N".into(),
        Value::Property(p) => pv_text(p),
        Value::List(l) => format!("L[{}]", l.iter().map(value_text).collect::<Vec<_>>().join(",")),
        Value::Map(m) => {
            let mut es: Vec<(u64, String)> = m.iter().map(|(k, v)| (num_suffix(k, 'k'), value_text(v))).collect();
            es.sort();
            format!("M{{{}}}", es.iter().map(|(k, v)| format!("k{}:{}", k, v)).collect::<Vec<_>>().join(","))
        }
        Value::Node(id, _) | Value::NodeRef(id) => format!("n{}", id.as_u64()),
        Value::Edge(id, _) => format!("r{}", id.as_u64()),
        Value::EdgeRef(id, ..) => format!("r{}", id.as_u64()),
        Value::Path { .. } => "P".into(),
    }
}

fn props_text(props: &HashMap<String, PropertyValue>) -> String {
    let mut es: Vec<(u64, String)> = props
        .iter()
        .filter(|(_, v)| !matches!(v, PropertyValue::Null))
        .map(|(k, v)| (num_suffix(k, 'k'), pv_text(v)))
        .collect();
    if es.is_empty() {
        return "-".into();
    }
    es.sort();
    es.iter().map(|(k, v)| format!("{}={}", k, v)).collect::<Vec<_>>().join(",")
}

/// Full dump of the logical graph.  Node properties are read through
/// `node_properties_full` (columns + row map, what queries see); a property holding
/// `null` is the same as an absent one (openCypher) and is not listed.
pub fn dump(store: &GraphStore) -> String {
    let mut nodes: Vec<(u64, String)> = store
        .all_nodes()
        .iter()
        .map(|n| {
            let mut ls: Vec<u64> = n.labels.iter().map(|l| num_suffix(l.as_str(), 'L')).collect();
            ls.sort();
            let lt = if ls.is_empty() { "-".to_string() } else { ls.iter().map(|x| x.to_string()).collect::<Vec<_>>().join(".") };
            let props = store.node_properties_full(n.id);
            (n.id.as_u64(), format!("{}:{}:{}", n.id.as_u64(), lt, props_text(&props)))
        })
        .collect();
    nodes.sort();
    let mut rels: Vec<(u64, String)> = store
        .all_edges()
        .iter()
        .map(|e| {
            let props: HashMap<String, PropertyValue> = e.properties.iter().map(|(k, v)| (k.clone(), v.clone())).collect();
            (
                e.id.as_u64(),
                format!(
                    "{}:{}:{}:{}:{}",
                    e.id.as_u64(),
                    e.source.as_u64(),
                    e.target.as_u64(),
                    num_suffix(e.edge_type.as_str(), 'T'),
                    props_text(&props)
                ),
            )
        })
        .collect();
    rels.sort();
    let j = |v: &Vec<(u64, String)>| if v.is_empty() { "-".to_string() } else { v.iter().map(|x| x.1.clone()).collect::<Vec<_>>().join(";") };
    format!("{}|{}", j(&nodes), j(&rels))
}

#[derive(Clone, Debug, PartialEq, Eq)]
pub enum ErrKind {
    Parse,
    Div0,
    Type,
    Constraint,
    Param,
    Other,
}

impl ErrKind {
    pub fn tag(&self) -> &'static str {
        match self {
            ErrKind::Parse => "parse",
            ErrKind::Div0 => "div0",
            ErrKind::Type => "type",
            ErrKind::Constraint => "constraint",
            ErrKind::Param => "param",
            ErrKind::Other => "other",
        }
    }
}

pub fn classify(msg: &str) -> ErrKind {
    let m = msg.to_lowercase();
    if m.contains("division by zero") || m.contains("divide by zero") || m.contains("modulo by zero") {
        ErrKind::Div0
    } else if m.contains("unresolved parameter") {
        ErrKind::Param
    } else if m.contains("constraint") || m.contains("still has relationships") || m.contains("already has value") {
        ErrKind::Constraint
    } else if m.contains("type error") || m.contains("typeerror") || m.contains("expects") || m.contains("must be") || m.contains("cannot") {
        ErrKind::Type
    } else {
        ErrKind::Other
    }
}

pub struct Outcome {
    /// Ok(rows) — each row the values of the result columns in order, rendered — or the error
    pub rows: Result<Vec<Vec<String>>, (ErrKind, String)>,
    pub columns: Vec<String>,
}

pub fn batch_rows(b: &RecordBatch) -> Vec<Vec<String>> {
    b.records
        .iter()
        .map(|r| b.columns.iter().map(|c| r.get(c).map(value_text).unwrap_or_else(|| "?".into())).collect())
        .collect()
}

/// parse + MutQueryExecutor (the path `QueryEngine::execute_mut` takes, minus the cache),
/// panics caught and reported as `Other`
pub fn exec(store: &mut GraphStore, text: &str, params: Option<&HashMap<String, PropertyValue>>) -> Outcome {
    let q = match parse_query(text) {
        Ok(q) => q,
        Err(e) => return Outcome { rows: Err((ErrKind::Parse, format!("{}", e))), columns: vec![] },
    };
    let r = std::panic::catch_unwind(std::panic::AssertUnwindSafe(|| {
        let mut ex = MutQueryExecutor::new(store, "default".to_string());
        if let Some(p) = params {
            ex = ex.with_params(p.clone());
        }
        ex.execute(&q)
    }));
    match r {
        Ok(Ok(b)) => Outcome { rows: Ok(batch_rows(&b)), columns: b.columns.clone() },
        Ok(Err(e)) => {
            let m = format!("{}", e);
            Outcome { rows: Err((classify(&m), m)), columns: vec![] }
        }
        Err(_) => Outcome { rows: Err((ErrKind::Other, "panic".into())), columns: vec![] },
    }
}

/// sorted bag of rows as one token: `row/row/…` with row = `v,v,…`; `-` for no rows,
/// `_` for a row without columns
pub fn rows_text(rows: &[Vec<String>]) -> String {
    if rows.is_empty() {
        return "-".into();
    }
    let mut rs: Vec<String> = rows.iter().map(|r| if r.is_empty() { "_".to_string() } else { r.join(",") }).collect();
    rs.sort();
    rs.join("/")
}

/// probe mode: one Cypher statement per line (`#` comments, `!reset` starts a fresh store,
/// `!param p0=<value text>` sets a parameter for the following statements)
pub fn probe(path: &str) {
    let mut store = GraphStore::new();
    let mut params: HashMap<String, PropertyValue> = HashMap::new();
    for line in std::fs::read_to_string(path).expect("probe file").lines() {
        let line = line.trim();
        if line.is_empty() || line.starts_with('#') {
            println!("{}", line);
            continue;
        }
        if line == "!reset" {
            store = GraphStore::new();
            params.clear();
            println!("--- reset");
            continue;
        }
        if let Some(rest) = line.strip_prefix("!param ") {
            let (k, v) = rest.split_once('=').unwrap();
            params.insert(k.to_string(), parse_pv(v).expect("value"));
            continue;
        }
        let o = exec(&mut store, line, if params.is_empty() { None } else { Some(&params) });
        println!("> {}", line);
        match &o.rows {
            Ok(rows) => println!("  ok cols={:?} rows={}", o.columns, rows_text(rows)),
            Err((k, m)) => println!("  ERR[{}] {}", k.tag(), m),
        }
        println!("  dump {}", dump(&store));
    }
}

/// value text → PropertyValue (the inverse of `pv_text` on the classes the harness uses)
pub fn parse_pv(s: &str) -> Option<PropertyValue> {
    let (v, rest) = parse_pv_prefix(s)?;
    if rest.is_empty() {
        Some(v)
    } else {
        None
    }
}

fn parse_pv_prefix(s: &str) -> Option<(PropertyValue, &str)> {
    let c = s.chars().next()?;
    let r = &s[1..];
    match c {
        'N' => Some((PropertyValue::Null, r)),
        'T' => Some((PropertyValue::Boolean(true), r)),
        'F' => Some((PropertyValue::Boolean(false), r)),
        'I' => {
            let end = r.char_indices().find(|(i, ch)| !(ch.is_ascii_digit() || (*i == 0 && *ch == '-'))).map(|x| x.0).unwrap_or(r.len());
            Some((PropertyValue::Integer(r[..end].parse().ok()?), &r[end..]))
        }
        'D' => {
            let bits = u64::from_str_radix(r.get(..16)?, 16).ok()?;
            Some((PropertyValue::Float(f64::from_bits(bits)), &r[16..]))
        }
        'S' => {
            if let Some(rest) = r.strip_prefix('-') {
                return Some((PropertyValue::String(String::new()), rest));
            }
            let end = r.char_indices().find(|(_, ch)| !ch.is_ascii_hexdigit()).map(|x| x.0).unwrap_or(r.len());
            let bytes = vharness::util::unhex(&r[..end])?;
            Some((PropertyValue::String(String::from_utf8(bytes).ok()?), &r[end..]))
        }
        'L' => {
            let mut r = r.strip_prefix('[')?;
            let mut out = vec![];
            if let Some(rest) = r.strip_prefix(']') {
                return Some((PropertyValue::Array(out), rest));
            }
            loop {
                let (v, rest) = parse_pv_prefix(r)?;
                out.push(v);
                if let Some(rest) = rest.strip_prefix(',') {
                    r = rest;
                } else {
                    return Some((PropertyValue::Array(out), rest.strip_prefix(']')?));
                }
            }
        }
        'M' => {
            let mut r = r.strip_prefix('{')?;
            let mut out = HashMap::new();
            if let Some(rest) = r.strip_prefix('}') {
                return Some((PropertyValue::Map(out), rest));
            }
            loop {
                let (k, rest) = r.split_once(':')?;
                let (v, rest) = parse_pv_prefix(rest)?;
                out.insert(k.to_string(), v);
                if let Some(rest) = rest.strip_prefix(',') {
                    r = rest;
                } else {
                    return Some((PropertyValue::Map(out), rest.strip_prefix('}')?));
                }
            }
        }
        _ => None,
    }
}
