//! C30 — the column store behaves as a map: real `ColumnStore` vs the Lean model
//! `SgModel.Column` (instantiated with the code's integer policy) and the reference-map
//! specification evaluated on the implementation's observations after every operation.
//! `Column::is_dense` goes to the histogram only — the representation is not part of the property.
use samyama::graph::storage::ColumnStore;
use samyama::graph::PropertyValue;
use serde_json::json;
use vharness::{driver, Args, Known, Report, Rng};

#[derive(Clone, Debug, PartialEq)]
enum Val {
    Int(i64),
    Flt(u64), // bits
    Str(u64), // tag, 0 = ""
    Bool(bool),
    Null,
    Other(u64),
}

#[derive(Clone, Debug, PartialEq)]
enum Item {
    Set(usize, u32, Val),
    Remove(usize, u32),
    Clear(usize),
    Sweep,
    /// executed but not observed (keeps the driver cheap on long id-ordered loads)
    QSet(usize, u32, Val),
    /// observation of one row (and its neighbours) without executing anything
    Probe(usize),
}

fn show_val(v: &Val) -> String {
    match v {
        Val::Int(i) => format!("i{}", i),
        Val::Flt(b) => format!("f{}", b),
        Val::Str(t) => format!("s{}", t),
        Val::Bool(b) => format!("b{}", *b as u8),
        Val::Null => "n".into(),
        Val::Other(t) => format!("o{}", t),
    }
}

fn parse_val(s: &str) -> Option<Val> {
    let (k, rest) = s.split_at(1);
    Some(match k {
        "i" => Val::Int(rest.parse().ok()?),
        "f" => Val::Flt(rest.parse().ok()?),
        "s" => Val::Str(rest.parse().ok()?),
        "b" => Val::Bool(match rest {
            "0" => false,
            "1" => true,
            _ => return None,
        }),
        "n" if rest.is_empty() => Val::Null,
        "o" => Val::Other(rest.parse().ok()?),
        _ => return None,
    })
}

fn to_pv(v: &Val) -> PropertyValue {
    match v {
        Val::Int(i) => PropertyValue::Integer(*i),
        Val::Flt(b) => PropertyValue::Float(f64::from_bits(*b)),
        Val::Str(t) => PropertyValue::String(if *t == 0 { String::new() } else { format!("s{}", t) }),
        Val::Bool(b) => PropertyValue::Boolean(*b),
        Val::Null => PropertyValue::Null,
        Val::Other(t) => match t % 4 {
            0 => PropertyValue::DateTime(*t as i64),
            1 => PropertyValue::Array(vec![PropertyValue::Integer(*t as i64)]),
            2 => PropertyValue::Vector(vec![*t as f32]),
            _ => PropertyValue::Duration { months: *t as i64, days: 0, seconds: 0, nanos: 0 },
        },
    }
}

/// canonical text of what the store returned ("?…" for anything the encoding cannot produce)
fn from_pv(p: &PropertyValue) -> String {
    match p {
        PropertyValue::Integer(i) => format!("i{}", i),
        PropertyValue::Float(f) => format!("f{}", f.to_bits()),
        PropertyValue::String(s) => {
            if s.is_empty() {
                "s0".into()
            } else if let Some(t) = s.strip_prefix('s').and_then(|x| x.parse::<u64>().ok()) {
                format!("s{}", t)
            } else {
                format!("?str:{}", s)
            }
        }
        PropertyValue::Boolean(b) => format!("b{}", *b as u8),
        PropertyValue::Null => "n".into(),
        PropertyValue::DateTime(t) if t % 4 == 0 => format!("o{}", t),
        PropertyValue::Array(a) => match a.as_slice() {
            [PropertyValue::Integer(t)] if t % 4 == 1 => format!("o{}", t),
            _ => "?array".into(),
        },
        PropertyValue::Vector(v) => match v.as_slice() {
            [t] if (*t as u64) % 4 == 2 && (*t as u64) as f32 == *t => format!("o{}", *t as u64),
            _ => "?vector".into(),
        },
        PropertyValue::Duration { months, days: 0, seconds: 0, nanos: 0 } if months % 4 == 3 => format!("o{}", months),
        _ => "?other".into(),
    }
}

fn render(items: &[Item]) -> String {
    items
        .iter()
        .map(|it| match it {
            Item::Set(r, k, v) => format!("s{}.{}.{}", r, k, show_val(v)),
            Item::Remove(r, k) => format!("r{}.{}", r, k),
            Item::Clear(r) => format!("c{}", r),
            Item::Sweep => "O".into(),
            Item::QSet(r, k, v) => format!("q{}.{}.{}", r, k, show_val(v)),
            Item::Probe(r) => format!("P{}", r),
        })
        .collect::<Vec<_>>()
        .join(";")
}

fn parse(s: &str) -> Option<Vec<Item>> {
    let mut out = vec![];
    for p in s.split(';') {
        if p == "O" {
            out.push(Item::Sweep);
            continue;
        }
        let (k, rest) = p.split_at(1);
        let f: Vec<&str> = rest.split('.').collect();
        if k == "F" {
            // F<start>.<count>.<key>.<kind>.<off>: a run of quiet sets
            if let [a, n, key, kind, off] = f.as_slice() {
                let (a, n, key, kind, off): (usize, usize, u32, u8, u64) =
                    (a.parse().ok()?, n.parse().ok()?, key.parse().ok()?, kind.parse().ok()?, off.parse().ok()?);
                for j in 0..n {
                    out.push(Item::QSet(a + j, key, fill_val(kind, off + j as u64)?));
                }
                continue;
            }
            return None;
        }
        out.push(match (k, f.as_slice()) {
            ("q", [r, key, v]) => Item::QSet(r.parse().ok()?, key.parse().ok()?, parse_val(v)?),
            ("P", [r]) => Item::Probe(r.parse().ok()?),
            ("s", [r, key, v]) => Item::Set(r.parse().ok()?, key.parse().ok()?, parse_val(v)?),
            ("r", [r, key]) => Item::Remove(r.parse().ok()?, key.parse().ok()?),
            ("c", [r]) => Item::Clear(r.parse().ok()?),
            _ => return None,
        });
    }
    Some(out)
}

/// value `x` of a fill (same table as `fillVal?` in Driver/Column.lean)
fn fill_val(kind: u8, x: u64) -> Option<Val> {
    Some(match kind {
        0 => Val::Int(x as i64 - 3),
        2 => Val::Str(x % 50),
        3 => Val::Bool(x % 2 == 0),
        4 => Val::Int(3 * x as i64 - 7),
        _ => return None,
    })
}

/// order of first appearance
fn dedup_keep<T: Eq + std::hash::Hash + Copy>(xs: impl Iterator<Item = T>) -> Vec<T> {
    let mut seen = std::collections::HashSet::new();
    let mut out = vec![];
    for x in xs {
        if seen.insert(x) {
            out.push(x);
        }
    }
    out
}

struct RealRun {
    /// first (row, key) where `get_by_id(column_id(key), row)` and `get_property(row, key)` disagreed
    byid_mismatch: Option<String>,
    obs: String,
    repr_changes: u64,
    events: Vec<&'static str>,
    /// the call that panicked: (index of the item, the item as text)
    panic_at: Option<(usize, String)>,
}

/// drive the real ColumnStore; one observation per item (same text as the Lean `showObs`)
fn run_real(items: &[Item]) -> RealRun {
    let keys: Vec<u32> = dedup_keep(items.iter().filter_map(|it| match it {
        Item::Set(_, k, _) | Item::QSet(_, k, _) | Item::Remove(_, k) => Some(*k),
        _ => None,
    }));
    let rows: Vec<usize> = if items.iter().any(|it| matches!(it, Item::Sweep)) {
        dedup_keep(items.iter().filter_map(|it| match it {
            Item::Set(r, _, _) | Item::QSet(r, _, _) | Item::Remove(r, _) | Item::Clear(r) => Some(*r),
            Item::Sweep | Item::Probe(_) => None,
        }))
    } else {
        vec![]
    };
    let names: Vec<String> = keys.iter().map(|k| format!("k{}", k)).collect();
    let mut st = ColumnStore::new();
    let mut obs: Vec<String> = Vec::new();
    let mut prev_dense: Vec<Option<bool>> = vec![None; keys.len()];
    let mut prev_typed: Vec<Option<bool>> = vec![None; keys.len()];
    let mut repr_changes = 0;
    let mut byid_mismatch: Option<String> = None;
    let mut events: Vec<&'static str> = vec![];
    // per key: min / max row ever set (a superset of any dense band of that column)
    let mut span: std::collections::HashMap<u32, (usize, usize)> = std::collections::HashMap::new();
    let mut panic_at: Option<(usize, String)> = None;
    for (step, it) in items.iter().enumerate() {
        let around = |r: &usize| -> Vec<usize> { if *r == 0 { vec![0, 1] } else { vec![r - 1, *r, r + 1] } };
        // the write itself, with a panic of the store caught and reported as the failing step
        let exec = std::panic::catch_unwind(std::panic::AssertUnwindSafe(|| match it {
            Item::Set(r, k, v) | Item::QSet(r, k, v) => {
                let name = format!("k{}", k);
                let was_dense = st.get_column(&name).map_or(false, |c| c.is_dense());
                st.set_property(*r, &name, to_pv(v));
                let now_dense = st.get_column(&name).map_or(false, |c| c.is_dense());
                if let Some((lo, hi)) = span.get(k).copied() {
                    if was_dense && now_dense && *r < lo {
                        events.push("repr:write-below-band-stays-dense(rebase)");
                    } else if was_dense && now_dense && *r > hi {
                        events.push("repr:write-above-band-stays-dense(extend)");
                    }
                    span.insert(*k, (lo.min(*r), hi.max(*r)));
                } else {
                    span.insert(*k, (*r, *r));
                }
            }
            Item::Remove(r, k) => st.remove_property(*r, &format!("k{}", k)),
            Item::Clear(r) => st.clear_row(*r),
            Item::Sweep | Item::Probe(_) => {}
        }));
        if exec.is_err() {
            panic_at = Some((step, render(std::slice::from_ref(it))));
            break;
        }
        // representation events (also for quiet writes)
        let quiet = matches!(it, Item::QSet(..));
        let mut lens = vec![];
        let mut dense = String::new();
        for (j, n) in names.iter().enumerate() {
            match st.get_column(n) {
                Some(c) => {
                    let d = c.is_dense();
                    if !quiet {
                        lens.push(c.len().to_string());
                        dense.push(if d { '1' } else { '0' });
                    }
                    let typed = !matches!(c, samyama::graph::storage::Column::Other(_));
                    if let Some(p) = prev_dense[j] {
                        if p != d {
                            repr_changes += 1;
                            events.push(if d { "repr:promotion(sparse->dense)" } else if typed { "repr:demotion(dense->sparse)" } else { "repr:spill-from-dense" });
                        }
                    }
                    if let Some(true) = prev_typed[j] {
                        if !typed {
                            repr_changes += 1;
                            events.push("repr:spill(typed->other)");
                        }
                    }
                    prev_dense[j] = Some(d);
                    prev_typed[j] = Some(typed);
                }
                None => {
                    lens.push("_".into());
                    dense.push('_');
                }
            }
        }
        let (probe_rows, key_rows): (Vec<usize>, Vec<usize>) = match it {
            Item::QSet(..) => continue,
            Item::Set(r, _, _) | Item::Remove(r, _) | Item::Clear(r) | Item::Probe(r) => (around(r), vec![*r]),
            Item::Sweep => (rows.clone(), rows.clone()),
        };
        let mut gets = Vec::with_capacity(probe_rows.len() * names.len());
        for r in &probe_rows {
            for n in &names {
                let v = from_pv(&st.get_property(*r, n));
                // the second public read path (plan-time column id) must agree with the first
                let by_id = match st.column_id(n) {
                    Some(id) => from_pv(&st.get_by_id(id, *r)),
                    None => "n".to_string(),
                };
                if by_id != v && byid_mismatch.is_none() {
                    byid_mismatch = Some(format!("row {} key {}: get_property={} get_by_id={}", r, n, v, by_id));
                }
                gets.push(v);
            }
        }
        let mut ks = vec![];
        for r in &key_rows {
            let l = st.get_property_keys(*r);
            if l.is_empty() {
                ks.push("-".to_string());
            } else {
                ks.push(l.iter().map(|k| k.trim_start_matches('k').to_string()).collect::<Vec<_>>().join("."));
            }
        }
        obs.push(format!("{}|{}|{}|{}", gets.join(","), ks.join(","), lens.join(","), dense));
    }
    RealRun { byid_mismatch, obs: obs.join(";"), repr_changes, events, panic_at }
}

/// strip the (never compared) dense field of every observation
fn without_dense(s: &str) -> String {
    s.split(';').map(|o| o.rsplit_once('|').map_or(o, |x| x.0)).collect::<Vec<_>>().join(";")
}

fn val_of(kind: u8, n: u64) -> Val {
    match kind {
        0 => Val::Int(n as i64 - 3),
        1 => Val::Flt(((n % 1000) as f64 * 0.5).to_bits()),
        2 => Val::Str(n % 50),
        _ => Val::Bool(n % 2 == 0),
    }
}

/// an adversarial history around the representation thresholds of one typed column
fn big_case(rng: &mut Rng, thorough: bool) -> Vec<Item> {
    let kind = rng.below(4) as u8; // 0 int 1 float 2 string 3 bool
    let base: usize = *rng.pick(&[0usize, 1, 64, 1000, 1_100_000]);
    let n: usize = *rng.pick(&[1023usize, 1024, 1025, 2047, 2048, 2049]);
    let stride: usize = match kind {
        3 => *rng.pick(if thorough { &[1usize, 2, 5, 9, 12][..] } else { &[1usize, 2, 5][..] }), // bool: break-even fill 0.10
        2 => *rng.pick(&[1usize, 1, 2]),        // string: 0.64
        _ => *rng.pick(&[1usize, 2, 3]),        // i64/f64: 0.42
    };
    let key = 1u32;
    let mut items = vec![];
    let mut order: Vec<usize> = (0..n).collect();
    match rng.below(4) {
        0 => order.reverse(),
        1 => {
            for i in (1..order.len()).rev() {
                let j = rng.usize(i + 1);
                order.swap(i, j);
            }
        }
        _ => {}
    }
    // a second and third key with a few irregular values so that key lists are not trivial
    items.push(Item::Set(base + 1, 2, Val::Null));
    items.push(Item::Set(base + 2, 2, Val::Other(4 * rng.below(5) + rng.below(4))));
    items.push(Item::Set(base, 3, Val::Str(7)));
    for i in &order {
        items.push(Item::Set(base + i * stride, key, val_of(kind, *i as u64)));
    }
    items.push(Item::Sweep);
    let top = base + (n - 1) * stride;
    // the current lowest / highest row ever written to key 1 (first / last slot of a dense band)
    let (mut lo, mut hi) = (base, top);
    let stages = if thorough { 3 } else { 2 };
    for stage in 0..stages {
        let m = 20 + rng.usize(40);
        for _ in 0..m {
            let x = rng.next_u64();
            let inband = base + rng.usize(n) * stride;
            items.push(match rng.below(16) {
                0 => Item::Set(base.saturating_sub(1 + rng.usize(3)), key, val_of(kind, x)), // just below base: rebase
                1 => Item::Set(base / 2, key, val_of(kind, x)),                               // far below
                2 => Item::Set(top + 1 + rng.usize(3), key, val_of(kind, x)),                 // extend
                3 => Item::Set(top + 200 + rng.usize(5000), key, val_of(kind, x)),            // wider gap
                4 => Item::Set(base + 10_000_000, key, val_of(kind, x)),                      // far away: demote
                5 | 6 => Item::Set(inband, key, val_of(kind, x)),
                7 | 8 => Item::Remove(inband, key),
                9 => Item::Clear(*rng.pick(&[base, top, base + (n / 2) * stride, base + 1, lo, hi, lo, hi])),
                10 => Item::Set(inband + 1, key, val_of(kind, x)), // a hole of a strided band
                11 => Item::Remove(base + 10_000_000, key),
                12 => Item::Set(inband, 2, val_of(rng.below(4) as u8, x)),
                13 => Item::Remove(inband, 3),
                14 if stage > 0 => Item::Set(inband, key, val_of((kind + 1 + rng.below(3) as u8) % 4, x)), // type change: spill
                14 => Item::Set(inband, key, val_of(kind, x)),
                _ => {
                    if stage > 0 && rng.chance(1, 3) {
                        Item::Set(inband, key, if rng.chance(1, 2) { Val::Null } else { Val::Other(x % 40) })
                    } else {
                        Item::Set(top + 1, key, val_of(kind, x))
                    }
                }
            });
            if let Some(Item::Set(r, 1, _)) = items.last() {
                if *r < base + 5_000_000 {
                    lo = lo.min(*r);
                    hi = hi.max(*r);
                }
            }
        }
        if stage == 0 && rng.chance(1, 2) {
            // removals down to (and past) the break-even fill, then one write outside the band
            let frac = 30 + rng.usize(65);
            for i in 0..n {
                if rng.usize(100) < frac {
                    items.push(Item::Remove(base + i * stride, key));
                }
            }
            items.push(Item::Set(top + 1 + rng.usize(2), key, val_of(kind, 9)));
            items.push(Item::Set(base.saturating_sub(1), key, val_of(kind, 8)));
        }
        items.push(Item::Sweep);
        if stage == 1 && rng.chance(1, 2) {
            // refill a fresh contiguous run so a demoted column crosses the next power of two again
            let b2 = top + 10;
            for i in 0..(if rng.chance(1, 2) { 2048 } else { 1100 }) {
                items.push(Item::Set(b2 + i, key, val_of(kind, i as u64)));
            }
            items.push(Item::Sweep);
        }
    }
    items
}

/// Deterministic histories that a uniform draw reaches too rarely, one per column type:
/// variant 0 = demote -> re-promote -> rebase -> extend -> clear first/last row -> thin out -> demote;
/// variant 1 = descending fill (promotion, then one rebase per row), extension right after a rebase,
///             clear_row of the first and the last row of the dense band, re-set, spill by a type change.
fn scenario(kind: u8, variant: u8) -> Vec<Item> {
    let key = 1u32;
    let mut items = vec![];
    let v = |n: u64| val_of(kind, n);
    if variant == 0 {
        let base = 500usize;
        for i in 0..1100usize {
            items.push(Item::Set(base + i, key, v(i as u64)));
        }
        items.push(Item::Set(base, 2, Val::Str(0)));
        items.push(Item::Sweep);
        items.push(Item::Set(base + 10_000_000, key, v(1))); // demote
        items.push(Item::Remove(base + 10_000_000, key));
        items.push(Item::Sweep);
        for i in 1100..2060usize {
            items.push(Item::Set(base + i, key, v(i as u64))); // len crosses 2048: promoted again
        }
        items.push(Item::Sweep);
        items.push(Item::Set(base - 1, key, v(7))); // rebase
        items.push(Item::Set(base + 2060, key, v(8))); // extend, right after a rebase
        items.push(Item::Set(base - 3, key, v(9))); // rebase over a gap
        items.push(Item::Clear(base - 3)); // first row of the band
        items.push(Item::Clear(base + 2060)); // last row of the band
        items.push(Item::Clear(base)); // a row that also has key 2
        items.push(Item::Set(base - 3, key, v(10)));
        items.push(Item::Remove(base + 1000, key));
        items.push(Item::Sweep);
        for i in 0..2060usize {
            if i % 10 != 0 {
                items.push(Item::Remove(base + i, key)); // thin out far below break-even (stays dense)
            }
        }
        items.push(Item::Sweep);
        items.push(Item::Set(base + 2070, key, v(11))); // outside the band at low fill: demote
        items.push(Item::Set(base - 10, key, v(12)));
        items.push(Item::Sweep);
    } else {
        let base = 64usize;
        let n = 1030usize;
        for i in (0..n).rev() {
            items.push(Item::Set(base + i, key, v(i as u64))); // promoted at 1024 entries, then 6 rebases
        }
        items.push(Item::Set(base + n, key, v(1))); // extension right after the rebases
        items.push(Item::Set(base + 5, 2, Val::Int(5)));
        items.push(Item::Sweep);
        items.push(Item::Clear(base)); // first row
        items.push(Item::Clear(base + n)); // last row
        items.push(Item::Clear(base + 5)); // a row with two keys
        items.push(Item::Sweep);
        items.push(Item::Set(base, key, v(2))); // re-set after clear
        items.push(Item::Set(base + n, key, v(3)));
        items.push(Item::Remove(base + n, key));
        items.push(Item::Remove(base + n, key)); // removing an absent row twice
        items.push(Item::Set(base + n + 1, key, v(4))); // extend past a cleared last slot
        items.push(Item::Sweep);
        items.push(Item::Set(base + 7, key, val_of((kind + 1) % 4, 5))); // type change: spill from dense
        items.push(Item::Set(base + 8, key, Val::Null));
        items.push(Item::Remove(base + 9, key));
        items.push(Item::Clear(base + 10));
        items.push(Item::Sweep);
    }
    items
}

/// one history; `text` is a compressed rendering (fills as `F…`) when there is one
struct Case {
    items: Vec<Item>,
    text: Option<String>,
    /// (family, base) of a large-band case
    band: Option<(&'static str, usize)>,
}

impl Case {
    fn plain(items: Vec<Item>) -> Case {
        Case { items, text: None, band: None }
    }
}

/// builder that keeps the expanded items and the compressed text in step
struct Hist {
    items: Vec<Item>,
    text: Vec<String>,
}

impl Hist {
    fn new() -> Hist {
        Hist { items: vec![], text: vec![] }
    }
    fn fill(&mut self, start: usize, count: usize, key: u32, kind: u8, off: u64) {
        for j in 0..count {
            self.items.push(Item::QSet(start + j, key, fill_val(kind, off + j as u64).expect("fill kind")));
        }
        self.text.push(format!("F{}.{}.{}.{}.{}", start, count, key, kind, off));
    }
    fn push(&mut self, it: Item) {
        self.text.push(render(std::slice::from_ref(&it)));
        self.items.push(it);
    }
    fn done(self, family: &'static str, base: usize) -> Case {
        Case { items: self.items, text: Some(self.text.join(";")), band: Some((family, base)) }
    }
}

/// "large band" family, mixed workload: an id-ordered load of `n` rows base..base+n on key 1
/// (typed, so the column is sparse until its entry count crosses 1024 and is then promoted),
/// a sparser string property on every 7th row, and every 97 rows an overwrite, a remove, a
/// clear_row and a re-set inside the part already loaded.  The sparse hash map's iteration
/// order — which promotion walks — depends on the key set, i.e. on `base`.
fn band_mixed(base: usize, n: usize, kind: u8, sweep: bool) -> Case {
    let mut h = Hist::new();
    let mut i = 0usize;
    while i < n {
        let cnt = (97 - i % 97).min(n - i);
        h.fill(base + i, cnt, 1, kind, i as u64);
        for j in i..i + cnt {
            if j % 7 == 0 {
                h.push(Item::QSet(base + j, 2, Val::Str(1 + (j as u64 % 40))));
            }
        }
        i += cnt;
        if i % 97 == 0 {
            let e = i - 1; // the step index of the edit, as in a loader that edits while loading
            h.push(Item::Set(base + e / 2, 1, fill_val(kind, 5000 + e as u64).unwrap()));
            h.push(Item::Remove(base + e / 3, 1));
            h.push(Item::Clear(base + e / 5));
            h.push(Item::Set(base + e / 3, 1, fill_val(kind, 7000 + e as u64).unwrap()));
        }
    }
    for r in [base, base + 1, base + n - 1, base + n, base + 1023, base + 1024, base + n / 2] {
        h.push(Item::Probe(r));
    }
    for k in 0..20 {
        h.push(Item::Probe(base + (k * 67) % n));
    }
    h.push(Item::Set(base + n, 1, fill_val(kind, 1).unwrap())); // one more row above the band
    h.push(Item::Clear(base));
    h.push(Item::Probe(base + 100_000));
    if sweep {
        h.push(Item::Sweep);
    }
    h.done("mixed", base)
}

/// "large band" family, plain workload: nothing but the id-ordered load, then a few edits
fn band_plain(base: usize, n: usize, kind: u8) -> Case {
    let mut h = Hist::new();
    h.fill(base, n, 1, kind, 0);
    for r in [base, base + n - 1, base + n, base + 1023, base + 1024, base + 512] {
        h.push(Item::Probe(r));
    }
    h.push(Item::Remove(base + 5, 1));
    h.push(Item::Clear(base + n - 1));
    h.push(Item::Set(base + n, 1, fill_val(kind, 2).unwrap()));
    h.push(Item::Set(base + 5, 1, fill_val(kind, 3).unwrap()));
    h.push(Item::Probe(base + n - 1));
    h.done("plain", base)
}

fn small_case(rng: &mut Rng) -> Vec<Item> {
    let mut items = vec![];
    for _ in 0..3 + rng.usize(30) {
        let r = rng.usize(6);
        let k = 1 + rng.below(3) as u32;
        items.push(match rng.below(10) {
            0..=5 => {
                let x = rng.below(6);
                Item::Set(r, k, match rng.below(8) {
                    0 | 1 => Val::Int(x as i64 - 2),
                    2 => Val::Flt((x as f64).to_bits()),
                    3 => Val::Str(x),
                    4 => Val::Bool(x % 2 == 0),
                    5 => Val::Null,
                    6 => Val::Other(x),
                    _ => Val::Flt(f64::NAN.to_bits()),
                })
            }
            6 | 7 => Item::Remove(r, k),
            8 => Item::Clear(r),
            _ => Item::Sweep,
        });
    }
    items.push(Item::Sweep);
    items
}

fn main() {
    let args = Args::parse();
    let known = Known::load(&args.known, "C30");
    let mut rep = Report::new(
        "C30",
        "op histories set_property/remove_property/clear_row on the real ColumnStore; get_property for the touched neighbourhood and \
         get_property_keys after every op, full sweeps of every touched (row,key) at stage boundaries; a large-band family (id-ordered loads of >= 1100 rows at every base position, \
         unobserved fill writes, observed periodic edits and row probes, a panic of the store = violation with base and step); non-trivial = a column of the real \
         store switched between the sparse and the dense representation at least once during the history (typed->Other spills of small \
         columns are counted in the histogram but do not make a case non-trivial); distinct = distinct rendered history",
        &args.replays,
        args.seed,
    );
    let exe = args.driver_exe("drv_column");

    std::panic::set_hook(Box::new(|_| {})); // panics of the store are caught and reported as cases, not printed
    let mut cases: Vec<Case> = vec![];
    let mut files: Vec<std::path::PathBuf> = vec![];
    if let Some(r) = &args.replay {
        files.push(r.clone());
    } else if let Ok(rd) = std::fs::read_dir(args.corpus.join("C30")) {
        files = rd.filter_map(|e| e.ok().map(|e| e.path())).collect();
        files.sort();
    }
    let mut n_corpus = 0;
    for f in &files {
        for line in std::fs::read_to_string(f).unwrap_or_default().lines() {
            if let Some(rest) = line.trim().strip_prefix("ops ") {
                if let Some(c) = parse(rest.trim()) {
                    cases.push(Case::plain(c));
                    n_corpus += 1;
                }
            } else if let Some(rest) = line.trim().strip_prefix("scn ") {
                // "scn <kind> <variant>" = the deterministic scenario for that column type
                let f: Vec<&str> = rest.split_whitespace().collect();
                if let (Some(k), Some(v)) = (f.first().and_then(|x| x.parse::<u8>().ok()), f.get(1).and_then(|x| x.parse::<u8>().ok())) {
                    cases.push(Case::plain(scenario(k % 4, v % 2)));
                    n_corpus += 1;
                }
            } else if let Some(rest) = line.trim().strip_prefix("gen ") {
                // compact corpus form: "gen <seed>" = the adversarial generator at that seed
                if let Ok(s) = rest.trim().parse::<u64>() {
                    cases.push(Case::plain(big_case(&mut Rng::new(s), true)));
                    n_corpus += 1;
                }
            }
        }
    }
    rep.count_n("corpus_cases", n_corpus);

    if args.replay.is_none() {
        let mut rng = Rng::new(args.seed);
        for kind in 0..4u8 {
            for variant in 0..2u8 {
                cases.push(Case::plain(scenario(kind, variant)));
            }
        }
        rep.count_n("deterministic_scenarios(4 column types x {re-promote, descending+first/last clear})", 8);
        let (n_big, n_small) = if args.thorough() { (160, 12_000) } else { (18, 2_000) };
        for _ in 0..n_big {
            let mut r = rng.fork();
            cases.push(Case::plain(big_case(&mut r, args.thorough())));
        }
        for _ in 0..n_small {
            let mut r = rng.fork();
            cases.push(Case::plain(small_case(&mut r)));
        }
        // large-band family: every base position (the promotion walks the sparse map in hash
        // order, which is a function of the key set; a defect there shows for ~1 base in 1000)
        let n_bases = if args.thorough() { 8192 } else { 4096 };
        let kinds = [4u8, 2, 3, 0];
        for base in 0..n_bases {
            let kind = kinds[(base / 7 + base) % 4];
            cases.push(band_mixed(base, 1300, kind, base % 256 == 0));
            if args.thorough() || base % 2 == (args.seed % 2) as usize {
                cases.push(band_plain(base, 1100 + (base % 3) * 20, kinds[(base + 1) % 4]));
            }
        }
        rep.exhaustive = true;
        rep.exhaustive_note = format!(
            "large-band family: every base in 0..{} with the mixed workload (1300-row id-ordered load + sparser second property + periodic overwrite/remove/clear_row/re-set){}; \\
             everything else (threshold generator, scenarios, small histories) is sampled",
            n_bases,
            if args.thorough() { " and the plain 1100-row load" } else { ", and every second base (parity from the seed) with the plain 1100-row load" }
        );
    }

    let mut first_break: Option<String> = None;
    let mut repr_mismatch = 0u64;
    let mut real_phase_s = 0f64;
    let mut seen_band_obs: std::collections::HashMap<(&'static str, String), u32> = std::collections::HashMap::new();
    for chunk in cases.chunks(2000) {
        let rendered: Vec<String> = chunk.iter().map(|c| c.text.clone().unwrap_or_else(|| render(&c.items))).collect();
        let t_real = std::time::Instant::now();
        let real: Vec<RealRun> = std::thread::scope(|sc| {
            let hs: Vec<_> = chunk
                .chunks((chunk.len() + 11) / 12)
                .map(|part| sc.spawn(move || part.iter().map(|c| std::panic::catch_unwind(|| run_real(&c.items)).ok()).collect::<Vec<_>>()))
                .collect();
            hs.into_iter()
                .flat_map(|h| h.join().expect("real thread"))
                .map(|r| r.unwrap_or(RealRun { byid_mismatch: None, obs: "panic".into(), repr_changes: 0, events: vec![], panic_at: None }))
                .collect()
        });
        // Large-band cases whose implementation observations are byte-identical to those of a
        // band already sent to the Lean driver are not sent again: observations carry no row
        // numbers and both the model and the map specification are invariant under shifting
        // every row, so the Lean verdict would be the same.  Always sent: the first two bands of
        // every distinct observation text (so any band that reads differently is checked by
        // Lean on its own), one band in 128 chosen by the seed, and everything that is not a band.
        real_phase_s += t_real.elapsed().as_secs_f64();
        let mut send: Vec<bool> = Vec::with_capacity(chunk.len());
        for (c, rr) in chunk.iter().zip(real.iter()) {
            send.push(match c.band {
                None => true,
                Some((family, base)) => {
                    let n = seen_band_obs.entry((family, rr.obs.clone())).or_insert(0u32);
                    *n += 1;
                    rr.panic_at.is_none() && (*n <= 2 || base % 128 == (args.seed % 128) as usize)
                }
            });
        }
        let mut lines = Vec::with_capacity(chunk.len() * 2);
        for ((r, o), snd) in rendered.iter().zip(real.iter()).zip(send.iter()) {
            if *snd {
                lines.push(format!("run {}", r));
                lines.push(format!("spec {} {}", r, o.obs));
            } else {
                lines.push("skip".to_string()); // answered `bad-op`; not interpreted
                lines.push("skip".to_string());
            }
        }
        if let Ok(p) = std::env::var("VERIF_C30_DUMP") {
            std::fs::write(p, lines.join("\n") + "\n").ok(); // debugging aid: the driver requests of this chunk
        }
        // big cases are expensive in the driver: spread lines over processes round-robin
        let replies = {
            let n = 12usize;
            let mut parts: Vec<Vec<String>> = vec![vec![]; n];
            for (i, l) in lines.iter().enumerate() {
                parts[(i / 2) % n].push(l.clone());
            }
            let outs: Vec<Vec<String>> = std::thread::scope(|sc| {
                let hs: Vec<_> = parts.iter().map(|p| sc.spawn(|| if p.is_empty() { vec![] } else { driver::batch(&exe, p) })).collect();
                hs.into_iter().map(|h| h.join().expect("driver thread")).collect()
            });
            let mut idx = vec![0usize; n];
            let mut all = Vec::with_capacity(lines.len());
            for i in 0..lines.len() {
                let p = (i / 2) % n;
                all.push(outs[p][idx[p]].clone());
                idx[p] += 1;
            }
            all
        };
        for (k, case) in chunk.iter().enumerate() {
            let c = &case.items;
            let m = &replies[2 * k];
            let s = &replies[2 * k + 1];
            let rr = &real[k];
            let nt = rr.events.iter().any(|e| e.starts_with("repr:promotion") || e.starts_with("repr:demotion") || e.starts_with("repr:spill-from-dense"));
            rep.case(&rendered[k], nt);
            let mut ev: std::collections::BTreeMap<&str, u64> = std::collections::BTreeMap::new();
            for e in &rr.events {
                *ev.entry(e).or_insert(0) += 1;
            }
            let mut n_ops = [0u64; 6];
            for it in c {
                n_ops[match it {
                    Item::Set(..) => 0,
                    Item::Remove(..) => 1,
                    Item::Clear(..) => 2,
                    Item::Sweep => 3,
                    Item::QSet(..) => 4,
                    Item::Probe(..) => 5,
                }] += 1;
            }
            for (name, n) in ["op:set_property", "op:remove_property", "op:clear_row", "obs:full_sweep", "op:set_property(unobserved, id-ordered load)", "obs:row_probe"].iter().zip(n_ops) {
                if n > 0 {
                    rep.count_n(name, n);
                }
            }
            for (e, n) in ev {
                rep.count_n(e, n);
            }
            if let Some((family, _)) = case.band {
                rep.count(&format!("band:{}", family));
                if rr.events.iter().any(|e| e.starts_with("repr:promotion")) {
                    rep.count(&format!("band:{}:promotion_observed", family));
                }
            }
            if nt && rep.samples.len() < 3 {
                let head: String = rendered[k].chars().take(160).collect();
                rep.sample(json!({"ops_head": head, "n_ops": c.len(), "repr_changes": rr.repr_changes, "events": rr.events.iter().take(8).collect::<Vec<_>>()}));
            }
            let short = |x: &str| -> String { if x.len() > 4000 { format!("{}…[{} bytes]", &x[..4000], x.len()) } else { x.to_string() } };
            let body = format!("ops {}\nimpl  {}\nmodel {}\nspec  {}", rendered[k], short(&rr.obs), short(m), s);
            if !send[k] && rr.panic_at.is_none() {
                rep.count("band:observations_identical_to_a_lean_checked_band(not re-sent)");
                continue;
            }
            if case.band.is_some() && rr.panic_at.is_none() {
                rep.count("band:lean_checked(model+spec)");
            }
            if let Some((step, item)) = &rr.panic_at {
                rep.count("impl_panic");
                let whre = match case.band {
                    Some((family, base)) => format!(" (large-band family `{}`, band starting at row {})", family, base),
                    None => String::new(),
                };
                rep.spec_violation(
                    &known,
                    "panic",
                    &format!("ColumnStore panicked in `{}` (item #{} of a history of {} items){}", item, step, c.len(), whre),
                    &format!("# panic at item #{} `{}`{}\n{}", step, item, whre, body),
                );
                continue;
            }
            if rr.obs == "panic" {
                rep.count("impl_panic");
                rep.spec_violation(&known, "panic", &format!("ColumnStore panicked on a history of {} ops", c.len()), &body);
                continue;
            }
            if let Some(w) = &rr.byid_mismatch {
                rep.count("spec_violation:get_by_id-differs");
                rep.spec_violation(&known, "get_by_id-differs", &format!("ColumnStore::get_by_id disagrees with get_property ({}) in a history of {} ops", w, c.len()), &body);
            }
            if s != "ok" {
                let sig = match s.strip_prefix("viol ").and_then(|x| x.parse::<usize>().ok()) {
                    Some(i) => match c.iter().filter(|it| !matches!(it, Item::QSet(..))).nth(i) {
                        Some(Item::Set(..)) => "read-after-set",
                        Some(Item::Remove(..)) => "read-after-remove",
                        Some(Item::Clear(..)) => "read-after-clear-row",
                        Some(Item::Probe(..)) => "read-after-load",
                        _ => "sweep",
                    },
                    None => "driver-rejected",
                };
                rep.count(&format!("spec_violation:{}", sig));
                rep.spec_violation(&known, sig, &format!("ColumnStore reads differ from the (row,key) map at {} in a history of {} ops", s, c.len()), &body);
            } else {
                let mo = m.strip_prefix("ok ").unwrap_or(m);
                if without_dense(mo) != without_dense(&rr.obs) {
                    rep.count("model_mismatch");
                    first_break.get_or_insert(body);
                } else if mo != rr.obs {
                    repr_mismatch += 1; // same reads, different representation: histogram only
                }
            }
        }
    }
    rep.count_n("repr:model_vs_impl_is_dense_differs(not compared)", repr_mismatch);
    if let Some(body) = first_break {
        if rep.spec_violations.is_empty() {
            rep.correspondence_break(
                "SgModel.Column.Store.step rustPolicy = ColumnStore::{set_property,remove_property,clear_row} (get_property, get_property_keys, Column::len)",
                "model and implementation observations differ but the specification holds on all explored cases",
                &body,
            );
        }
    }
    let repr_events: std::collections::BTreeMap<String, u64> =
        rep.histogram.iter().filter(|(k, _)| k.starts_with("repr:")).map(|(k, v)| (k.clone(), *v)).collect();
    rep.extra.insert("repr_events".into(), json!(repr_events));
    rep.extra.insert("real_phase_s".into(), json!(real_phase_s));
    rep.write(&args.out);
}
