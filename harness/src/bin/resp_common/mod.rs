//! Shared by c20 / c21 / c22: the text form of `RespValue` used on the driver protocol,
//! the replica of `handle_connection`'s decode loop around the real `RespValue::decode`,
//! corpus reading, and a tiny child-process protocol (for effects that kill a process).
#![allow(dead_code)]
use bytes::BytesMut;
use samyama::protocol::resp::{RespError, RespValue};
use std::io::{BufRead, BufReader, Write};
use std::panic::{catch_unwind, AssertUnwindSafe};
use std::process::{Child, ChildStdin, ChildStdout, Command, Stdio};

pub fn hex0(bytes: &[u8]) -> String {
    let mut s = String::with_capacity(bytes.len() * 2);
    for b in bytes {
        s.push(char::from_digit((*b >> 4) as u32, 16).unwrap());
        s.push(char::from_digit((*b & 15) as u32, 16).unwrap());
    }
    s
}
/// `-` for the empty string (a token on the line protocol must not be empty)
pub fn hexd(bytes: &[u8]) -> String {
    if bytes.is_empty() { "-".into() } else { hex0(bytes) }
}
pub fn unhex(s: &str) -> Option<Vec<u8>> {
    if s == "-" { return Some(vec![]); }
    if s.len() % 2 != 0 { return None; }
    (0..s.len()).step_by(2).map(|i| u8::from_str_radix(&s[i..i + 2], 16).ok()).collect()
}

/// S<hex>. E<hex>. I<int>. B<hex>. N. Z. A<n>.<items>   (same grammar as Driver/Resp.lean)
pub fn val_text(v: &RespValue, out: &mut String) {
    match v {
        RespValue::SimpleString(s) => { out.push('S'); out.push_str(&hex0(s.as_bytes())); out.push('.'); }
        RespValue::Error(s) => { out.push('E'); out.push_str(&hex0(s.as_bytes())); out.push('.'); }
        RespValue::Integer(i) => { out.push_str(&format!("I{}.", i)); }
        RespValue::BulkString(None) => out.push_str("N."),
        RespValue::BulkString(Some(d)) => { out.push('B'); out.push_str(&hex0(d)); out.push('.'); }
        RespValue::Array(items) => {
            out.push_str(&format!("A{}.", items.len()));
            for i in items { val_text(i, out); }
        }
        RespValue::Null => out.push_str("Z."),
    }
}
pub fn vtext(v: &RespValue) -> String {
    let mut s = String::new();
    val_text(v, &mut s);
    s
}
pub fn parse_val(s: &[u8], pos: &mut usize) -> Option<RespValue> {
    let tag = *s.get(*pos)?;
    *pos += 1;
    let start = *pos;
    while *s.get(*pos)? != b'.' { *pos += 1; }
    let body = std::str::from_utf8(&s[start..*pos]).ok()?;
    *pos += 1;
    Some(match tag {
        b'S' => RespValue::SimpleString(String::from_utf8(unhex_e(body)?).ok()?),
        b'E' => RespValue::Error(String::from_utf8(unhex_e(body)?).ok()?),
        b'I' => RespValue::Integer(body.parse().ok()?),
        b'B' => RespValue::BulkString(Some(unhex_e(body)?)),
        b'N' => RespValue::BulkString(None),
        b'Z' => RespValue::Null,
        b'A' => {
            let n: usize = body.parse().ok()?;
            let mut v = Vec::new();
            for _ in 0..n { v.push(parse_val(s, pos)?); }
            RespValue::Array(v)
        }
        _ => return None,
    })
}
fn unhex_e(s: &str) -> Option<Vec<u8>> { if s.is_empty() { Some(vec![]) } else { unhex(s) } }

/// a thing a client writes: a RESP value (encoded by the real `encode`) or an inline line
#[derive(Clone, Debug)]
pub enum Frame {
    Resp(RespValue),
    Inline(Vec<u8>),
}
pub fn frame_text(f: &Frame) -> String {
    match f {
        Frame::Resp(v) => vtext(v),
        Frame::Inline(l) => format!("L{}.", hex0(l)),
    }
}
pub fn frames_text(fs: &[Frame]) -> String {
    if fs.is_empty() { return "-".into(); }
    fs.iter().map(frame_text).collect()
}
pub fn parse_frames(s: &str) -> Option<Vec<Frame>> {
    if s == "-" { return Some(vec![]); }
    let b = s.as_bytes();
    let mut pos = 0;
    let mut out = vec![];
    while pos < b.len() {
        if b[pos] == b'L' {
            let start = pos + 1;
            while *b.get(pos)? != b'.' { pos += 1; }
            out.push(Frame::Inline(unhex_e(std::str::from_utf8(&b[start..pos]).ok()?)?));
            pos += 1;
        } else {
            out.push(Frame::Resp(parse_val(b, &mut pos)?));
        }
    }
    Some(out)
}
/// bytes on the wire, using the real encoder
pub fn frame_bytes(f: &Frame) -> Vec<u8> {
    match f {
        Frame::Resp(v) => { let mut b = Vec::new(); v.encode(&mut b).expect("encode"); b }
        Frame::Inline(l) => { let mut b = l.clone(); b.extend_from_slice(b"\r\n"); b }
    }
}

pub fn chunks_text(chunks: &[Vec<u8>]) -> String {
    if chunks.is_empty() { return "-".into(); }
    chunks.iter().map(|c| hexd(c)).collect::<Vec<_>>().join(",")
}
pub fn parse_chunks(s: &str) -> Option<Vec<Vec<u8>>> {
    s.split(',').map(unhex).collect()
}

#[derive(Clone, Debug, PartialEq)]
pub enum Ev { Cmd(RespValue), ProtoErr, Crash }
pub fn events_text(evs: &[Ev]) -> String {
    if evs.is_empty() { return "-".into(); }
    let mut s = String::new();
    for e in evs {
        match e { Ev::Cmd(v) => val_text(v, &mut s), Ev::ProtoErr => s.push_str("X."), Ev::Crash => s.push_str("P.") }
    }
    s
}

/// The decode loop of `server.rs::handle_connection`, verbatim but for the socket: every
/// chunk is one `read_buf` result appended to the connection buffer, then
/// `loop { match RespValue::decode(&mut buffer) {..} }` with the same four arms
/// (value -> handler, Ok(None) -> break, Err(Incomplete) -> break, Err(e) -> reply, break).
/// A panic of the decoder ends the connection task (recorded as Crash).
pub fn real_feed(chunks: &[Vec<u8>]) -> (Vec<Ev>, Vec<u8>) {
    let mut buffer = BytesMut::with_capacity(4096);
    let mut evs = vec![];
    for chunk in chunks {
        if chunk.is_empty() { continue; }          // a read of 0 bytes is EOF, never a chunk
        buffer.extend_from_slice(chunk);
        loop {
            let r = catch_unwind(AssertUnwindSafe(|| RespValue::decode(&mut buffer)));
            match r {
                Ok(Ok(Some(value))) => evs.push(Ev::Cmd(value)),
                Ok(Ok(None)) => break,
                Ok(Err(RespError::Incomplete)) => break,
                Ok(Err(_e)) => { evs.push(Ev::ProtoErr); break; }
                Err(_) => { evs.push(Ev::Crash); return (evs, buffer.to_vec()); }
            }
        }
    }
    (evs, buffer.to_vec())
}

/// one decode call: (class, value text, remaining buffer); class V / M / X / P
pub fn real_decode_once(input: &[u8]) -> (char, String, Vec<u8>) {
    let mut buffer = BytesMut::from(input);
    let r = catch_unwind(AssertUnwindSafe(|| RespValue::decode(&mut buffer)));
    match r {
        Ok(Ok(Some(v))) => ('V', vtext(&v), buffer.to_vec()),
        Ok(Ok(None)) | Ok(Err(RespError::Incomplete)) => ('M', String::new(), buffer.to_vec()),
        Ok(Err(_)) => ('X', String::new(), buffer.to_vec()),
        Err(_) => ('P', String::new(), buffer.to_vec()),
    }
}

pub fn silence_panics() {
    std::panic::set_hook(Box::new(|_| {}));
}

/// corpus lines: `#` comments, blank lines skipped; returns (keyword, rest-of-line)
pub fn corpus_lines(dir: &std::path::Path, replay: &Option<std::path::PathBuf>) -> Vec<(String, String)> {
    let mut files: Vec<std::path::PathBuf> = vec![];
    if let Some(r) = replay {
        files.push(r.clone());
    } else if let Ok(rd) = std::fs::read_dir(dir) {
        files = rd.filter_map(|e| e.ok().map(|e| e.path())).collect();
        files.sort();
    }
    let mut out = vec![];
    for f in files {
        for line in std::fs::read_to_string(&f).unwrap_or_default().lines() {
            let line = line.trim();
            if line.is_empty() || line.starts_with('#') { continue; }
            let (k, rest) = line.split_once(' ').unwrap_or((line, ""));
            out.push((k.to_string(), rest.trim().to_string()));
        }
    }
    out
}

/// A child process of the same binary speaking a line protocol (one request line, one
/// reply line, flushed).  If the child dies, `ask` returns Err(exit description).
pub struct Kid { child: Child, stdin: ChildStdin, stdout: BufReader<ChildStdout> }
impl Kid {
    pub fn spawn(mode: &str) -> Kid {
        let exe = std::env::current_exe().expect("current_exe");
        let mut child = Command::new(exe).arg("--child").arg(mode)
            .stdin(Stdio::piped()).stdout(Stdio::piped()).stderr(Stdio::null())
            .spawn().expect("spawn child");
        let stdin = child.stdin.take().unwrap();
        let stdout = BufReader::new(child.stdout.take().unwrap());
        Kid { child, stdin, stdout }
    }
    pub fn ask(&mut self, line: &str) -> Result<String, String> {
        let w = self.stdin.write_all(line.as_bytes()).and_then(|_| self.stdin.write_all(b"\n")).and_then(|_| self.stdin.flush());
        let mut s = String::new();
        let n = if w.is_ok() { self.stdout.read_line(&mut s).unwrap_or(0) } else { 0 };
        if n == 0 {
            let st = self.child.wait().map(|s| format!("{:?}", s)).unwrap_or_else(|e| e.to_string());
            return Err(st);
        }
        Ok(s.trim_end().to_string())
    }
}
impl Drop for Kid {
    fn drop(&mut self) { let _ = self.child.kill(); let _ = self.child.wait(); }
}

/// A live `RespServer` (the real `handle_connection`) on a loopback port.
pub struct Live { pub rt: tokio::runtime::Runtime, pub port: u16, handle: tokio::task::JoinHandle<()> }
impl Live {
    pub fn start() -> Option<Live> { Live::start_with(None) }
    /// `remote`: Some(port) configures sharding: tenant `remote` is owned by node 2 at that port,
    /// so `GRAPH.* remote …` takes the forwarding branch of `handle_connection`
    pub fn start_with(remote: Option<u16>) -> Option<Live> {
        let rt = tokio::runtime::Builder::new_multi_thread().worker_threads(2).enable_all().build().ok()?;
        let port = { let l = std::net::TcpListener::bind("127.0.0.1:0").ok()?; l.local_addr().ok()?.port() };
        let store = std::sync::Arc::new(tokio::sync::RwLock::new(samyama::graph::GraphStore::new()));
        let cfg = samyama::protocol::ServerConfig { address: "127.0.0.1".into(), port, max_connections: 100, data_path: None };
        let mut server = samyama::protocol::RespServer::new(cfg, store);
        if let Some(rp) = remote {
            let router = std::sync::Arc::new(samyama::sharding::Router::new(1));
            router.update_route("remote".to_string(), 2);
            router.update_route("local".to_string(), 1);
            let mut cc = samyama::raft::ClusterConfig::new("verif".to_string(), 1);
            cc.add_node(1, format!("127.0.0.1:{}", port), true);
            cc.add_node(2, format!("127.0.0.1:{}", rp), true);
            let cm = std::sync::Arc::new(samyama::raft::ClusterManager::new(cc).ok()?);
            server = server.with_sharding(router, std::sync::Arc::new(samyama::sharding::Proxy::new()), cm);
        }
        let handle = rt.spawn(async move { let _ = server.start().await; });
        for _ in 0..200 {
            if std::net::TcpStream::connect(("127.0.0.1", port)).is_ok() { return Some(Live { rt, port, handle }); }
            std::thread::sleep(std::time::Duration::from_millis(20));
        }
        None
    }
    /// write the chunks (one write per chunk, TCP_NODELAY), read until `want` replies were
    /// decoded by the real decoder or the peer goes quiet; returns (replies, raw bytes read)
    pub fn exchange(&self, chunks: &[Vec<u8>], want: usize, quiet_ms: u64) -> (Vec<RespValue>, Vec<u8>) {
        use std::io::Read;
        let mut s = match std::net::TcpStream::connect(("127.0.0.1", self.port)) { Ok(s) => s, Err(_) => return (vec![], vec![]) };
        s.set_nodelay(true).ok();
        s.set_read_timeout(Some(std::time::Duration::from_millis(quiet_ms))).ok();
        let mut rs = s.try_clone().unwrap();
        let reader = std::thread::spawn(move || {
            let mut raw = vec![];
            let mut got: Vec<RespValue> = vec![];
            let mut buf = BytesMut::new();
            let mut tmp = [0u8; 65536];
            loop {
                match rs.read(&mut tmp) {
                    Ok(0) | Err(_) => break,
                    Ok(k) => {
                        raw.extend_from_slice(&tmp[..k]);
                        buf.extend_from_slice(&tmp[..k]);
                        while let Ok(Some(v)) = RespValue::decode(&mut buf) { got.push(v); }
                        if got.len() >= want && buf.is_empty() {
                            // one more short wait: a forged extra frame would arrive right behind
                            rs.set_read_timeout(Some(std::time::Duration::from_millis(30))).ok();
                        }
                    }
                }
            }
            (got, raw)
        });
        for c in chunks {
            if s.write_all(c).is_err() { break; }
            s.flush().ok();
            std::thread::sleep(std::time::Duration::from_micros(500));
        }
        reader.join().unwrap()
    }
}
impl Drop for Live {
    fn drop(&mut self) { self.handle.abort(); }
}

/// A scripted "owning node": every accepted connection reads the forwarded command, then
/// writes the next scripted reply chunk by chunk (40 ms apart, so that the proxy sees separate
/// reads) and closes.
pub struct FakeRemote { pub port: u16, script: std::sync::Arc<std::sync::Mutex<std::collections::VecDeque<Vec<Vec<u8>>>>> }
impl FakeRemote {
    pub fn start() -> Option<FakeRemote> {
        use std::io::Read;
        let l = std::net::TcpListener::bind("127.0.0.1:0").ok()?;
        let port = l.local_addr().ok()?.port();
        let script: std::sync::Arc<std::sync::Mutex<std::collections::VecDeque<Vec<Vec<u8>>>>> = Default::default();
        let sc = script.clone();
        std::thread::spawn(move || {
            for conn in l.incoming() {
                let Ok(mut c) = conn else { continue };
                let Some(chunks) = sc.lock().unwrap().pop_front() else { continue };   // probe connections get nothing
                c.set_nodelay(true).ok();
                c.set_read_timeout(Some(std::time::Duration::from_secs(2))).ok();
                let mut tmp = [0u8; 4096];
                let _ = c.read(&mut tmp);
                for (i, ch) in chunks.iter().enumerate() {
                    if i > 0 { std::thread::sleep(std::time::Duration::from_millis(40)); }
                    if c.write_all(ch).is_err() { break; }
                    let _ = c.flush();
                }
                // closing right away: anything still unread by the proxy stays readable on its side
            }
        });
        Some(FakeRemote { port, script })
    }
    pub fn push(&self, chunks: Vec<Vec<u8>>) { self.script.lock().unwrap().push_back(chunks); }
}
