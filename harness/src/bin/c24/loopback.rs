//! A scripted "LLM" on 127.0.0.1: answers every POST with the next scripted text in the
//! Ollama reply format (`{"response": "..."}`), so that the real `NLQPipeline::text_to_cypher`
//! (prompt -> reqwest client -> extract_cypher -> is_safe_query) runs end to end offline.
use std::io::{Read, Write};
use std::net::{TcpListener, TcpStream};
use std::sync::{Arc, Mutex};

pub struct Loopback {
    pub url: String,
    next: Arc<Mutex<String>>,
}

fn serve(mut s: TcpStream, next: &Arc<Mutex<String>>) {
    let _ = s.set_nodelay(true);
    let mut buf: Vec<u8> = Vec::new();
    let mut tmp = [0u8; 8192];
    loop {
        // read one request (headers + Content-Length body); keep the connection alive
        let header_end;
        loop {
            if let Some(p) = buf.windows(4).position(|w| w == b"\r\n\r\n") {
                header_end = p + 4;
                break;
            }
            match s.read(&mut tmp) {
                Ok(0) | Err(_) => return,
                Ok(n) => buf.extend_from_slice(&tmp[..n]),
            }
        }
        let head = String::from_utf8_lossy(&buf[..header_end]).to_ascii_lowercase();
        let clen = head
            .lines()
            .find_map(|l| l.strip_prefix("content-length:").map(|v| v.trim().parse::<usize>().unwrap_or(0)))
            .unwrap_or(0);
        while buf.len() < header_end + clen {
            match s.read(&mut tmp) {
                Ok(0) | Err(_) => return,
                Ok(n) => buf.extend_from_slice(&tmp[..n]),
            }
        }
        buf.drain(..header_end + clen);
        let text = next.lock().unwrap().clone();
        let body = serde_json::json!({ "response": text }).to_string();
        let resp = format!(
            "HTTP/1.1 200 OK\r\nContent-Type: application/json\r\nContent-Length: {}\r\n\r\n{}",
            body.len(),
            body
        );
        if s.write_all(resp.as_bytes()).is_err() {
            return;
        }
    }
}

impl Loopback {
    pub fn start() -> std::io::Result<Loopback> {
        let l = TcpListener::bind("127.0.0.1:0")?;
        let port = l.local_addr()?.port();
        let next = Arc::new(Mutex::new(String::new()));
        let n2 = next.clone();
        std::thread::spawn(move || {
            for c in l.incoming() {
                if let Ok(s) = c {
                    let n3 = n2.clone();
                    std::thread::spawn(move || serve(s, &n3));
                }
            }
        });
        Ok(Loopback { url: format!("http://127.0.0.1:{}", port), next })
    }
    /// the text the next request is answered with
    pub fn script(&self, text: &str) {
        *self.next.lock().unwrap() = text.to_string();
    }
}
