//! C15 — write-ahead log: real `samyama::persistence::wal::Wal` vs the Lean model `SgModel.Wal`,
//! and the executable specification evaluated on the implementation's observations.
//!
//! A case is an op history (append / flush / checkpoint / reopen / crash / sync on|off) run on a
//! real `Wal` in a scratch directory, followed by *variants* of the resulting directory image:
//! a file truncated at a byte offset, or one byte XOR-ed with a mask.  Each variant is opened
//! with `Wal::new` and replayed with `replay(from, ·)` for every `from` in `0 ..= top`.
//!
//! Text form of a case (corpus / replay files):   `case <OPS> <VARS>`
//!   OPS  := op(;op)*   op := a<kind> | f | c | r | k<permille> | s0 | s1
//!   VARS := none | sample | all | v(;v)*   v := t.<file>.<k> | f.<file>.<offset>.<mask>
use samyama::persistence::wal::{Wal, WalEntry, WalError};
use serde_json::json;
use std::collections::HashMap;
use std::panic::{catch_unwind, AssertUnwindSafe};
use std::path::{Path, PathBuf};
use vharness::util::hex;
use vharness::{driver, Args, Known, Report, Rng};

const KINDS: u64 = 8;
/// kinds the PRNG generators draw from (kind 7, a 70 kB record, only appears in fixed cases)
const RAND_KINDS: u64 = 7;

#[derive(Clone, Debug, PartialEq)]
enum Op {
    Append(u64),
    Flush,
    Checkpoint,
    Reopen,
    Crash(u64), // permille of the not-yet-durable bytes that reach the disk
    Sync(bool),
}

#[derive(Clone, Debug)]
enum VarSel {
    None,
    Sample,
    All,
    List(Vec<Var>),
}

#[derive(Clone, Debug, PartialEq)]
enum Var {
    Intact,
    Trunc(usize, usize),
    Flip(usize, usize, u8),
}

fn show_ops(ops: &[Op]) -> String {
    ops.iter()
        .map(|o| match o {
            Op::Append(k) => format!("a{}", k),
            Op::Flush => "f".into(),
            Op::Checkpoint => "c".into(),
            Op::Reopen => "r".into(),
            Op::Crash(p) => format!("k{}", p),
            Op::Sync(b) => format!("s{}", *b as u8),
        })
        .collect::<Vec<_>>()
        .join(";")
}

fn parse_ops(s: &str) -> Option<Vec<Op>> {
    let mut v = vec![];
    for t in s.split(';') {
        v.push(match t {
            "f" => Op::Flush,
            "c" => Op::Checkpoint,
            "r" => Op::Reopen,
            "s0" => Op::Sync(false),
            "s1" => Op::Sync(true),
            _ if t.starts_with('a') => Op::Append(t[1..].parse().ok()?),
            _ if t.starts_with('k') => Op::Crash(t[1..].parse().ok()?),
            _ => return None,
        });
    }
    Some(v)
}

fn show_var(v: &Var) -> String {
    match v {
        Var::Intact => "n".into(),
        Var::Trunc(i, k) => format!("t.{}.{}", i, k),
        Var::Flip(i, p, m) => format!("f.{}.{}.{}", i, p, m),
    }
}

fn parse_vars(s: &str) -> Option<VarSel> {
    Some(match s {
        "none" => VarSel::None,
        "sample" => VarSel::Sample,
        "all" => VarSel::All,
        _ => {
            let mut v = vec![];
            for t in s.split(';') {
                let f: Vec<&str> = t.split('.').collect();
                v.push(match f.as_slice() {
                    ["n"] => Var::Intact,
                    ["t", i, k] => Var::Trunc(i.parse().ok()?, k.parse().ok()?),
                    ["f", i, p, m] => Var::Flip(i.parse().ok()?, p.parse().ok()?, m.parse().ok()?),
                    _ => return None,
                });
            }
            VarSel::List(v)
        }
    })
}

/// entries are pairwise distinct (the op ordinal is inside) and small-valued
fn mk_entry(kind: u64, tag: u64) -> WalEntry {
    match kind % KINDS {
        0 => WalEntry::DeleteNode { tenant: "".into(), node_id: tag },
        1 => WalEntry::DeleteEdge { tenant: "t".into(), edge_id: tag },
        2 => WalEntry::CreateNode {
            tenant: "".into(),
            node_id: tag,
            labels: vec!["L".into()],
            properties: vec![tag as u8 & 15; (tag % 5) as usize],
        },
        3 => WalEntry::UpdateNodeProperties { tenant: "ab".into(), node_id: tag, properties: vec![1, 2, 3], version: tag },
        4 => WalEntry::CreateEdge {
            tenant: "t".into(),
            edge_id: tag,
            source: 1,
            target: 2,
            edge_type: "R".into(),
            properties: vec![],
        },
        6 => WalEntry::UpdateEdgeProperties {
            // frame length > 255: the second byte of the length prefix is non-zero
            tenant: "t".into(),
            edge_id: tag,
            properties: (0..300u32).map(|i| (i % 7) as u8).collect(),
            version: 1,
        },
        7 => WalEntry::UpdateNodeProperties {
            // frame length > 65535 and larger than the BufWriter buffer (written through without a flush)
            tenant: "".into(),
            node_id: tag,
            properties: (0..70_000u32).map(|i| (i % 5) as u8).collect(),
            version: 2,
        },
        _ => {
            // 12 payload bytes whose last four spell the checksum of the entry with the payload cut to 8
            // (the witness of the frame-size defect: flip the payload length 12 -> 8)
            let mk = |p: Vec<u8>| WalEntry::CreateNode { tenant: "".into(), node_id: tag, labels: vec![], properties: p };
            let mut props = vec![1u8, 2, 3, 4, 5, 6, 7, 8, 0, 0, 0, 0];
            let x = bincode::serialize(&mk(props[..8].to_vec())).unwrap().iter().fold(0u8, |a, b| a ^ b);
            props[8] = x;
            mk(props)
        }
    }
}

fn list_files(dir: &Path) -> Vec<(u64, PathBuf, Vec<u8>)> {
    let mut v: Vec<(String, PathBuf)> = std::fs::read_dir(dir)
        .unwrap()
        .flatten()
        .filter_map(|e| {
            let n = e.file_name().to_str()?.to_string();
            (n.starts_with("wal-") && n.ends_with(".log")).then(|| (n, e.path()))
        })
        .collect();
    v.sort();
    v.into_iter()
        .map(|(n, p)| {
            let name = u64::from_str_radix(&n[4..n.len() - 4], 16).unwrap_or(u64::MAX);
            let b = std::fs::read(&p).unwrap();
            (name, p, b)
        })
        .collect()
}

struct Hist {
    ops_txt: String,       // text form (kinds, permille)
    ents: Vec<Vec<u8>>,    // entry table
    model_ops: String,     // OPS of the driver protocol (entry indices, crash byte counts)
    opobs: String,         // OPOBS
    files: Vec<(u64, Vec<u8>)>,
    app: Vec<(u64, usize)>, // (reported sequence, entry index) per appended record
}

/// run the history on the real Wal
fn run_real(dir: &Path, ops: &[Op]) -> Hist {
    let _ = std::fs::remove_dir_all(dir);
    let mut wal = Some(Wal::new(dir).expect("Wal::new"));
    let mut is_open = false;
    let mut ents: Vec<Vec<u8>> = vec![];
    let mut mops = vec![];
    let mut obs = vec![];
    let mut app = vec![];
    for (ord, op) in ops.iter().enumerate() {
        let mut ret = "-".to_string();
        match op {
            Op::Append(kind) => {
                let e = mk_entry(*kind, ord as u64 + 1);
                ents.push(bincode::serialize(&e).unwrap());
                let s = wal.as_mut().unwrap().append(e).expect("append");
                ret = s.to_string();
                app.push((s, ents.len() - 1));
                mops.push(format!("a{}", ents.len() - 1));
                is_open = true;
            }
            Op::Flush => {
                wal.as_mut().unwrap().flush().expect("flush");
                mops.push("f".into());
            }
            Op::Checkpoint => {
                wal.as_mut().unwrap().checkpoint(1000 + ord as u64).expect("checkpoint");
                // the marker's bytes (it carries a timestamp) are read back from the closed file
                let fs = list_files(dir);
                let b = &fs.last().expect("file after checkpoint").2;
                ents.push(b[b.len() - 24..b.len() - 4].to_vec());
                app.push((wal.as_ref().unwrap().current_sequence(), ents.len() - 1));
                mops.push(format!("c{}", ents.len() - 1));
                is_open = false;
            }
            Op::Reopen => {
                wal = None;
                wal = Some(Wal::new(dir).expect("Wal::new"));
                mops.push("r".into());
                is_open = false;
            }
            Op::Crash(permille) => {
                // bytes that already reached the file vs. bytes the BufWriter still holds
                let newest = list_files(dir).last().map(|f| f.1.clone());
                let disk = newest.as_ref().map(|p| std::fs::metadata(p).unwrap().len()).unwrap_or(0);
                wal = None; // writes out the buffer …
                let mut k = 0;
                if is_open {
                    let p = newest.unwrap();
                    let full = std::fs::metadata(&p).unwrap().len();
                    k = disk + (full - disk) * permille.min(&1000) / 1000;
                    // … of which only `k` bytes survive the crash
                    let f = std::fs::OpenOptions::new().write(true).open(&p).unwrap();
                    f.set_len(k).unwrap();
                }
                wal = Some(Wal::new(dir).expect("Wal::new"));
                mops.push(format!("k{}", k));
                is_open = false;
            }
            Op::Sync(b) => {
                wal.as_mut().unwrap().set_sync_mode(*b);
                mops.push(format!("s{}", *b as u8));
            }
        }
        obs.push(format!("{}/{}", ret, wal.as_ref().unwrap().current_sequence()));
    }
    drop(wal);
    let files = list_files(dir).into_iter().map(|(n, _, b)| (n, b)).collect();
    Hist {
        ops_txt: show_ops(ops),
        ents,
        model_ops: if mops.is_empty() { "-".into() } else { mops.join(";") },
        opobs: if obs.is_empty() { "-".into() } else { obs.join(";") },
        files,
        app,
    }
}

fn show_files(files: &[(u64, Vec<u8>)]) -> String {
    if files.is_empty() {
        "-".into()
    } else {
        files.iter().map(|(n, b)| format!("{}:{}", n, hex(b))).collect::<Vec<_>>().join(",")
    }
}

fn show_ents(ents: &[Vec<u8>]) -> String {
    if ents.is_empty() {
        "-".into()
    } else {
        ents.iter().map(|e| hex(e)).collect::<Vec<_>>().join(",")
    }
}

/// `Wal::new(dir)` then `replay(from, ·)` for from = 0..=top, in the OBS text form
fn observe_real(dir: &Path, top: u64, idx: &HashMap<Vec<u8>, usize>) -> Result<String, String> {
    catch_unwind(AssertUnwindSafe(|| {
        let w = Wal::new(dir).expect("Wal::new");
        let mut parts = vec![w.current_sequence().to_string()];
        for from in 0..=top {
            let mut got: Vec<String> = vec![];
            let r = w.replay(from, |e| {
                let b = bincode::serialize(e).unwrap();
                got.push(match idx.get(&b) {
                    Some(i) => i.to_string(),
                    None => format!("x{}", hex(&b)),
                });
                Ok(())
            });
            let (end, last) = match r {
                Ok(l) => ("ok".to_string(), l),
                Err(WalError::Io(_)) => ("io".into(), 0),
                Err(WalError::Serialization(_)) => ("ser".into(), 0),
                Err(WalError::Corruption(q)) => (format!("c{}", q), 0),
                Err(WalError::InvalidEntry(_)) => ("invalid".into(), 0),
            };
            parts.push(format!("{}/{}/{}", if got.is_empty() { "-".into() } else { got.join(".") }, end, last));
        }
        parts.join("|")
    }))
    .map_err(|_| "panic".to_string())
}

/// which field of which record a byte offset of an intact file falls into
fn locate(recs: &[(u64, usize)], ents: &[Vec<u8>], mut p: usize) -> Option<(usize, &'static str)> {
    for (j, (_, ei)) in recs.iter().enumerate() {
        let n = ents[*ei].len();
        if p < 4 {
            return Some((j, "len"));
        } else if p < 12 {
            return Some((j, "seq"));
        } else if p < 12 + n {
            return Some((j, "entry"));
        } else if p < 16 + n {
            return Some((j, "cksum"));
        }
        p -= 16 + n;
    }
    None
}

/// the intact records of a file, by walking its frames (stops at a torn tail)
fn file_recs(bytes: &[u8], idx: &HashMap<Vec<u8>, usize>, seq_of: &HashMap<usize, u64>) -> Result<Vec<(u64, usize)>, String> {
    let mut o = 0;
    let mut v = vec![];
    while o + 4 <= bytes.len() {
        let len = u32::from_le_bytes(bytes[o..o + 4].try_into().unwrap()) as usize;
        if o + 4 + len > bytes.len() || len < 12 {
            break;
        }
        let e = &bytes[o + 12..o + 4 + len - 4];
        let ei = *idx.get(e).ok_or_else(|| format!("frame at {} holds an entry that was never appended", o))?;
        v.push((*seq_of.get(&ei).unwrap_or(&0), ei));
        o += 4 + len;
    }
    Ok(v)
}

/// decoder answers for the bodies a reader meets in (possibly damaged) file bytes
fn hints_for(bytes: &[u8], ents: &[Vec<u8>], out: &mut HashMap<Vec<u8>, Option<usize>>, notes: &mut Vec<String>) {
    let mut o = 0;
    while o + 4 <= bytes.len() {
        let len = u32::from_le_bytes(bytes[o..o + 4].try_into().unwrap()) as usize;
        if o + 4 + len > bytes.len() {
            break;
        }
        let body = &bytes[o + 4..o + 4 + len];
        if len >= 8 {
            let key = &body[8..];
            if !ents.iter().any(|e| key.starts_with(e)) && !out.contains_key(key) {
                let ans = match bincode::deserialize::<WalEntry>(key) {
                    Ok(e) => {
                        let back = bincode::serialize(&e).unwrap();
                        if !key.starts_with(&back) && notes.len() < 3 {
                            notes.push(format!("bincode re-serialisation differs from the bytes read: {}", hex(key)));
                        }
                        Some(back.len())
                    }
                    Err(_) => None,
                };
                out.insert(key.to_vec(), ans);
            }
        }
        o += 4 + len;
    }
}

fn write_image(dir: &Path, files: &[(u64, Vec<u8>)]) {
    let _ = std::fs::remove_dir_all(dir);
    std::fs::create_dir_all(dir).unwrap();
    for (n, b) in files {
        std::fs::write(dir.join(format!("wal-{:016x}.log", n)), b).unwrap();
    }
}

const MASKS: [u8; 9] = [1, 2, 4, 8, 16, 32, 64, 128, 255];

fn choose_vars(sel: &VarSel, files: &[(u64, Vec<u8>)], rng: &mut Rng) -> Vec<Var> {
    let mut v = vec![];
    match sel {
        VarSel::None => {}
        VarSel::List(l) => v = l.clone(),
        VarSel::Sample | VarSel::All => {
            v.push(Var::Intact);
            let all = matches!(sel, VarSel::All);
            for (i, (_, b)) in files.iter().enumerate() {
                // truncation: every byte offset of the newest file (of every file when `all`)
                if all || i + 1 == files.len() {
                    for k in 0..b.len() {
                        v.push(Var::Trunc(i, k));
                    }
                } else {
                    for _ in 0..3 {
                        if !b.is_empty() {
                            v.push(Var::Trunc(i, rng.usize(b.len())));
                        }
                    }
                }
                // flips: every byte (all) or a sample
                for p in 0..b.len() {
                    if all || rng.chance(1, 5) {
                        v.push(Var::Flip(i, p, *rng.pick(&MASKS)));
                    }
                }
            }
        }
    }
    v
}

struct CaseOut {
    lines: Vec<String>, // driver requests: hist, hspec [, var, vspec]
    ops_txt: String,
    vars: Vec<Var>,
    var_obs: Vec<String>,
    real_hist: String,
    regions: Vec<&'static str>,
    notes: Vec<String>,
    panics: Vec<String>,
    hist_nontrivial: bool,
    recs_err: Option<String>,
}

fn run_case(work: &Path, ops: &[Op], sel: &VarSel, rng: &mut Rng) -> CaseOut {
    let dir = work.join("h");
    let h = run_real(&dir, ops);
    let idx: HashMap<Vec<u8>, usize> = h.ents.iter().cloned().enumerate().map(|(i, e)| (e, i)).collect();
    let seq_of: HashMap<usize, u64> = h.app.iter().map(|(s, e)| (*e, *s)).collect();
    // `from` runs over every sequence handed out, one past it, and two past it (beyond the log)
    let top = h.app.iter().map(|x| x.0).max().unwrap_or(0) + 2;
    let ents = show_ents(&h.ents);
    let mut notes = vec![];
    let mut panics = vec![];
    // a replay of a few hundred bytes that takes this long is allocating a garbage frame length
    // (mis-framed log): the history itself is the failing input; observe it for `from = 0` only and
    // skip its variants, which would only cost time
    let t_obs = std::time::Instant::now();
    let probe = observe_real(&dir, 0, &idx);
    let slow_replay = t_obs.elapsed().as_millis() > 100 && h.files.iter().map(|f| f.1.len()).sum::<usize>() < 20_000;
    let top = if slow_replay { 0 } else { top };
    let final_obs = (if slow_replay { probe } else { observe_real(&dir, top, &idx) }).unwrap_or_else(|e| {
        panics.push("intact".into());
        e
    });
    let real_hist = format!("ok {} {}", h.opobs, show_files(&h.files));
    let mut lines = vec![
        format!("hist fixed {} {}", ents, h.model_ops),
        format!("hspec {} {} {} {}", ents, h.model_ops, h.opobs, final_obs),
    ];
    let hist_nontrivial = {
        // a reopen / checkpoint / crash is followed by an append
        let mut seen = false;
        let mut nt = false;
        for o in ops {
            match o {
                Op::Reopen | Op::Checkpoint | Op::Crash(_) => seen = true,
                Op::Append(_) if seen => nt = true,
                _ => {}
            }
        }
        nt
    };
    let mut out = CaseOut {
        lines: vec![],
        ops_txt: h.ops_txt.clone(),
        vars: vec![],
        var_obs: vec![],
        real_hist,
        regions: vec![],
        notes: vec![],
        panics: vec![],
        hist_nontrivial,
        recs_err: None,
    };
    let vars = if slow_replay { notes.push(format!("variants skipped, replay of the intact image is slow: `{}`", h.ops_txt)); vec![] } else { choose_vars(sel, &h.files, rng) };
    if !vars.is_empty() {
        // records per file as the implementation reported them
        let mut frecs: Vec<Vec<(u64, usize)>> = vec![];
        for (_, b) in &h.files {
            match file_recs(b, &idx, &seq_of) {
                Ok(r) => frecs.push(r),
                Err(e) => {
                    out.recs_err = Some(e);
                    frecs.push(vec![]);
                }
            }
        }
        let frecs_txt = if frecs.is_empty() {
            "_".to_string()
        } else {
            frecs
                .iter()
                .map(|f| {
                    if f.is_empty() {
                        "-".to_string()
                    } else {
                        f.iter().map(|(s, e)| format!("{}.{}", s, e)).collect::<Vec<_>>().join("+")
                    }
                })
                .collect::<Vec<_>>()
                .join(",")
        };
        let vdir = work.join("v");
        write_image(&vdir, &h.files);
        let mut hints: HashMap<Vec<u8>, Option<usize>> = HashMap::new();
        let mut vobs = vec![];
        let mut kept = vec![];
        for v in &vars {
            let (i, bytes) = match v {
                Var::Intact => (usize::MAX, vec![]),
                Var::Trunc(i, k) => {
                    if *i >= h.files.len() || *k > h.files[*i].1.len() {
                        continue;
                    }
                    (*i, h.files[*i].1[..*k].to_vec())
                }
                Var::Flip(i, p, m) => {
                    if *i >= h.files.len() || *p >= h.files[*i].1.len() || *m == 0 {
                        continue;
                    }
                    let mut b = h.files[*i].1.clone();
                    // keep the high bytes of a frame length small: `replay` allocates that many bytes
                    let mut mask = *m;
                    let mut q = *p;
                    for (_, ei) in &frecs[*i] {
                        let fl = 16 + h.ents[*ei].len();
                        if q < fl {
                            break;
                        }
                        q -= fl;
                    }
                    if q == 2 || q == 3 {
                        mask = 1;
                    }
                    b[*p] ^= mask;
                    hints_for(&b, &h.ents, &mut hints, &mut notes);
                    kept.push(Var::Flip(*i, *p, mask));
                    out.regions.push(locate(&frecs[*i], &h.ents, *p).map(|x| x.1).unwrap_or("tail"));
                    let path = vdir.join(format!("wal-{:016x}.log", h.files[*i].0));
                    std::fs::write(&path, &b).unwrap();
                    let o = observe_real(&vdir, top, &idx).unwrap_or_else(|e| {
                        panics.push(show_var(kept.last().unwrap()));
                        e
                    });
                    std::fs::write(&path, &h.files[*i].1).unwrap();
                    vobs.push(o);
                    continue;
                }
            };
            kept.push(v.clone());
            if i == usize::MAX {
                out.regions.push("intact");
                vobs.push(observe_real(&vdir, top, &idx).unwrap_or_else(|e| {
                    panics.push("n".into());
                    e
                }));
            } else {
                let inside = match v {
                    Var::Trunc(i, k) => locate(&frecs[*i], &h.ents, *k).map(|x| x.1 != "len").unwrap_or(false),
                    _ => false,
                };
                out.regions.push(if inside { "trunc-body" } else { "trunc-edge" });
                let path = vdir.join(format!("wal-{:016x}.log", h.files[i].0));
                std::fs::write(&path, &bytes).unwrap();
                vobs.push(observe_real(&vdir, top, &idx).unwrap_or_else(|e| {
                    panics.push(show_var(v));
                    e
                }));
                std::fs::write(&path, &h.files[i].1).unwrap();
            }
        }
        if !kept.is_empty() {
            let hints_txt = if hints.is_empty() {
                "-".to_string()
            } else {
                let mut hv: Vec<String> = hints
                    .iter()
                    .map(|(k, a)| format!("{}:{}", hex(k), a.map(|n| n.to_string()).unwrap_or("x".into())))
                    .collect();
                hv.sort();
                hv.join(",")
            };
            let vars_txt = kept.iter().map(show_var).collect::<Vec<_>>().join(";");
            lines.push(format!("var fixed {} {} {} {} {}", ents, top, show_files(&h.files), hints_txt, vars_txt));
            lines.push(format!(
                "vspec {} {} {}",
                ents,
                frecs_txt,
                kept.iter().zip(vobs.iter()).map(|(v, o)| format!("{}={}", show_var(v), o)).collect::<Vec<_>>().join("#")
            ));
        }
        out.vars = kept;
        out.var_obs = vobs;
    }
    out.lines = lines;
    out.notes = notes;
    out.panics = panics;
    out
}

fn main() {
    let args = Args::parse();
    let known = Known::load(&args.known, "C15");
    let mut rep = Report::new(
        "C15",
        "a case is (op history over append/flush/checkpoint/reopen/crash/sync) or (history, image variant); \
         variants: a file truncated at a byte offset, or one byte XOR-ed with a mask; each replayed for every `from`; \
         non-trivial = the truncation / flip offset lies inside a record body (not in the length prefix / on a frame boundary), \
         or, for a bare history, an append follows a reopen / checkpoint / crash; distinct = distinct (history, variant) text",
        &args.replays,
        args.seed,
    );
    let exe = args.driver_exe("drv_wal");
    let tmp = tempfile::Builder::new().prefix("c15").tempdir_in(&args.work).expect("work dir");
    let mut rng = Rng::new(args.seed);

    // 1. corpus / replay
    let mut cases: Vec<(Vec<Op>, VarSel)> = vec![];
    let mut files: Vec<PathBuf> = vec![];
    if let Some(r) = &args.replay {
        files.push(r.clone());
    } else if let Ok(rd) = std::fs::read_dir(args.corpus.join("C15")) {
        files = rd.filter_map(|e| e.ok().map(|e| e.path())).collect();
        files.sort();
    }
    let mut n_corpus = 0;
    for f in &files {
        for line in std::fs::read_to_string(f).unwrap_or_default().lines() {
            let t: Vec<&str> = line.split_whitespace().collect();
            if t.len() == 3 && t[0] == "case" {
                if let (Some(o), Some(v)) = (parse_ops(t[1]), parse_vars(t[2])) {
                    cases.push((o, v));
                    n_corpus += 1;
                }
            }
        }
    }
    rep.count_n("corpus_cases", n_corpus);

    if args.replay.is_none() {
        // 1b. a record torn at the start of a *fresh* segment (first segment, after a reopen, after a
        //     checkpoint, after a crash, after a sync-on/off switch), cut inside the length prefix /
        //     the sequence / the entry / one byte short, then restart + appends + restart
        let contexts: Vec<Vec<Op>> = vec![
            vec![],
            vec![Op::Append(0), Op::Reopen],
            vec![Op::Append(0), Op::Checkpoint],
            vec![Op::Append(0), Op::Append(0), Op::Crash(0)],
            vec![Op::Sync(true), Op::Append(0), Op::Sync(false)],
            vec![Op::Append(0), Op::Checkpoint, Op::Crash(0)],
        ];
        let tails: Vec<Vec<Op>> = vec![
            vec![Op::Append(0)],
            vec![Op::Append(0), Op::Reopen, Op::Append(0)],
            vec![Op::Append(0), Op::Flush, Op::Append(2), Op::Crash(500), Op::Append(0)],
            vec![Op::Checkpoint, Op::Append(0)],
        ];
        let mut nfam = 0u64;
        for cx in &contexts {
            for pm in [0u64, 30, 60, 90, 120, 340, 500, 970, 1000] {
                for tl in &tails {
                    for first in [0u64, 2] {
                        let mut s = cx.clone();
                        s.push(Op::Append(first));
                        s.push(Op::Crash(pm));
                        s.extend(tl.iter().cloned());
                        nfam += 1;
                        cases.push((s, if nfam % 6 == 0 { VarSel::Sample } else { VarSel::None }));
                    }
                }
            }
        }
        rep.count_n("family:torn-first-record-of-fresh-segment", nfam);
        // 1b'. the same at *every* byte offset of the torn frame (36 bytes for entry kind 0), followed by
        //      restart + append + restart + append: the log must keep growing behind a torn tail
        let bases: Vec<Vec<Op>> = vec![
            vec![],
            vec![Op::Append(0), Op::Flush],
            vec![Op::Append(0), Op::Checkpoint],
            vec![Op::Append(2), Op::Reopen],
        ];
        let mut nevery = 0u64;
        for b in &bases {
            for k in 0..=36u64 {
                let mut s = b.clone();
                s.push(Op::Append(0));
                s.push(Op::Crash((k * 1000 + 35) / 36));
                s.extend([Op::Append(0), Op::Reopen, Op::Append(0)]);
                nevery += 1;
                cases.push((s, VarSel::None));
            }
        }
        rep.count_n("family:torn-at-every-offset-then-append", nevery);
        // 1c. long histories: segment names and sequences cross 0x0f -> 0x10 (and 0xff -> 0x100 in the
        //     deep case), many files, `from` deep inside the log
        let n_long = if args.thorough() { 200 } else { 30 };
        for _ in 0..n_long {
            let total = 17 + rng.usize(24);
            let mut s = vec![];
            let mut since = 0;
            for _ in 0..total {
                s.push(Op::Append(*rng.pick(&[0, 0, 1, 2, 4])));
                since += 1;
                if since >= 1 + rng.usize(6) {
                    since = 0;
                    s.push(match rng.below(6) {
                        0 | 1 => Op::Reopen,
                        2 => Op::Checkpoint,
                        3 => Op::Crash(*rng.pick(&[0, 60, 500, 1000])),
                        4 => Op::Flush,
                        _ => Op::Sync(rng.chance(1, 2)),
                    });
                }
            }
            cases.push((s, VarSel::None));
        }
        rep.count_n("family:long-history", n_long);
        {
            let mut s = vec![];
            for i in 1..=300u64 {
                s.push(Op::Append(0));
                if [15, 16, 17, 255, 256, 257].contains(&i) {
                    s.push(Op::Reopen);
                }
                if i == 100 {
                    s.push(Op::Checkpoint);
                }
            }
            cases.push((s, VarSel::None));
            // records larger than the BufWriter buffer / with 2- and 3-byte frame lengths
            cases.push((vec![Op::Append(7), Op::Flush, Op::Append(0), Op::Reopen, Op::Append(7), Op::Crash(500), Op::Append(0)], VarSel::None));
            cases.push((vec![Op::Append(0), Op::Append(7), Op::Crash(0), Op::Append(6), Op::Reopen, Op::Append(0)], VarSel::None));
            cases.push((vec![Op::Append(6), Op::Append(0), Op::Checkpoint, Op::Append(6)], VarSel::Sample));
            rep.count_n("family:deep-and-large", 4);
        }
        // 2. exhaustive small scope: every history of length <= L over the alphabet (bare histories),
        //    every 9th with sampled variants
        let alpha = vec![
            Op::Append(0),
            Op::Append(2),
            Op::Flush,
            Op::Checkpoint,
            Op::Reopen,
            Op::Crash(0),
            Op::Crash(500),
            Op::Sync(true),
            Op::Sync(false),
        ];
        let lmax = if args.thorough() { 5 } else { 4 };
        let mut count = 0u64;
        for l in 1..=lmax {
            let n = alpha.len();
            for mut x in 0..n.pow(l as u32) {
                let mut s = Vec::with_capacity(l);
                for _ in 0..l {
                    s.push(alpha[x % n].clone());
                    x /= n;
                }
                count += 1;
                let sel = if count % (if args.thorough() { 97 } else { 67 }) == 0 { VarSel::Sample } else { VarSel::None };
                cases.push((s, sel));
            }
        }
        rep.exhaustive = true;
        rep.exhaustive_note = format!(
            "every op history of length <= {} over {{append(2 entry kinds), flush, checkpoint, reopen, crash(0%|50% of the buffered bytes survive), sync on, sync off}} ({} histories, history specification + model image equality); image variants (truncation at every byte offset of the newest file — of every file in the thorough tier —, single-byte flips) on a subset of these and on PRNG histories (not exhaustive)",
            lmax, count
        );
        // 3. PRNG histories with variants
        let n_rand = if args.thorough() { 400 } else { 60 };
        for c in 0..n_rand {
            let len = 3 + rng.usize(8);
            let mut s = vec![];
            for _ in 0..len {
                s.push(match rng.below(16) {
                    0..=7 => Op::Append(rng.below(RAND_KINDS)),
                    8 => Op::Flush,
                    9 => Op::Checkpoint,
                    10 | 11 => Op::Reopen,
                    12 | 13 => Op::Crash(*rng.pick(&[0, 0, 300, 500, 700, 1000])),
                    14 => Op::Sync(true),
                    _ => Op::Sync(false),
                });
            }
            let sel = if args.thorough() && c % 3 == 0 { VarSel::All } else { VarSel::Sample };
            cases.push((s, sel));
        }
    }

    // evaluate in chunks: real runs in threads, then the driver over all lines
    let threads = 8usize;
    let mut first_break: Option<(String, String)> = None;
    // a small first chunk (corpus + the first targeted cases), then chunks of 1500
    let mut bounds = vec![0usize];
    while *bounds.last().unwrap() < cases.len() {
        let step = if bounds.len() == 1 { 120 } else { 1500 };
        bounds.push((*bounds.last().unwrap() + step).min(cases.len()));
    }
    for (ci, w) in bounds.windows(2).enumerate() {
        let chunk = &cases[w[0]..w[1]];
        // the verdict is decided once a failing input is on record; on a broken tree the
        // remaining cases only cost time (mis-framed logs make `replay` allocate garbage lengths)
        if !rep.spec_violations.is_empty() {
            rep.notes.push(format!("stopped after {} of {} cases: failing inputs recorded", w[0], cases.len()));
            break;
        }
        let seeds: Vec<u64> = chunk.iter().map(|_| rng.next_u64()).collect();
        let mut slots: Vec<Option<CaseOut>> = (0..chunk.len()).map(|_| None).collect();
        std::thread::scope(|sc| {
            let mut hs = vec![];
            for t in 0..threads {
                let work = tmp.path().join(format!("t{}-{}", ci, t));
                let seeds = &seeds;
                hs.push(sc.spawn(move || {
                    std::fs::create_dir_all(&work).unwrap();
                    let mut res = vec![];
                    // round-robin, so that the expensive cases (at the end of the list) are spread out
                    for j in (t..chunk.len()).step_by(threads) {
                        let mut r = Rng::new(seeds[j]);
                        res.push((j, run_case(&work, &chunk[j].0, &chunk[j].1, &mut r)));
                    }
                    res
                }));
            }
            for h in hs {
                for (j, o) in h.join().expect("case thread") {
                    slots[j] = Some(o);
                }
            }
        });
        let outs: Vec<CaseOut> = slots.into_iter().map(|o| o.unwrap()).collect();
        let mut lines = vec![];
        let mut at = vec![];
        for o in &outs {
            at.push(lines.len());
            lines.extend(o.lines.iter().cloned());
        }
        let replies = driver::par_batch(&exe, &lines, 12);
        for (o, a) in outs.iter().zip(at.iter()) {
            let sel_txt = if o.vars.is_empty() { "none".to_string() } else { o.vars.iter().map(show_var).collect::<Vec<_>>().join(";") };
            let case_line = format!("case {} {}", o.ops_txt, sel_txt);
            for op in o.ops_txt.split(';') {
                rep.count(&format!("op:{}", &op[..1]));
            }
            for n in &o.notes {
                if rep.notes.len() < 12 {
                    rep.notes.push(n.clone());
                }
            }
            // the history
            rep.case(&o.ops_txt, o.hist_nontrivial);
            let m_hist = &replies[*a];
            let s_hist = &replies[*a + 1];
            let body = format!(
                "{}\nimpl  {}\nmodel {}\nrequest {}\nspec  {}",
                format!("case {} none", o.ops_txt),
                o.real_hist,
                m_hist,
                lines[*a + 1],
                s_hist
            );
            if let Some(e) = &o.recs_err {
                rep.spec_violation(&known, "foreign-record", &format!("{} on `{}`", e, o.ops_txt), &body);
            }
            for p in &o.panics {
                rep.spec_violation(&known, "replay-panic", &format!("Wal::new/replay panicked on variant {} of `{}`", p, o.ops_txt), &case_line);
            }
            if s_hist != "ok" {
                let sig = if s_hist == "viol durable" {
                    "durable-record-lost"
                } else if s_hist == "viol core" {
                    // `Wal::new` on the final directory resumed below a sequence that is on disk,
                    // or the history reopened: the structural class of defect #1
                    let final_obs = lines[*a + 1].rsplit(' ').next().unwrap_or("");
                    let cur: u64 = final_obs.split('|').next().and_then(|c| c.parse().ok()).unwrap_or(0);
                    let last: u64 = final_obs
                        .split('|')
                        .nth(1)
                        .and_then(|r| r.rsplit('/').next())
                        .and_then(|l| l.parse().ok())
                        .unwrap_or(0);
                    if cur < last || o.ops_txt.contains('r') || o.ops_txt.contains('k') { "sequence-after-reopen" } else { "history-replay" }
                } else if lines[*a + 1].contains("/invalid/") {
                    // `replay` answered Err(InvalidEntry): not an outcome the WAL reader has for bytes it wrote
                    "replay-invalid-entry-error"
                } else {
                    "driver-rejected"
                };
                rep.count(&format!("spec_violation:{}", sig));
                rep.spec_violation(&known, sig, &format!("history specification: {} on `{}`", s_hist, o.ops_txt), &body);
            } else if *m_hist != o.real_hist {
                rep.count("model_mismatch:history");
                if first_break.is_none() {
                    first_break = Some(("history".into(), body));
                }
            }
            if rep.samples.len() < 2 && o.hist_nontrivial && !o.vars.is_empty() {
                rep.sample(json!({"case": format!("case {} sample", o.ops_txt), "impl": o.real_hist, "variants": o.vars.len()}));
            }
            // the variants
            if o.vars.is_empty() {
                continue;
            }
            let m_var = &replies[*a + 2];
            let s_var = &replies[*a + 3];
            let mobs: Vec<&str> = m_var.strip_prefix("ok ").map(|x| x.split('#').collect()).unwrap_or_default();
            let mut viol: HashMap<usize, String> = HashMap::new();
            if let Some(v) = s_var.strip_prefix("viol ") {
                for t in v.split(',') {
                    if let Some((k, w)) = t.split_once(':') {
                        viol.insert(k.parse().unwrap_or(usize::MAX), w.to_string());
                    }
                }
            } else if s_var != "ok" {
                let sig = if lines[*a + 3].contains("/invalid/") { "replay-invalid-entry-error" } else { "driver-rejected" };
                rep.spec_violation(&known, sig, &format!("vspec answered {}", s_var), &format!("{}\n{}", case_line, lines[*a + 3]));
            }
            for (k, v) in o.vars.iter().enumerate() {
                let region = o.regions[k];
                let nt = matches!(region, "seq" | "entry" | "cksum" | "trunc-body");
                rep.case(&format!("{} {}", o.ops_txt, show_var(v)), nt);
                rep.count(&format!("variant:{}", region));
                let robs = &o.var_obs[k];
                if let Some(end) = robs.split('|').nth(1).and_then(|r| r.split('/').nth(1)) {
                    rep.count(&format!("replay_end:{}", if end.starts_with('c') { "corrupt" } else { end }));
                }
                let one = format!(
                    "case {} {}\nimpl  {}\nmodel {}",
                    o.ops_txt,
                    show_var(v),
                    robs,
                    mobs.get(k).unwrap_or(&"?")
                );
                if let Some(w) = viol.get(&k) {
                    let altered = robs.contains('x');
                    let sig = match (w.as_str(), region) {
                        ("trunc", _) if robs.contains("/io/") => "torn-body-io-error".to_string(),
                        ("trunc", _) => "truncate-not-maximal-prefix".to_string(),
                        ("flip", "seq") => "seq-flip-undetected".to_string(),
                        ("flip", r) if altered => format!("{}-flip-altered-record", r),
                        ("flip", r) => format!("{}-flip", r),
                        (w, _) => format!("{}-replay", w),
                    };
                    rep.count(&format!("spec_violation:{}", sig));
                    rep.spec_violation(&known, &sig, &format!("{} specification violated by variant {} of `{}`", w, show_var(v), o.ops_txt), &one);
                } else if mobs.get(k).map(|m| *m != robs.as_str()).unwrap_or(true) {
                    rep.count("model_mismatch:variant");
                    if first_break.is_none() {
                        first_break = Some(("variant".into(), one));
                    }
                }
            }
        }
    }
    if let Some((what, body)) = first_break {
        if rep.spec_violations.is_empty() {
            rep.correspondence_break(
                "SgModel.Wal.{step,observe} = Wal::{append,flush,checkpoint,new,replay} (return values, directory bytes, replay observations)",
                &format!("model and implementation differ on a {} although the specification holds on all explored cases", what),
                &body,
            );
        }
    }
    rep.write(&args.out);
}
