// temporary probe for C15 (replaced by the real harness)
use samyama::persistence::wal::{Wal, WalEntry};

fn ent(i: u64) -> WalEntry {
    WalEntry::DeleteNode { tenant: "t".into(), node_id: i }
}

fn dump(dir: &std::path::Path) {
    let mut fs: Vec<_> = std::fs::read_dir(dir).unwrap().flatten().map(|e| e.path()).collect();
    fs.sort();
    for f in fs {
        let b = std::fs::read(&f).unwrap();
        println!("  {} {} bytes: {}", f.file_name().unwrap().to_str().unwrap(), b.len(), vharness::util::hex(&b));
    }
}

fn replay(dir: &std::path::Path, from: u64) -> String {
    let w = Wal::new(dir).unwrap();
    let mut got = vec![];
    let r = w.replay(from, |e| {
        got.push(format!("{:?}", e));
        Ok(())
    });
    format!("cur={} got={:?} res={:?}", w.current_sequence(), got, r)
}

fn main() {
    let base = tempfile::tempdir().unwrap();
    // 1. reopen
    let d = base.path().join("a");
    {
        let mut w = Wal::new(&d).unwrap();
        let s: Vec<u64> = (1..=3).map(|i| w.append(ent(i)).unwrap()).collect();
        println!("first session {:?}", s);
    }
    {
        let mut w = Wal::new(&d).unwrap();
        println!("reopen cur={}", w.current_sequence());
        let s: Vec<u64> = (4..=5).map(|i| w.append(ent(i)).unwrap()).collect();
        println!("second session {:?}", s);
    }
    dump(&d);
    println!("{}", replay(&d, 0));
    println!("{}", replay(&d, 3));
    // 2. torn
    let d = base.path().join("b");
    {
        let mut w = Wal::new(&d).unwrap();
        for i in 1..=2 {
            w.append(ent(i)).unwrap();
        }
    }
    dump(&d);
    let f = d.join("wal-0000000000000001.log");
    let bytes = std::fs::read(&f).unwrap();
    for k in [bytes.len() - 1, bytes.len() / 2 + 6, bytes.len() / 2 + 3, bytes.len() / 2] {
        std::fs::write(&f, &bytes[..k]).unwrap();
        println!("trunc {} -> {}", k, replay(&d, 0));
    }
    // 3. flip in seq
    let mut b2 = bytes.clone();
    b2[4] ^= 0x08;
    std::fs::write(&f, &b2).unwrap();
    println!("flip seq byte -> {}", replay(&d, 0));
    println!("flip seq byte from=2 -> {}", replay(&d, 2));
    // 4. crafted: flip a length inside the entry so that the tail of the payload is read as checksum
    let d = base.path().join("c");
    {
        let mut w = Wal::new(&d).unwrap();
        // entry bytes: tag(4) tenant len(8) node_id(8) labels len(8) props len(8) props(12)
        let mut props = vec![1u8, 2, 3, 4, 5, 6, 7, 8, 0, 0, 0, 0];
        let mk = |p: Vec<u8>| WalEntry::CreateNode { tenant: "".into(), node_id: 7, labels: vec![], properties: p };
        // xor of the entry with props truncated to 8 and length byte 8
        let tr = bincode::serialize(&mk(props[..8].to_vec())).unwrap();
        let x = tr.iter().fold(0u8, |a, b| a ^ b);
        props[8] = x;
        w.append(mk(props)).unwrap();
        w.append(ent(2)).unwrap();
    }
    dump(&d);
    println!("crafted intact -> {}", replay(&d, 0));
    let f = d.join("wal-0000000000000001.log");
    let mut b = std::fs::read(&f).unwrap();
    // offset of props len: 4 (frame len) + 8 (seq) + 4 + 8 + 8 + 8 = 40
    assert_eq!(b[40], 12);
    b[40] ^= 0x04;
    std::fs::write(&f, &b).unwrap();
    println!("crafted flipped -> {}", replay(&d, 0));
    // 5. flip frame length upward
    let d = base.path().join("e");
    {
        let mut w = Wal::new(&d).unwrap();
        for i in 1..=3 {
            w.append(ent(i)).unwrap();
        }
    }
    let f = d.join("wal-0000000000000001.log");
    let mut b = std::fs::read(&f).unwrap();
    b[0] ^= 0x01;
    std::fs::write(&f, &b).unwrap();
    println!("len flip +1 -> {}", replay(&d, 0));
    b[0] ^= 0x01;
    b[0] ^= 0x40;
    std::fs::write(&f, &b).unwrap();
    println!("len flip +64 -> {}", replay(&d, 0));
}
