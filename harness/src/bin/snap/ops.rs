//! Graph-building programs (the "histories" of C12/C13/C14): a small op language with a text
//! form (corpus / replay files), a random generator and an interpreter over the real store.
#![allow(dead_code)]
use super::*;
use samyama::graph::{EdgeType, IsolationLevel};
use samyama::index::hierarchy::{HierarchySpec, RollupOp};
use samyama::query::QueryEngine;

#[derive(Clone, Debug)]
pub enum Op {
    /// method: api (create_node_with_labels + set_node_property), stub (create_node_stub +
    /// set_column_property), row (create_node + node.set_property: row only), cy (Cypher CREATE)
    Node { method: String, labels: Vec<String>, props: Vec<(String, PV)> },
    /// method: full (create_edge / create_edge_with_properties), stub (create_edge_stub)
    Edge { method: String, src: usize, tgt: usize, ty: String, props: Vec<(String, PV)> },
    SetProp { node: usize, key: String, val: PV },
    /// `node.set_property` on the current version: the row copy only (may disagree with the column)
    RowSet { node: usize, key: String, val: PV },
    /// `set_column_property`: the column copy only (may disagree with the row)
    ColSet { node: usize, key: String, val: PV },
    /// `set_edge_property` on the k-th created relationship
    EdgeSet { edge: usize, key: String, val: PV },
    Commit,
    Compact,
    Hier { name: String, types: Vec<String>, reverse: bool, mlabel: Option<String>, mprop: Option<String>, ops: Vec<String> },
    DelNode(usize),
    DelEdge(usize),
    /// delete the k-th relationship through Cypher (`MATCH ()-[r:T {i: v}]->() DELETE r`) when it
    /// carries a unique integer property `i`; through the API otherwise
    DelEdgeCy(usize),
}

fn props_vec_text(p: &[(String, PV)]) -> String {
    let m: Vec<(&String, &PV)> = p.iter().map(|(k, v)| (k, v)).collect();
    props_text(m.into_iter())
}

pub fn render_op(op: &Op) -> String {
    match op {
        Op::Node { method, labels, props } => format!("N~{}~{}~{}", method, strs(labels), props_vec_text(props)),
        Op::Edge { method, src, tgt, ty, props } => {
            format!("E~{}~{}~{}~{}~{}", method, src, tgt, xs(ty), props_vec_text(props))
        }
        Op::SetProp { node, key, val } => format!("P~{}~{}~{}", node, xs(key), pv_text(val)),
        Op::RowSet { node, key, val } => format!("RS~{}~{}~{}", node, xs(key), pv_text(val)),
        Op::ColSet { node, key, val } => format!("CS~{}~{}~{}", node, xs(key), pv_text(val)),
        Op::EdgeSet { edge, key, val } => format!("ES~{}~{}~{}", edge, xs(key), pv_text(val)),
        Op::Commit => "V".into(),
        Op::Compact => "C".into(),
        Op::Hier { name, types, reverse, mlabel, mprop, ops } => format!(
            "H~{}~{}~{}~{}~{}~{}",
            xs(name),
            strs(types),
            if *reverse { 1 } else { 0 },
            ostr(mlabel),
            ostr(mprop),
            strs(ops)
        ),
        Op::DelNode(h) => format!("DN~{}", h),
        Op::DelEdge(k) => format!("DE~{}", k),
        Op::DelEdgeCy(k) => format!("DEC~{}", k),
    }
}

pub fn render_ops(ops: &[Op]) -> String {
    if ops.is_empty() {
        "-".into()
    } else {
        ops.iter().map(render_op).collect::<Vec<_>>().join("/")
    }
}

// ---- parsing (replay / corpus) ---------------------------------------------------------------

fn unhex_str(h: &str) -> Option<String> {
    if h.len() % 2 != 0 {
        return None;
    }
    let bytes: Option<Vec<u8>> = (0..h.len()).step_by(2).map(|i| u8::from_str_radix(&h[i..i + 2], 16).ok()).collect();
    String::from_utf8(bytes?).ok()
}

fn parse_x(s: &str) -> Option<String> {
    unhex_str(s.strip_prefix('x')?)
}

fn parse_strs(s: &str) -> Option<Vec<String>> {
    if s == "-" {
        return Some(vec![]);
    }
    s.split(',').map(parse_x).collect()
}

fn parse_ostr(s: &str) -> Option<Option<String>> {
    if s == "-" {
        Some(None)
    } else {
        parse_x(s).map(Some)
    }
}

struct P<'a> {
    b: &'a [u8],
    i: usize,
}

impl<'a> P<'a> {
    fn peek(&self) -> Option<u8> {
        self.b.get(self.i).copied()
    }
    fn take_while(&mut self, f: impl Fn(u8) -> bool) -> &'a str {
        let st = self.i;
        while self.i < self.b.len() && f(self.b[self.i]) {
            self.i += 1;
        }
        std::str::from_utf8(&self.b[st..self.i]).unwrap()
    }
    fn eat(&mut self, c: u8) -> Option<()> {
        if self.peek() == Some(c) {
            self.i += 1;
            Some(())
        } else {
            None
        }
    }
    fn hex(&mut self) -> &'a str {
        self.take_while(|c| c.is_ascii_hexdigit())
    }
    fn int(&mut self) -> Option<i64> {
        self.take_while(|c| c == b'-' || c.is_ascii_digit()).parse().ok()
    }
    fn list<T>(&mut self, mut item: impl FnMut(&mut Self) -> Option<T>) -> Option<Vec<T>> {
        let mut v = vec![];
        if self.peek() == Some(b')') {
            self.i += 1;
            return Some(v);
        }
        loop {
            v.push(item(self)?);
            match self.peek()? {
                b',' => self.i += 1,
                b')' => {
                    self.i += 1;
                    return Some(v);
                }
                _ => return None,
            }
        }
    }
    fn pv(&mut self) -> Option<PV> {
        let c = self.peek()?;
        self.i += 1;
        match c {
            b'z' => Some(PV::Null),
            b'b' => {
                let d = self.peek()?;
                self.i += 1;
                Some(PV::Boolean(d == b'1'))
            }
            b'i' => self.int().map(PV::Integer),
            b't' => self.int().map(PV::DateTime),
            b'f' => u64::from_str_radix(self.hex(), 16).ok().map(|b| PV::Float(f64::from_bits(b))),
            b's' => unhex_str(self.hex()).map(PV::String),
            b'a' => {
                self.eat(b'(')?;
                self.list(|p| p.pv()).map(PV::Array)
            }
            b'm' => {
                self.eat(b'(')?;
                let kv = self.list(|p| {
                    let k = unhex_str(p.hex())?;
                    p.eat(b':')?;
                    Some((k, p.pv()?))
                })?;
                Some(PV::Map(kv.into_iter().collect()))
            }
            b'v' => {
                self.eat(b'(')?;
                let v = self.list(|p| u64::from_str_radix(p.hex(), 16).ok().map(|b| f64::from_bits(b) as f32))?;
                Some(PV::Vector(v))
            }
            b'd' => {
                self.eat(b'(')?;
                let v = self.list(|p| p.int())?;
                if v.len() != 4 {
                    return None;
                }
                Some(PV::Duration { months: v[0], days: v[1], seconds: v[2], nanos: v[3] as i32 })
            }
            _ => None,
        }
    }
}

pub fn parse_pv(s: &str) -> Option<PV> {
    let mut p = P { b: s.as_bytes(), i: 0 };
    let v = p.pv()?;
    if p.i == s.len() {
        Some(v)
    } else {
        None
    }
}

fn parse_props(s: &str) -> Option<Vec<(String, PV)>> {
    match parse_pv(s)? {
        PV::Map(m) => {
            let mut v: Vec<(String, PV)> = m.into_iter().collect();
            v.sort_by(|a, b| a.0.as_bytes().cmp(b.0.as_bytes()));
            Some(v)
        }
        _ => None,
    }
}

pub fn parse_op(s: &str) -> Option<Op> {
    let f: Vec<&str> = s.split('~').collect();
    match f.as_slice() {
        ["N", m, ls, ps] => Some(Op::Node { method: m.to_string(), labels: parse_strs(ls)?, props: parse_props(ps)? }),
        ["E", m, a, b, ty, ps] => Some(Op::Edge {
            method: m.to_string(),
            src: a.parse().ok()?,
            tgt: b.parse().ok()?,
            ty: parse_x(ty)?,
            props: parse_props(ps)?,
        }),
        ["P", n, k, v] => Some(Op::SetProp { node: n.parse().ok()?, key: parse_x(k)?, val: parse_pv(v)? }),
        ["RS", n, k, v] => Some(Op::RowSet { node: n.parse().ok()?, key: parse_x(k)?, val: parse_pv(v)? }),
        ["CS", n, k, v] => Some(Op::ColSet { node: n.parse().ok()?, key: parse_x(k)?, val: parse_pv(v)? }),
        ["ES", e, k, v] => Some(Op::EdgeSet { edge: e.parse().ok()?, key: parse_x(k)?, val: parse_pv(v)? }),
        ["V"] => Some(Op::Commit),
        ["C"] => Some(Op::Compact),
        ["H", n, ts, r, ml, mp, ops] => Some(Op::Hier {
            name: parse_x(n)?,
            types: parse_strs(ts)?,
            reverse: *r == "1",
            mlabel: parse_ostr(ml)?,
            mprop: parse_ostr(mp)?,
            ops: parse_strs(ops)?,
        }),
        ["DN", h] => Some(Op::DelNode(h.parse().ok()?)),
        ["DE", k] => Some(Op::DelEdge(k.parse().ok()?)),
        ["DEC", k] => Some(Op::DelEdgeCy(k.parse().ok()?)),
        _ => None,
    }
}

pub fn parse_ops(s: &str) -> Option<Vec<Op>> {
    if s == "-" {
        return Some(vec![]);
    }
    s.split('/').map(parse_op).collect()
}

// ---- interpreter -----------------------------------------------------------------------------

fn cypher_ident(s: &str) -> bool {
    !s.is_empty() && s.chars().all(|c| c.is_ascii_alphabetic()) && s.len() < 12
}

fn cypher_literal(v: &PV) -> Option<String> {
    match v {
        PV::Integer(i) if *i > i64::MIN => Some(i.to_string()),
        PV::Boolean(b) => Some(b.to_string()),
        PV::String(s) if s.chars().all(|c| c.is_alphanumeric() || c == ' ' || c == '_') => Some(format!("'{}'", s)),
        PV::Float(f) if f.is_finite() && f.fract() != 0.0 && f.abs() < 1e15 && f.abs() > 1e-4 => Some(format!("{}", f)),
        PV::Array(a) => {
            let items: Option<Vec<String>> = a.iter().map(cypher_literal).collect();
            Some(format!("[{}]", items?.join(", ")))
        }
        _ => None,
    }
}

pub struct Built {
    pub store: GraphStore,
    pub handles: Vec<Option<NodeId>>,
    pub edges: Vec<Option<EdgeId>>,
    pub feat: Features,
    pub executed: Vec<String>,
}

/// Run a program on a fresh real store.
pub fn build(ops: &[Op]) -> Built {
    let mut b = Built {
        store: GraphStore::new(),
        handles: vec![],
        edges: vec![],
        feat: Features::default(),
        executed: vec![],
    };
    apply(&mut b, ops);
    b
}

pub fn apply(b: &mut Built, ops: &[Op]) {
    let engine = QueryEngine::new();
    for op in ops {
        match op {
            Op::Node { method, labels, props } => {
                if labels.is_empty() {
                    b.feat.unlabelled = true;
                }
                if labels.len() > 1 {
                    b.feat.multilabel = true;
                }
                for (k, v) in props {
                    if has_ws_edge_or_non_ascii(k) {
                        b.feat.edgy_string = true;
                    }
                    value_features(v, &mut b.feat);
                }
                let mut method = method.as_str();
                let cy_ok = labels.iter().all(|l| cypher_ident(l))
                    && props.iter().all(|(k, v)| cypher_ident(k) && cypher_literal(v).is_some());
                if method == "cy" && !cy_ok {
                    method = "api";
                }
                if (method == "stub" || method == "row") && labels.len() != 1 {
                    method = "api";
                }
                b.executed.push(format!("node:{}", method));
                let id = match method {
                    "cy" => {
                        let ls: String = labels.iter().map(|l| format!(":{}", l)).collect();
                        let ps: Vec<String> =
                            props.iter().map(|(k, v)| format!("{}: {}", k, cypher_literal(v).unwrap())).collect();
                        let q = if ps.is_empty() {
                            format!("CREATE (n{})", ls)
                        } else {
                            format!("CREATE (n{} {{{}}})", ls, ps.join(", "))
                        };
                        let before: std::collections::HashSet<u64> =
                            b.store.all_nodes().iter().map(|n| n.id.as_u64()).collect();
                        engine.execute_mut(&q, &mut b.store, "default").unwrap_or_else(|e| panic!("cypher {}: {:?}", q, e));
                        let new: Vec<u64> = b
                            .store
                            .all_nodes()
                            .iter()
                            .map(|n| n.id.as_u64())
                            .filter(|i| !before.contains(i))
                            .collect();
                        NodeId::new(new[0])
                    }
                    "stub" => {
                        let id = b.store.create_node_stub(labels[0].as_str());
                        for (k, v) in props {
                            b.store.set_column_property(id, k, v.clone());
                        }
                        id
                    }
                    "row" => {
                        let id = b.store.create_node(labels[0].as_str());
                        for (k, v) in props {
                            b.store.get_node_mut(id).unwrap().set_property(k.clone(), v.clone());
                        }
                        id
                    }
                    _ => {
                        let id = b.store.create_node_with_labels(labels.iter().map(|l| Label::new(l.as_str())));
                        for (k, v) in props {
                            b.store.set_node_property("default", id, k.clone(), v.clone()).expect("set prop");
                        }
                        id
                    }
                };
                b.handles.push(Some(id));
            }
            Op::Edge { method, src, tgt, ty, props } => {
                let (Some(Some(s)), Some(Some(t))) = (b.handles.get(*src).copied(), b.handles.get(*tgt).copied()) else {
                    continue;
                };
                for (k, v) in props {
                    if has_ws_edge_or_non_ascii(k) {
                        b.feat.edgy_string = true;
                    }
                    if k == "t" && matches!(v, PV::String(x) if x == "n" || x == "h") {
                        b.feat.route_key = true;
                    }
                    value_features(v, &mut b.feat);
                }
                b.feat.rels += 1;
                // Cypher: both endpoints addressed by their unique integer property `uid`
                let cy_edge = if method == "cy" && cypher_ident(ty) && props.iter().all(|(k, v)| cypher_ident(k) && cypher_literal(v).is_some()) {
                    let uid = |id: NodeId| match b.store.node_properties_merged(id).get("uid") {
                        Some(PV::Integer(u)) => Some(*u),
                        _ => None,
                    };
                    match (uid(s), uid(t)) {
                        (Some(us), Some(ut)) => {
                            let ps: Vec<String> = props.iter().map(|(k, v)| format!("{}: {}", k, cypher_literal(v).unwrap())).collect();
                            let pm = if ps.is_empty() { String::new() } else { format!(" {{{}}}", ps.join(", ")) };
                            let q = format!("MATCH (a {{uid: {}}}), (b {{uid: {}}}) CREATE (a)-[:{}{}]->(b)", us, ut, ty, pm);
                            let before: std::collections::HashSet<u64> = b.store.all_edges().iter().map(|e| e.id.as_u64()).collect();
                            engine.execute_mut(&q, &mut b.store, "default").unwrap_or_else(|e| panic!("cypher {}: {:?}", q, e));
                            let new: Vec<u64> = b.store.all_edges().iter().map(|e| e.id.as_u64()).filter(|i| !before.contains(i)).collect();
                            if new.len() == 1 { Some(EdgeId::new(new[0])) } else { panic!("cypher {} created {} relationships", q, new.len()) }
                        }
                        _ => None,
                    }
                } else {
                    None
                };
                let eid = if let Some(e) = cy_edge {
                    b.executed.push("edge:cypher".into());
                    e
                } else if method == "stub" && props.is_empty() {
                    b.executed.push("edge:stub".into());
                    b.store.create_edge_stub(s, t, ty.as_str()).expect("edge stub")
                } else if props.is_empty() {
                    b.executed.push("edge:full".into());
                    b.store.create_edge(s, t, ty.as_str()).expect("edge")
                } else {
                    b.executed.push("edge:props".into());
                    let mut pm = PropertyMap::new();
                    for (k, v) in props {
                        pm.insert(k.clone(), v.clone());
                    }
                    b.store.create_edge_with_properties(s, t, ty.as_str(), pm).expect("edge props")
                };
                b.edges.push(Some(eid));
            }
            Op::SetProp { node, key, val } => {
                if let Some(Some(id)) = b.handles.get(*node).copied() {
                    if has_ws_edge_or_non_ascii(key) {
                        b.feat.edgy_string = true;
                    }
                    value_features(val, &mut b.feat);
                    b.executed.push("setprop".into());
                    b.store.set_node_property("default", id, key.clone(), val.clone()).expect("set prop");
                }
            }
            Op::RowSet { node, key, val } => {
                if let Some(Some(id)) = b.handles.get(*node).copied() {
                    if has_ws_edge_or_non_ascii(key) {
                        b.feat.edgy_string = true;
                    }
                    value_features(val, &mut b.feat);
                    b.executed.push("rowset".into());
                    if let Some(n) = b.store.get_node_mut(id) {
                        n.set_property(key.clone(), val.clone());
                    }
                }
            }
            Op::ColSet { node, key, val } => {
                if let Some(Some(id)) = b.handles.get(*node).copied() {
                    if has_ws_edge_or_non_ascii(key) {
                        b.feat.edgy_string = true;
                    }
                    value_features(val, &mut b.feat);
                    b.executed.push("colset".into());
                    b.store.set_column_property(id, key, val.clone());
                }
            }
            Op::EdgeSet { edge, key, val } => {
                if let Some(Some(eid)) = b.edges.get(*edge).copied() {
                    if has_ws_edge_or_non_ascii(key) {
                        b.feat.edgy_string = true;
                    }
                    value_features(val, &mut b.feat);
                    b.executed.push("edgeset".into());
                    let _ = b.store.set_edge_property(eid, key.clone(), val.clone());
                }
            }
            Op::Commit => {
                b.executed.push("commit".into());
                let t = b.store.begin_transaction(IsolationLevel::SnapshotIsolation);
                let _ = b.store.commit_transaction(t);
                b.feat.versions = true;
            }
            Op::Compact => {
                b.executed.push("compact".into());
                b.store.finish_bulk_load();
                b.feat.compaction = true;
            }
            Op::Hier { name, types, reverse, mlabel, mprop, ops } => {
                let mut spec = HierarchySpec::new(name.clone(), types.iter().map(|t| EdgeType::new(t.as_str())).collect());
                spec.reverse = *reverse;
                if let Some(p) = mprop {
                    let mut o: Vec<RollupOp> = ops.iter().filter_map(|x| RollupOp::parse(x)).collect();
                    if o.is_empty() {
                        o.push(RollupOp::Sum);
                    }
                    spec = spec.with_measure(mlabel.as_ref().map(|l| Label::new(l.as_str())), p.clone(), o);
                }
                let mgr = std::sync::Arc::clone(&b.store.hierarchy_index);
                if mgr.create(&b.store, spec).is_ok() {
                    b.executed.push("hier".into());
                    b.feat.hier = true;
                }
            }
            Op::DelNode(h) => {
                if let Some(Some(id)) = b.handles.get(*h).copied() {
                    b.executed.push("delnode".into());
                    let _ = b.store.delete_node("default", id);
                    b.handles[*h] = None;
                    // relationships attached to it are gone as well
                    for e in b.edges.iter_mut() {
                        if let Some(eid) = e {
                            if b.store.get_edge_endpoints(*eid).is_none() {
                                *e = None;
                            }
                        }
                    }
                }
            }
            Op::DelEdgeCy(k) => {
                if let Some(Some(eid)) = b.edges.get(*k).copied() {
                    let ty = b.store.get_edge_type(eid).map(|t| t.as_str().to_string()).unwrap_or_default();
                    let i = b.store.get_edge_properties(eid).and_then(|p| match p.get("i") {
                        Some(PV::Integer(i)) => Some(*i),
                        _ => None,
                    });
                    let mut done = false;
                    if let (Some(i), true) = (i, cypher_ident(&ty)) {
                        let q = format!("MATCH ()-[r:{} {{i: {}}}]->() DELETE r", ty, i);
                        let _ = engine.execute_mut(&q, &mut b.store, "default");
                        done = b.store.get_edge_endpoints(eid).is_none();
                        if done {
                            b.executed.push("deledge:cypher".into());
                        }
                    }
                    if !done {
                        b.executed.push("deledge".into());
                        let _ = b.store.delete_edge(eid);
                    }
                    b.edges[*k] = None;
                    // a Cypher DELETE matches by property: anything else it removed is gone too
                    for e in b.edges.iter_mut() {
                        if let Some(x) = e {
                            if b.store.get_edge_endpoints(*x).is_none() {
                                *e = None;
                            }
                        }
                    }
                }
            }
            Op::DelEdge(k) => {
                if let Some(Some(eid)) = b.edges.get(*k).copied() {
                    b.executed.push("deledge".into());
                    let _ = b.store.delete_edge(eid);
                    b.edges[*k] = None;
                }
            }
        }
    }
}

// ---- random programs -------------------------------------------------------------------------

pub fn gen_props(r: &mut Rng, max: usize, scalars_only: bool) -> Vec<(String, PV)> {
    let n = r.usize(max + 1);
    let mut m: BTreeMap<String, PV> = BTreeMap::new();
    for _ in 0..n {
        let k = r.pick(KEYS).to_string();
        let v = if scalars_only {
            match r.usize(4) {
                0 => PV::String(gen_string(r)),
                1 => PV::Integer(gen_i64(r)),
                2 => PV::Float(gen_f64(r)),
                _ => PV::Boolean(r.chance(1, 2)),
            }
        } else {
            gen_value(r, 2)
        };
        m.insert(k, v);
    }
    m.into_iter().collect()
}

pub fn gen_labels(r: &mut Rng) -> Vec<String> {
    let n = match r.usize(10) {
        0 => 0,
        1 | 2 => 2,
        3 => 3,
        _ => 1,
    };
    let mut v: Vec<String> = vec![];
    while v.len() < n {
        let l = r.pick(LABELS).to_string();
        if !v.contains(&l) {
            v.push(l);
        }
    }
    v
}

/// A random building program.  `deletes`: allow node/relationship deletions (only before the
/// first compaction / commit: deleting from the frozen tier and deleting multi-version nodes are
/// the subjects of C06 / C08, not of this property).
pub fn gen_program(r: &mut Rng, size: usize, deletes: bool) -> Vec<Op> {
    let mut ops = vec![];
    let mut n_nodes = 0usize;
    let mut n_edges = 0usize;
    let mut compacted = false;
    let mut committed = false;
    let mut hier_done = false;
    for _ in 0..size {
        let c = r.usize(100);
        if n_nodes == 0 || c < 38 {
            let method = r.pick(&["api", "api", "stub", "row", "cy", "cy"]).to_string();
            let props = if method == "cy" {
                let n = r.usize(3);
                let mut m = BTreeMap::new();
                for _ in 0..n {
                    let k = r.pick(&["name", "k", "t", "w", "id"]).to_string();
                    let v = match r.usize(5) {
                        0 => PV::String(r.pick(&["Alice", " padded ", "x y", "Zoë", ""]).to_string()),
                        1 => PV::Integer(r.range(-5, 5)),
                        2 => PV::Float(*r.pick(&[1.5, -0.25, 0.1, 2.5e10])),
                        3 => PV::Boolean(r.chance(1, 2)),
                        _ => PV::Array(vec![PV::Integer(r.range(0, 3)), PV::String("a".into())]),
                    };
                    m.insert(k, v);
                }
                m.into_iter().collect()
            } else {
                gen_props(r, 3, false)
            };
            let labels = if method == "cy" {
                let n = r.usize(3);
                let mut v: Vec<String> = vec![];
                while v.len() < n {
                    let l = r.pick(&["A", "B", "Person"]).to_string();
                    if !v.contains(&l) {
                        v.push(l);
                    }
                }
                v
            } else {
                gen_labels(r)
            };
            ops.push(Op::Node { method, labels, props });
            n_nodes += 1;
        } else if c < 70 {
            let ty = r.pick(TYPES).to_string();
            let mut src = r.usize(n_nodes);
            let mut tgt = r.usize(n_nodes);
            if ty == "IS_A" {
                // the hierarchy type stays acyclic: child (later handle) -> parent (earlier)
                if src == tgt {
                    continue;
                }
                if src < tgt {
                    std::mem::swap(&mut src, &mut tgt);
                }
            }
            let method = r.pick(&["full", "full", "stub"]).to_string();
            let props = if method == "stub" || r.chance(1, 2) {
                vec![]
            } else if r.chance(1, 8) {
                vec![("t".to_string(), PV::String(r.pick(&["n", "h", "e"]).to_string()))]
            } else {
                gen_props(r, 2, false)
            };
            ops.push(Op::Edge { method, src, tgt, ty, props });
            n_edges += 1;
        } else if c < 76 {
            ops.push(Op::SetProp { node: r.usize(n_nodes), key: r.pick(KEYS).to_string(), val: gen_value(r, 2) });
        } else if c < 80 {
            // mixed placement: one copy of a property only (row or column), possibly disagreeing
            // with the other copy; and relationship properties set after creation
            let (node, key, val) = (r.usize(n_nodes), r.pick(KEYS).to_string(), gen_value(r, 2));
            match r.usize(3) {
                0 => ops.push(Op::RowSet { node, key, val }),
                1 => ops.push(Op::ColSet { node, key, val }),
                _ if n_edges > 0 => ops.push(Op::EdgeSet { edge: r.usize(n_edges), key, val }),
                _ => ops.push(Op::ColSet { node, key, val }),
            }
        } else if c < 85 {
            ops.push(Op::Commit);
            committed = true;
        } else if c < 90 {
            ops.push(Op::Compact);
            compacted = true;
        } else if c < 94 && !hier_done {
            hier_done = true;
            let with_measure = r.chance(1, 2);
            ops.push(Op::Hier {
                name: r.pick(&["h", "tax", "é"]).to_string(),
                types: vec!["IS_A".to_string()],
                reverse: r.chance(1, 3),
                mlabel: if with_measure && r.chance(1, 2) { Some(r.pick(LABELS).to_string()) } else { None },
                mprop: if with_measure { Some(r.pick(&["w", "k"]).to_string()) } else { None },
                ops: if with_measure {
                    r.pick(&[vec!["sum"], vec!["min", "max"], vec!["count", "sum"]]).iter().map(|s| s.to_string()).collect()
                } else {
                    vec!["count".to_string()]
                },
            });
        } else if deletes && !compacted && !committed && c < 97 {
            ops.push(Op::DelNode(r.usize(n_nodes)));
        } else if deletes && !compacted && !committed && n_edges > 0 {
            ops.push(Op::DelEdge(r.usize(n_edges)));
        }
    }
    ops
}

/// "Size/threshold-dependent export paths": a larger graph (20-80 nodes, 60-200 relationships)
/// built with cheap operations through all three relationship APIs (Cypher with properties,
/// `create_edge`, `create_edge_stub`), then relationships and nodes deleted AFTER creation so that
/// the id spaces have holes — the relationship count is pushed below a multiple of 64 while the
/// highest ids stay alive — with optional compaction before and after the deletions.
pub fn gen_big(r: &mut Rng) -> Vec<Op> {
    let n = 20 + r.usize(61);
    let mut ops = vec![];
    for h in 0..n {
        let method = r.pick(&["api", "stub", "cy", "row"]).to_string();
        let mut labels = vec![r.pick(&["A", "B", "Person"]).to_string()];
        if r.chance(1, 4) {
            labels.push("Z".into());
        }
        let mut props: Vec<(String, PV)> = vec![("uid".into(), PV::Integer(h as i64))];
        if r.chance(1, 3) {
            props.push(("name".into(), PV::String(r.pick(&["Alice", " padded ", "Zoë", "x y"]).to_string())));
        }
        if r.chance(1, 8) && method != "cy" {
            props.push(("v".into(), PV::Vector(vec![1.0, f32::NAN])));
        }
        props.sort_by(|a, b| a.0.as_bytes().cmp(b.0.as_bytes()));
        ops.push(Op::Node { method, labels, props });
    }
    if r.chance(1, 3) {
        ops.push(Op::Compact);
    }
    // relationship count: mostly a little above a multiple of 64
    let e = match r.usize(5) {
        0 => 60 + r.usize(141),
        1 => 128 + r.usize(13),
        2 => 192 + r.usize(9),
        _ => 64 + r.usize(13),
    };
    for i in 0..e {
        let method = r.pick(&["cy", "full", "stub"]).to_string();
        let props: Vec<(String, PV)> = match method.as_str() {
            "cy" => vec![("i".into(), PV::Integer(i as i64)), ("w".into(), PV::Float(*r.pick(&[0.5, 1.5, -2.25])))],
            "full" if r.chance(1, 2) => vec![("i".into(), PV::Integer(i as i64)), ("s".into(), PV::String(r.pick(&[" a ", "é", "t"]).to_string()))],
            _ => vec![],
        };
        ops.push(Op::Edge { method, src: r.usize(n), tgt: r.usize(n), ty: r.pick(&["R", "KNOWS", "LINK"]).to_string(), props });
    }
    if r.chance(1, 2) {
        ops.push(Op::Compact);
    }
    // deletions: enough to push the live count below the 64-multiple under the highest id,
    // taken from everywhere but the top few ids
    let need = (e % 64) + 1 + r.usize(6);
    let top = e.saturating_sub(3).max(1);
    let mut seen = std::collections::HashSet::new();
    for _ in 0..need.min(top) {
        let k = r.usize(top);
        if seen.insert(k) {
            ops.push(if r.chance(1, 2) { Op::DelEdgeCy(k) } else { Op::DelEdge(k) });
        }
    }
    for _ in 0..r.usize(4) {
        ops.push(Op::DelNode(r.usize(n)));
    }
    if r.chance(1, 2) {
        ops.push(Op::Compact);
    }
    // sometimes a few more relationships afterwards (they re-use freed ids)
    if r.chance(1, 4) {
        for _ in 0..1 + r.usize(4) {
            ops.push(Op::Edge { method: r.pick(&["full", "stub"]).to_string(), src: r.usize(n), tgt: r.usize(n), ty: "R".into(), props: vec![] });
        }
    }
    ops
}
