//! Shared by c12 / c13 / c14: canonical text forms of property values, JSON values and whole
//! stores (the protocol of `lean/Driver/SnapJson.lean`), dumps of real `GraphStore`s through
//! the public read API, and the boundary-value / graph generators.
#![allow(dead_code)]
use samyama::graph::{EdgeId, GraphStore, Label, NodeId, PropertyMap, PropertyValue as PV};
use std::collections::{BTreeMap, HashMap};
use vharness::Rng;

pub mod ops;

pub fn hexs(s: &str) -> String {
    let mut o = String::with_capacity(s.len() * 2);
    for b in s.as_bytes() {
        o.push_str(&format!("{:02x}", b));
    }
    o
}

pub fn xs(s: &str) -> String {
    format!("x{}", hexs(s))
}

pub fn strs(v: &[String]) -> String {
    if v.is_empty() {
        "-".into()
    } else {
        v.iter().map(|s| xs(s)).collect::<Vec<_>>().join(",")
    }
}

pub fn ostr(v: &Option<String>) -> String {
    match v {
        Some(s) => xs(s),
        None => "-".into(),
    }
}

/// canonical text of a property value (map keys sorted bytewise)
pub fn pv_text(v: &PV) -> String {
    match v {
        PV::Null => "z".into(),
        PV::Boolean(b) => if *b { "b1".into() } else { "b0".into() },
        PV::Integer(i) => format!("i{}", i),
        PV::Float(f) => format!("f{:x}", f.to_bits()),
        PV::String(s) => format!("s{}", hexs(s)),
        PV::DateTime(t) => format!("t{}", t),
        PV::Array(a) => format!("a({})", a.iter().map(pv_text).collect::<Vec<_>>().join(",")),
        PV::Map(m) => props_text(m.iter()),
        PV::Vector(x) => format!(
            "v({})",
            x.iter().map(|c| format!("{:x}", (*c as f64).to_bits())).collect::<Vec<_>>().join(",")
        ),
        PV::Duration { months, days, seconds, nanos } => format!("d({},{},{},{})", months, days, seconds, nanos),
    }
}

pub fn props_text<'a>(it: impl Iterator<Item = (&'a String, &'a PV)>) -> String {
    let mut kv: Vec<(&String, &PV)> = it.collect();
    kv.sort_by(|a, b| a.0.as_bytes().cmp(b.0.as_bytes()));
    format!(
        "m({})",
        kv.iter().map(|(k, v)| format!("{}:{}", hexs(k), pv_text(v))).collect::<Vec<_>>().join(",")
    )
}

/// canonical text of a JSON value as the model's `J`.  Numbers: i64 → `i`, anything else →
/// the f64 `as_f64` yields.  Inside the `value` array of a `{"__type":"Vector"}` object every
/// number is narrowed to f32 and widened again (what `as f32` does in `json_to_property`) —
/// the numeric text layer is trusted, not modelled.
pub fn j_text(v: &serde_json::Value) -> String {
    j_text_ctx(v, false)
}

fn j_text_ctx(v: &serde_json::Value, vec_elem: bool) -> String {
    use serde_json::Value as V;
    match v {
        V::Null => "z".into(),
        V::Bool(b) => if *b { "b1".into() } else { "b0".into() },
        V::Number(n) => {
            if vec_elem {
                let f = n.as_f64().unwrap_or(f64::NAN) as f32 as f64;
                format!("f{:x}", f.to_bits())
            } else if let Some(i) = n.as_i64() {
                format!("i{}", i)
            } else {
                format!("f{:x}", n.as_f64().unwrap_or(f64::NAN).to_bits())
            }
        }
        V::String(s) => format!("s{}", hexs(s)),
        V::Array(a) => format!("a({})", a.iter().map(|x| j_text_ctx(x, vec_elem)).collect::<Vec<_>>().join(",")),
        V::Object(o) => {
            let is_vec = o.get("__type").and_then(|t| t.as_str()) == Some("Vector");
            let mut kv: Vec<(&String, &V)> = o.iter().collect();
            kv.sort_by(|a, b| a.0.as_bytes().cmp(b.0.as_bytes()));
            format!(
                "o({})",
                kv.iter()
                    .map(|(k, x)| {
                        let inner = if is_vec && k.as_str() == "value" {
                            match x {
                                V::Array(a) => format!(
                                    "a({})",
                                    a.iter().map(|e| j_text_ctx(e, true)).collect::<Vec<_>>().join(",")
                                ),
                                other => j_text_ctx(other, false),
                            }
                        } else {
                            j_text_ctx(x, false)
                        };
                        format!("{}:{}", hexs(k), inner)
                    })
                    .collect::<Vec<_>>()
                    .join(",")
            )
        }
    }
}

/// A dumped store in the driver's `st` syntax plus what the classifiers need.
pub struct Dump {
    pub text: String,
    pub n_nodes: usize,
    pub n_edges: usize,
    pub multi_version: bool,
    pub node_labels: Vec<Vec<String>>,
    pub node_props: Vec<BTreeMap<String, PV>>,
    pub rank: HashMap<u64, usize>,
    /// per node: keys whose row copy and column copy differ
    pub clash_keys: Vec<Vec<String>>,
    /// largest live relationship id / node id (holes in the id space show as max > count)
    pub max_edge_id: u64,
    pub max_node_id: u64,
    /// what the model's `St` has no place for: incoming adjacency (both tiers), the store's own
    /// node / relationship counters, relationship-type index sizes — compared verbatim where
    /// a store must be *unchanged*
    pub aux: String,
    /// incoming adjacency lists describe the same relationships as the outgoing ones, and
    /// `node_count()` / `edge_count()` agree with what was enumerated
    pub consistent: bool,
}

fn col_props(store: &GraphStore, id: NodeId) -> BTreeMap<String, PV> {
    let idx = id.as_u64() as usize;
    let mut m = BTreeMap::new();
    for k in store.node_columns.get_property_keys(idx) {
        let v = store.node_columns.get_property(idx, &k);
        if !v.is_null() {
            m.insert(k, v);
        }
    }
    m
}

/// The store through its public read API, ids renamed to ranks, everything from a hash
/// container sorted.  Relationships are read from the adjacency lists (both tiers).
pub fn dump_store(store: &GraphStore) -> Dump {
    dump_store_ordered(store, &[])
}

/// As `dump_store`, but the nodes whose ids are listed in `tail` are named last, in the order
/// of `tail`.  The model names nodes by handle (creation order); the real store re-uses freed
/// ids, so a node created later may get a *lower* id than an older one.  `tail` is the
/// sequence of ids the store will hand out next (probed on an identical copy), which makes the
/// rank of a node its handle again.
pub fn dump_store_ordered(store: &GraphStore, tail: &[u64]) -> Dump {
    // nodes: `all_nodes()` lists every MVCC version, oldest first; the last one is current
    let mut order: Vec<u64> = vec![];
    let mut versions: HashMap<u64, Vec<&samyama::graph::Node>> = HashMap::new();
    for n in store.all_nodes() {
        let id = n.id.as_u64();
        if !versions.contains_key(&id) {
            order.push(id);
        }
        versions.entry(id).or_default().push(n);
    }
    if !tail.is_empty() {
        let in_tail: std::collections::HashSet<u64> = tail.iter().copied().collect();
        let mut o2: Vec<u64> = order.iter().copied().filter(|i| !in_tail.contains(i)).collect();
        for t in tail {
            if versions.contains_key(t) && !o2.contains(t) {
                o2.push(*t);
            }
        }
        order = o2;
    }
    let rank: HashMap<u64, usize> = order.iter().enumerate().map(|(i, id)| (*id, i)).collect();
    let rk = |id: u64| -> usize { rank.get(&id).copied().unwrap_or(1_000_000 + id as usize) };
    let mut multi_version = false;
    let mut nodes_txt = vec![];
    let mut node_labels = vec![];
    let mut node_props = vec![];
    let mut clash_keys: Vec<Vec<String>> = vec![];
    for id in &order {
        let vs = &versions[id];
        let cur = vs[vs.len() - 1];
        let mut labels: Vec<String> = cur.labels.iter().map(|l| l.as_str().to_string()).collect();
        labels.sort_by(|a, b| a.as_bytes().cmp(b.as_bytes()));
        let col = col_props(store, cur.id);
        let hist: Vec<String> = vs[..vs.len() - 1].iter().map(|n| props_text(n.properties.iter())).collect();
        if !hist.is_empty() {
            multi_version = true;
        }
        nodes_txt.push(format!(
            "{};{};{};{};{}",
            rk(*id),
            strs(&labels),
            props_text(cur.properties.iter()),
            props_text(col.iter()),
            if hist.is_empty() { "-".to_string() } else { hist.join("/") }
        ));
        let merged: BTreeMap<String, PV> = store.node_properties_merged(cur.id).into_iter().collect();
        clash_keys.push(
            col.iter()
                .filter(|(k, v)| cur.properties.get(*k).map_or(false, |rv| pv_text(rv) != pv_text(v)))
                .map(|(k, _)| k.clone())
                .collect(),
        );
        node_labels.push(labels);
        node_props.push(merged);
    }
    // relationships from the adjacency lists
    let mut edges: Vec<(u64, u64, u64, String, PropertyMap)> = vec![];
    for id in &order {
        let nid = NodeId::new(*id);
        let mut out: Vec<(NodeId, EdgeId)> = store.frozen_outgoing_neighbors(*id as usize);
        out.extend_from_slice(store.get_outgoing_neighbor_slice(nid));
        for (tgt, eid) in out {
            let ty = store.get_edge_type(eid).map(|t| t.as_str().to_string()).unwrap_or_else(|| "?".into());
            let props = store.get_edge_properties(eid).cloned().unwrap_or_default();
            edges.push((eid.as_u64(), *id, tgt.as_u64(), ty, props));
        }
    }
    edges.sort_by_key(|e| e.0);
    let edges_txt: Vec<String> = edges
        .iter()
        .enumerate()
        .map(|(i, (_, s, t, ty, p))| format!("{};{};{};{};{}", i, rk(*s), rk(*t), xs(ty), props_text(p.iter())))
        .collect();
    // label index (raw sets, so that a stale id shows)
    let mut lidx: Vec<(String, Vec<usize>)> = vec![];
    for l in store.all_labels() {
        let mut ids: Vec<usize> = match store.nodes_with_label(l) {
            Some(set) => set.iter().map(|i| rk(i.as_u64())).collect(),
            None => vec![],
        };
        ids.sort();
        if !ids.is_empty() {
            lidx.push((l.as_str().to_string(), ids));
        }
    }
    lidx.sort_by(|a, b| a.0.as_bytes().cmp(b.0.as_bytes()));
    let lidx_txt: Vec<String> = lidx
        .iter()
        .map(|(l, ids)| format!("{};{}", xs(l), ids.iter().map(|i| i.to_string()).collect::<Vec<_>>().join(",")))
        .collect();
    // hierarchy declarations = the registered specs
    let mut hier_txt = vec![];
    for info in store.hierarchy_index.list() {
        if let Some(e) = store.hierarchy_index.get(&info.name) {
            let spec = e.read().unwrap().spec.clone();
            let types: Vec<String> = spec.edge_types.iter().map(|t| t.as_str().to_string()).collect();
            let ml = spec.measure.as_ref().and_then(|m| m.label.as_ref().map(|l| l.as_str().to_string()));
            let mp = spec.measure.as_ref().map(|m| m.property.clone());
            let ops: Vec<String> = spec.ops.iter().map(|o| o.name().to_string()).collect();
            hier_txt.push(format!(
                "{};{};{};{};{};{}",
                xs(&spec.name),
                strs(&types),
                if spec.reverse { 1 } else { 0 },
                ostr(&ml),
                ostr(&mp),
                strs(&ops)
            ));
        }
    }
    let dash = |v: &Vec<String>| if v.is_empty() { "-".to_string() } else { v.join("+") };
    let text = format!(
        "{}|{}|{}|{}|{}.{}",
        dash(&nodes_txt),
        dash(&edges_txt),
        dash(&lidx_txt),
        dash(&hier_txt),
        order.len(),
        edges.len()
    );
    // incoming adjacency, both tiers, as (src, tgt, edge id) — must describe the same relationships
    let mut incoming: Vec<(u64, u64, u64)> = vec![];
    for id in &order {
        let nid = NodeId::new(*id);
        let mut inc: Vec<(NodeId, EdgeId)> = store.frozen_incoming_neighbors(*id as usize);
        inc.extend_from_slice(store.get_incoming_neighbor_slice(nid));
        for (src, eid) in inc {
            incoming.push((src.as_u64(), *id, eid.as_u64()));
        }
    }
    incoming.sort();
    let mut outgoing: Vec<(u64, u64, u64)> = edges.iter().map(|e| (e.1, e.2, e.0)).collect();
    outgoing.sort();
    let consistent = incoming == outgoing && store.node_count() == order.len() && store.edge_count() == edges.len();
    let aux = format!(
        "in={};node_count={};edge_count={};labels={}",
        incoming.iter().map(|(s, t, e)| format!("{}>{}#{}", rk(*s), rk(*t), e)).collect::<Vec<_>>().join(","),
        store.node_count(),
        store.edge_count(),
        lidx.len()
    );
    Dump { text, n_nodes: order.len(), n_edges: edges.len(), multi_version, node_labels, node_props, rank, clash_keys, max_edge_id: edges.iter().map(|e| e.0).max().unwrap_or(0), max_node_id: order.iter().copied().max().unwrap_or(0), aux, consistent }
}

/// store text without the trailing `|<next>.<next>` counters and with the per-node history
/// column blanked — what R and M are compared on
pub fn comparable(st: &str) -> String {
    let body = match st.rfind('|') {
        Some(i) => &st[..i],
        None => st,
    };
    // blank the hist column: it is the last `;`-field of every node
    let mut parts = body.splitn(2, '|');
    let nodes = parts.next().unwrap_or("");
    let rest = parts.next().unwrap_or("");
    let nodes2: Vec<String> = if nodes == "-" {
        vec![]
    } else {
        nodes
            .split('+')
            .map(|n| {
                let f: Vec<&str> = n.split(';').collect();
                if f.len() == 5 {
                    format!("{};{};{};{};-", f[0], f[1], f[2], f[3])
                } else {
                    n.to_string()
                }
            })
            .collect()
    };
    // relationships: order and ids are not part of the comparison (the real store re-uses freed
    // relationship ids, the model appends) — sort by content and renumber
    let mut rp = rest.splitn(2, '|');
    let edges = rp.next().unwrap_or("-");
    let tail = rp.next().unwrap_or("");
    let edges2 = if edges == "-" {
        "-".to_string()
    } else {
        let mut es: Vec<String> =
            edges.split('+').map(|e| e.splitn(2, ';').nth(1).unwrap_or("").to_string()).collect();
        es.sort();
        es.iter().enumerate().map(|(i, e)| format!("{};{}", i, e)).collect::<Vec<_>>().join("+")
    };
    format!("{}|{}|{}", if nodes2.is_empty() { "-".to_string() } else { nodes2.join("+") }, edges2, tail)
}

// ---------------------------------------------------------------------------------------------
// generators
// ---------------------------------------------------------------------------------------------

pub const STRINGS: &[&str] = &[
    "", " a ", "\t x\n", "é", "日本", "a\"b\\c", "\u{a0}nbsp\u{a0}", "__type", "t", "n",
    "plain", " lead", "trail ", "\"t\":\"n\"", "Ünï", "x y", "0", "\u{2003}em\u{2003}", "\r\n",
];

pub fn gen_string(r: &mut Rng) -> String {
    if r.chance(1, 6) {
        let n = r.usize(6);
        (0..n).map(|_| *r.pick(&['a', 'B', ' ', 'é', '"', '7', '\\', 'ß'])).collect()
    } else {
        r.pick(STRINGS).to_string()
    }
}

pub fn gen_f64(r: &mut Rng) -> f64 {
    match r.usize(12) {
        0 => 0.0,
        1 => -0.0,
        2 => 1.0,
        3 => 0.1,
        4 => 1e300,
        5 => 5e-324,
        6 => f64::NAN,
        7 => f64::INFINITY,
        8 => f64::NEG_INFINITY,
        9 => 9007199254740993.0,
        _ => loop {
            let f = f64::from_bits(r.next_u64());
            if f.is_finite() {
                break f;
            }
        },
    }
}

pub fn gen_f32(r: &mut Rng) -> f32 {
    match r.usize(9) {
        0 => 0.0,
        1 => -0.0,
        2 => 1.5,
        3 => 0.1,
        4 => f32::NAN,
        5 => f32::INFINITY,
        6 => f32::NEG_INFINITY,
        _ => loop {
            let f = f32::from_bits(r.next_u64() as u32);
            if f.is_finite() {
                break f;
            }
        },
    }
}

pub fn gen_i64(r: &mut Rng) -> i64 {
    match r.usize(8) {
        0 => 0,
        1 => -1,
        2 => i64::MIN,
        3 => i64::MAX,
        4 => 9007199254740993,
        5 => r.range(-1000, 1000),
        _ => r.next_u64() as i64,
    }
}

pub const KEYS: &[&str] = &["name", "k", "t", "__type", "value", "", "é", "w", "x y", "id", "labels", "props"];
pub const TAGS: &[&str] = &["DateTime", "Vector", "Duration", "Float"];

/// a map that a snapshot cannot tell from a tagged value (`__type` = one of the tags)
pub fn is_tag_map(m: &HashMap<String, PV>) -> bool {
    matches!(m.get("__type"), Some(PV::String(s)) if TAGS.contains(&s.as_str()))
}

pub fn has_tag_map(v: &PV) -> bool {
    match v {
        PV::Map(m) => is_tag_map(m) || m.values().any(has_tag_map),
        PV::Array(a) => a.iter().any(has_tag_map),
        _ => false,
    }
}

/// boundary-value generator; `depth` bounds nesting.  Never produces a tag-colliding map
/// (see `gen_tag_map`) nor a non-canonical NaN.
pub fn gen_value(r: &mut Rng, depth: usize) -> PV {
    let top = if depth == 0 { 8 } else { 10 };
    match r.usize(top) {
        0 => PV::String(gen_string(r)),
        1 => PV::Integer(gen_i64(r)),
        2 => PV::Float(gen_f64(r)),
        3 => PV::Boolean(r.chance(1, 2)),
        4 => PV::DateTime(gen_i64(r)),
        5 => PV::Vector((0..r.usize(4)).map(|_| gen_f32(r)).collect()),
        6 => PV::Duration {
            months: gen_i64(r),
            days: gen_i64(r),
            seconds: gen_i64(r),
            nanos: *r.pick(&[0i32, 1, -1, i32::MAX, i32::MIN, 999_999_999]),
        },
        7 => PV::String(gen_string(r)),
        8 => {
            let n = r.usize(4);
            PV::Array(
                (0..n).map(|_| if r.chance(1, 6) { PV::Null } else { gen_value(r, depth - 1) }).collect(),
            )
        }
        _ => {
            let n = r.usize(4);
            let mut m = HashMap::new();
            for _ in 0..n {
                let k = r.pick(KEYS).to_string();
                let v = if r.chance(1, 8) { PV::Null } else { gen_value(r, depth - 1) };
                m.insert(k, v);
            }
            if is_tag_map(&m) {
                m.remove("__type");
            }
            PV::Map(m)
        }
    }
}

/// a user map that collides with the tagged encodings (known finding of the format)
pub fn gen_tag_map(r: &mut Rng) -> PV {
    let mut m = HashMap::new();
    let tag = r.pick(TAGS).to_string();
    m.insert("__type".to_string(), PV::String(tag.clone()));
    match tag.as_str() {
        "DateTime" => {
            m.insert("value".into(), PV::Integer(r.range(0, 9)));
        }
        "Vector" => {
            m.insert("value".into(), PV::Array(vec![PV::Float(1.0)]));
        }
        "Float" => {
            m.insert("value".into(), PV::String("NaN".into()));
        }
        _ => {}
    }
    PV::Map(m)
}

pub fn has_ws_edge_or_non_ascii(s: &str) -> bool {
    s != s.trim() || !s.is_ascii()
}

pub fn value_features(v: &PV, f: &mut Features) {
    match v {
        PV::String(s) => {
            if has_ws_edge_or_non_ascii(s) {
                f.edgy_string = true;
            }
        }
        PV::Float(x) => {
            if !x.is_finite() {
                f.nonfinite = true;
            }
        }
        PV::Vector(x) => {
            f.nonscalar = true;
            if x.iter().any(|c| !c.is_finite()) {
                f.vec_nonfinite = true;
            }
        }
        PV::Array(a) => {
            f.nonscalar = true;
            a.iter().for_each(|x| value_features(x, f));
        }
        PV::Map(m) => {
            f.nonscalar = true;
            if is_tag_map(m) {
                f.tag_map = true;
            }
            m.iter().for_each(|(k, x)| {
                if has_ws_edge_or_non_ascii(k) {
                    f.edgy_string = true;
                }
                value_features(x, f)
            });
        }
        PV::DateTime(_) | PV::Duration { .. } => f.nonscalar = true,
        _ => {}
    }
}

#[derive(Default, Clone, Debug)]
pub struct Features {
    pub edgy_string: bool,
    pub nonfinite: bool,
    pub vec_nonfinite: bool,
    pub nonscalar: bool,
    pub tag_map: bool,
    pub rels: usize,
    pub unlabelled: bool,
    pub multilabel: bool,
    pub versions: bool,
    pub hier: bool,
    pub compaction: bool,
    pub route_key: bool,
}

pub const LABELS: &[&str] = &["A", "B", "C", "Person", "é", "x y", "n"];
pub const TYPES: &[&str] = &["R", "KNOWS", "IS_A", "t", "é"];

pub fn label_of(s: &str) -> Label {
    Label::new(s)
}
