//! C07 — versioned reads are stable, duplicate-free and respect deletion: real `GraphStore`
//! vs the Lean model `SgModel.Mvcc`, and the step specification (stable / as-of / now / scan)
//! evaluated on the implementation's dumps of every (entity, version) read after every step.
#[path = "c07/mvcc.rs"]
mod mvcc;
use mvcc::{parse, render, Op};
use serde_json::json;
use vharness::{driver, Args, Known, Report, Rng};

/// generator-side picture of the store: which node ids / relationship ids are live
#[derive(Clone, Default)]
struct Gen {
    live_nodes: Vec<u64>,
    free_nodes: Vec<u64>,
    next_node: u64,
    rel: Option<(u64, u64, u64)>, // (id, src, tgt)
    free_edges: Vec<u64>,
    next_edge: u64,
    txns: u64,
    open: Vec<u64>, // transactions begun and neither committed nor aborted
    cur: u64,
}

impl Gen {
    fn new() -> Gen {
        Gen { next_node: 1, next_edge: 1, cur: 1, ..Default::default() }
    }
    fn apply(&mut self, op: &Op) {
        match op {
            Op::CreateNode(_) => {
                let id = self.free_nodes.pop().unwrap_or_else(|| {
                    self.next_node += 1;
                    self.next_node - 1
                });
                self.live_nodes.push(id);
            }
            Op::DeleteNode(n) => {
                if self.live_nodes.contains(n) {
                    self.live_nodes.retain(|x| x != n);
                    self.free_nodes.push(*n);
                    if let Some((id, a, b)) = self.rel {
                        if a == *n || b == *n {
                            self.rel = None;
                            self.free_edges.push(id);
                        }
                    }
                }
            }
            Op::CreateEdge(a, b, _) => {
                if self.live_nodes.contains(a) && self.live_nodes.contains(b) {
                    let id = self.free_edges.pop().unwrap_or_else(|| {
                        self.next_edge += 1;
                        self.next_edge - 1
                    });
                    self.rel = Some((id, *a, *b));
                }
            }
            Op::DeleteEdge(e) => {
                if let Some((id, _, _)) = self.rel {
                    if id == *e {
                        self.rel = None;
                        self.free_edges.push(id);
                    }
                }
            }
            Op::Begin(_) => {
                self.txns += 1;
                self.open.push(self.txns);
            }
            Op::Commit(t) => {
                // (a conflicting commit does not bump; `cur` is only used to pick gc watermarks)
                if self.open.contains(t) {
                    self.cur += 1;
                }
                self.open.retain(|x| x != t);
            }
            Op::Abort(t) => self.open.retain(|x| x != t),
            Op::Bump => self.cur += 1,
            _ => {}
        }
    }
    /// Letters of the class "transaction bookkeeping touches version chains": transactions held
    /// open across steps, write-set registration of live / freshly created / multi-version
    /// nodes and of the relationship, commit and abort.
    fn txn_letters(&self, max_open: usize, both_isolations: bool) -> Vec<Vec<Op>> {
        let mut l: Vec<Vec<Op>> = vec![];
        if self.open.len() < max_open {
            l.push(vec![Op::Begin(true)]);
            if both_isolations {
                l.push(vec![Op::Begin(false)]);
            }
        }
        for t in &self.open {
            for n in &self.live_nodes {
                l.push(vec![Op::WriteNode(*t, *n)]);
            }
            if let Some((id, _, _)) = self.rel {
                l.push(vec![Op::WriteEdge(*t, id)]);
            }
            l.push(vec![Op::Commit(*t)]);
            l.push(vec![Op::Abort(*t)]);
        }
        l
    }
    /// reduced alphabet of the exhaustive transaction family
    fn txn_family_letters(&self, step: usize, rel_family: bool) -> Vec<Vec<Op>> {
        let val = step as i64 + 20;
        let mut l = self.txn_letters(2, false);
        l.push(vec![Op::Bump]);
        if rel_family {
            if let Some((id, _, _)) = self.rel {
                l.push(vec![Op::SetEdge(id, 0, val)]);
            }
        } else {
            if let Some(n) = self.live_nodes.first() {
                l.push(vec![Op::SetProp(*n, 0, val)]);
            }
            if self.live_nodes.len() < 2 {
                l.push(vec![Op::CreateNode(1)]);
            }
        }
        l
    }
    /// the enabled letters (one relationship at a time, at most `max_nodes` nodes)
    fn letters(&self, step: usize, max_nodes: usize, with_gc: bool) -> Vec<Vec<Op>> {
        let mut l: Vec<Vec<Op>> = vec![vec![Op::Bump]];
        // "commit a transaction": begin + commit of the transaction just begun
        l.push(vec![Op::Begin(true), Op::Commit(self.txns + 1)]);
        if self.live_nodes.len() < max_nodes {
            l.push(vec![Op::CreateNode(1)]);
        }
        let val = step as i64 + 10;
        for n in &self.live_nodes {
            l.push(vec![Op::SetProp(*n, 0, val)]);
            l.push(vec![Op::DeleteNode(*n)]);
        }
        if let Some(n) = self.live_nodes.first() {
            l.push(vec![Op::RemoveProp(*n, 0)]);
            l.push(vec![Op::AddLabel(*n, 2)]);
            l.push(vec![Op::RemoveLabel(*n, 1)]);
        }
        match self.rel {
            Some((id, _, _)) => {
                l.push(vec![Op::SetEdge(id, 0, val)]);
                l.push(vec![Op::DeleteEdge(id)]);
            }
            None => {
                if self.live_nodes.len() >= 2 {
                    let (a, b) = (self.live_nodes[0], self.live_nodes[1]);
                    l.push(vec![Op::CreateEdge(a, b, vec![(0, 1)])]);
                }
            }
        }
        if with_gc && self.cur >= 2 {
            l.push(vec![Op::Gc(self.cur - 1)]);
            l.push(vec![Op::Gc(self.cur)]);
        }
        l
    }
}

fn exhaustive(len: usize, max_nodes: usize, with_gc: bool, out: &mut Vec<Vec<Op>>) {
    fn go(len: usize, max_nodes: usize, with_gc: bool, g: &Gen, cur: &mut Vec<Op>, steps: usize, out: &mut Vec<Vec<Op>>) {
        if steps == len {
            out.push(cur.clone());
            return;
        }
        for letter in g.letters(steps, max_nodes, with_gc) {
            let mut g2 = g.clone();
            for op in &letter {
                g2.apply(op);
                cur.push(op.clone());
            }
            go(len, max_nodes, with_gc, &g2, cur, steps + 1, out);
            for _ in &letter {
                cur.pop();
            }
        }
    }
    go(len, max_nodes, with_gc, &Gen::new(), &mut vec![], 0, out);
}

/// Every history of `len` letters of the transaction family after `prefix`.
fn exhaustive_txn(prefix: &[Op], len: usize, rel_family: bool, out: &mut Vec<Vec<Op>>) {
    fn go(len: usize, rel_family: bool, g: &Gen, cur: &mut Vec<Op>, steps: usize, out: &mut Vec<Vec<Op>>) {
        if steps == len {
            out.push(cur.clone());
            return;
        }
        for letter in g.txn_family_letters(steps, rel_family) {
            let mut g2 = g.clone();
            for op in &letter {
                g2.apply(op);
                cur.push(op.clone());
            }
            go(len, rel_family, &g2, cur, steps + 1, out);
            for _ in &letter {
                cur.pop();
            }
        }
    }
    let mut g = Gen::new();
    for op in prefix {
        g.apply(op);
    }
    let mut cur = prefix.to_vec();
    go(len, rel_family, &g, &mut cur, 0, out);
}

/// Structured scripts: entity state before the transaction x what the transaction does (physical
/// write and write-set registration in either order, one of them only, twice) x what happens in
/// between (bump, another transaction committing the same / another entity / nothing) x
/// commit or abort x what follows.
fn scripted_txn(out: &mut Vec<Vec<Op>>) {
    // (prefix, node?) : the entity is node 1 / relationship 1; `fresh` = created inside the txn
    let node_pre: Vec<(&str, Vec<Op>)> = vec![
        ("fresh", vec![]),
        ("one-version", vec![Op::CreateNode(1), Op::SetProp(1, 0, 1), Op::Bump]),
        ("written-at-current", vec![Op::CreateNode(1), Op::Bump, Op::SetProp(1, 0, 1)]),
        ("multi-version", vec![Op::CreateNode(1), Op::SetProp(1, 0, 1), Op::Bump, Op::SetProp(1, 0, 2), Op::Bump, Op::AddLabel(1, 2), Op::Bump]),
    ];
    let rel_pre: Vec<(&str, Vec<Op>)> = vec![
        ("rel-unlogged", vec![Op::CreateNode(1), Op::CreateNode(1), Op::CreateEdge(1, 2, vec![(0, 1)]), Op::Bump]),
        ("rel-logged", vec![Op::CreateNode(1), Op::CreateNode(1), Op::CreateEdge(1, 2, vec![]), Op::SetEdge(1, 0, 1), Op::Bump, Op::SetEdge(1, 0, 2), Op::Bump]),
    ];
    for iso in [true, false] {
        for (is_node, pres) in [(true, &node_pre), (false, &rel_pre)] {
            for (name, pre) in pres.iter() {
                let fresh = *name == "fresh";
                // the transaction under test is the first one begun: id 1; a rival is id 2
                let w: Op = if is_node {
                    if fresh { Op::CreateNode(1) } else { Op::SetProp(1, 0, 50) }
                } else {
                    Op::SetEdge(1, 0, 50)
                };
                let w2: Op = if is_node { Op::SetProp(1, 1, 51) } else { Op::SetEdge(1, 1, 51) };
                let reg = |t: u64| if is_node { Op::WriteNode(t, 1) } else { Op::WriteEdge(t, 1) };
                let bodies: Vec<Vec<Op>> = vec![
                    vec![w.clone(), reg(1)],
                    vec![reg(1), w.clone()],
                    vec![reg(1)],
                    vec![w.clone()],
                    vec![w.clone(), reg(1), w2.clone()],
                    vec![w.clone(), reg(1), reg(1)],
                    vec![w.clone(), Op::Bump, reg(1)],
                    vec![Op::Bump, w.clone(), reg(1)],
                    vec![w.clone(), reg(1), Op::Bump],
                    vec![w.clone(), reg(1), Op::Bump, w2.clone(), reg(1)],
                ];
                let rivals: Vec<Vec<Op>> = vec![
                    vec![],
                    vec![Op::Begin(true), Op::Commit(2)],
                    vec![Op::Begin(true), reg(2), Op::Commit(2)],
                    vec![Op::Begin(iso), reg(2), Op::Abort(2)],
                    vec![Op::Begin(true), if is_node { Op::WriteNode(2, 2) } else { Op::WriteNode(2, 1) }, Op::Commit(2)],
                ];
                let afters: Vec<Vec<Op>> = vec![
                    vec![],
                    vec![Op::Bump],
                    vec![w2.clone()],
                    vec![Op::GcAuto],
                    vec![Op::Begin(true), w2.clone(), reg(3), Op::Commit(3)],
                ];
                for body in &bodies {
                    if fresh && !matches!(body.iter().find(|o| !matches!(o, Op::Bump)), Some(Op::CreateNode(_))) {
                        continue; // a fresh node must be created before it is registered
                    }
                    for (ri, rival) in rivals.iter().enumerate() {
                        // the rival runs before the body or between body and finish
                        for rival_first in [true, false] {
                            if ri == 0 && !rival_first {
                                continue;
                            }
                            for finish in [Op::Commit(1), Op::Abort(1)] {
                                for after in &afters {
                                    let mut s = pre.clone();
                                    s.push(Op::Begin(iso));
                                    // a rival numbered 2 is begun after transaction 1
                                    if rival_first {
                                        s.extend(rival.iter().cloned());
                                        s.extend(body.iter().cloned());
                                    } else {
                                        s.extend(body.iter().cloned());
                                        s.extend(rival.iter().cloned());
                                    }
                                    s.push(finish.clone());
                                    // transaction ids in `after` assume a rival existed; renumber if not
                                    let next_txn = if rival.is_empty() { 2 } else { 3 };
                                    for op in after {
                                        s.push(match op {
                                            Op::WriteNode(_, n) => Op::WriteNode(next_txn, *n),
                                            Op::WriteEdge(_, e) => Op::WriteEdge(next_txn, *e),
                                            Op::Commit(_) => Op::Commit(next_txn),
                                            o => o.clone(),
                                        });
                                    }
                                    out.push(s);
                                }
                            }
                        }
                    }
                }
            }
        }
    }
}

fn random_case(rng: &mut Rng) -> Vec<Op> {
    let len = 12 + rng.usize(40);
    let mut g = Gen::new();
    let mut ops = vec![];
    for step in 0..len {
        // mostly enabled letters, sometimes an arbitrary (possibly failing) op on ids 1..3
        if rng.chance(1, 8) {
            let n = 1 + rng.below(3);
            let op = match rng.below(10) {
                0 => Op::SetProp(n, rng.below(2), step as i64),
                1 => Op::RemoveProp(n, rng.below(2)),
                2 => Op::AddLabel(n, 1 + rng.below(3)),
                3 => Op::RemoveLabel(n, 1 + rng.below(3)),
                4 => Op::DeleteNode(n),
                5 => Op::DeleteEdge(n),
                6 => Op::SetEdge(n, rng.below(2), step as i64),
                7 => Op::Abort(1 + rng.below(3)),
                8 => Op::WriteNode(1 + rng.below(3), n),
                _ => Op::WriteEdge(1 + rng.below(3), n),
            };
            // keep the generator's picture exact: only ops it can track
            if matches!(op, Op::CreateEdge(..)) {
                continue;
            }
            g.apply(&op);
            ops.push(op);
            continue;
        }
        let mut ls = g.letters(step, 3, true);
        // transactions held open, registering writes (each txn letter weighted like a store letter)
        ls.extend(g.txn_letters(3, true));
        let letter = rng.pick(&ls).clone();
        for op in letter {
            g.apply(&op);
            ops.push(op);
        }
    }
    ops
}

const CLAUSES: [&str; 6] = ["stable", "asof", "now", "scan", "result", "txn"];

fn main() {
    let args = Args::parse();
    let known = Known::load(&args.known, "C07");
    let mut rep = Report::new(
        "C07",
        "histories over create/set/remove property/add,remove label/delete node/create,set,delete relationship/version bump/\
         commit a transaction/gc over 2-3 nodes and 1 relationship; after every step every (entity, version <= current) read, \
         node_count, all_nodes and the transaction reads are dumped and compared with the dump before the step; \
         non-trivial = two versions of one entity exist and a later write follows; distinct = distinct rendered history",
        &args.replays,
        args.seed,
    );
    let exe = args.driver_exe("drv_mvcc");

    let mut seqs: Vec<Vec<Op>> = vec![];
    let mut n_corpus = 0;
    let mut files: Vec<std::path::PathBuf> = vec![];
    if let Some(r) = &args.replay {
        files.push(r.clone());
    } else if let Ok(rd) = std::fs::read_dir(args.corpus.join("C07")) {
        files = rd.filter_map(|e| e.ok().map(|e| e.path())).collect();
        files.sort();
    }
    for f in &files {
        for line in std::fs::read_to_string(f).unwrap_or_default().lines() {
            if let Some(ops_txt) = line.trim().strip_prefix("ops ") {
                if let Some(ops) = parse(ops_txt) {
                    seqs.push(ops);
                    n_corpus += 1;
                }
            }
        }
    }
    rep.count_n("corpus_sequences", n_corpus);

    if args.replay.is_none() {
        let before = seqs.len();
        let l = if args.thorough() { 7 } else { 6 };
        for k in 1..=l {
            exhaustive(k, 2, false, &mut seqs);
        }
        exhaustive(5, 2, true, &mut seqs);
        let n_store = seqs.len() - before;
        // class "transaction bookkeeping touches version chains"
        let tl = if args.thorough() { 6 } else { 5 };
        let before_txn = seqs.len();
        let pre_a = vec![Op::CreateNode(1), Op::SetProp(1, 0, 1), Op::Bump];
        let pre_b = vec![Op::CreateNode(1), Op::SetProp(1, 0, 1), Op::Bump, Op::SetProp(1, 0, 2)];
        let pre_r = vec![Op::CreateNode(1), Op::CreateNode(1), Op::CreateEdge(1, 2, vec![(0, 1)]), Op::SetEdge(1, 0, 2), Op::Bump];
        for k in 2..=tl {
            exhaustive_txn(&pre_a, k, false, &mut seqs);
            exhaustive_txn(&pre_r, k, true, &mut seqs);
        }
        for k in 2..tl {
            exhaustive_txn(&[], k, false, &mut seqs);
            exhaustive_txn(&pre_b, k, false, &mut seqs);
        }
        let n_txn_exh = seqs.len() - before_txn;
        scripted_txn(&mut seqs);
        let n_txn_script = seqs.len() - before_txn - n_txn_exh;
        rep.count_n("family:store_exhaustive", n_store as u64);
        rep.count_n("family:txn_exhaustive", n_txn_exh as u64);
        rep.count_n("family:txn_scripted", n_txn_script as u64);
        rep.exhaustive = true;
        rep.exhaustive_note = format!(
            "{} histories: every history of up to {} enabled steps over 2 nodes + 1 relationship (create node, set/remove property, \
             add/remove label, delete node, create/set/delete relationship, bump current_version, begin+commit a transaction), and of {} \
             steps with gc(cur-1)/gc(cur) added; every history of up to {} steps over {{begin SI (<= 2 open), txn_write_node /              txn_write_edge of every live entity on every open transaction, commit, abort, bump, set property, create node}} after four              prefixes (empty store, one-version node, node written at the current version, relationship with a logged write); {} scripted              transaction histories (entity state x write/registration order x rival transaction x commit/abort x follow-up, both isolation              levels); plus PRNG histories of 12-50 steps over 3 nodes with up to 3 open transactions incl. failing ops (not exhaustive)",
            seqs.len() - before,
            l,
            5,
            tl,
            n_txn_script
        );
        let mut rng = Rng::new(args.seed);
        let n_rand = if args.thorough() { 60_000 } else { 4_000 };
        for _ in 0..n_rand {
            seqs.push(random_case(&mut rng));
        }
    }

    let mut first_break: Option<String> = None;
    for chunk in seqs.chunks(100_000) {
        let rendered: Vec<String> = chunk.iter().map(|s| render(s)).collect();
        let ran = mvcc::run_all(chunk, 12, 16, false);
        let real: Vec<&String> = ran.iter().map(|r| &r.0).collect();
        let mut lines = Vec::with_capacity(chunk.len() * 2);
        for (r, o) in rendered.iter().zip(real.iter()) {
            lines.push(format!("run {}", r));
            lines.push(format!("spec {} {}", r, o));
        }
        let replies = driver::par_batch(&exe, &lines, 14);
        for (k, ops) in chunk.iter().enumerate() {
            let m = &replies[2 * k];
            let s = &replies[2 * k + 1];
            let nt = ran[k].2;
            rep.case(&rendered[k], nt);
            if nt && rep.samples.len() < 3 {
                rep.sample(json!({"ops": rendered[k], "impl_obs_last": real[k].rsplit(';').next()}));
            }
            for op in ops {
                rep.count(&format!("op:{}", op.kind()));
            }
            let body = format!("ops {}\nimpl  {}\nmodel {}\nspec  {}", rendered[k], real[k], m, s);
            if let Some(e) = &ran[k].1 {
                rep.count("spec_violation:scan:engine");
                rep.spec_violation(&known, "scan:engine", &format!("query engine scan/count differs from the live nodes ({}) on `{}`", e, rendered[k]), &body);
            }
            if s != "ok" {
                let mut sigs: Vec<String> = vec![];
                match s.strip_prefix("viol ") {
                    Some(list) => {
                        for v in list.split(',') {
                            let f: Vec<&str> = v.split('.').collect();
                            let step = f.first().and_then(|x| x.parse::<usize>().ok());
                            let clause = f.get(1).and_then(|x| x.parse::<usize>().ok()).unwrap_or(4);
                            let ent = if f.get(2) == Some(&"e") { "rel" } else { "node" };
                            let kind = step.and_then(|i| ops.get(i)).map(|o| o.kind()).unwrap_or("?");
                            let sig = if clause == 3 {
                                format!("scan:{}", kind)
                            } else {
                                format!("{}:{}:{}", CLAUSES.get(clause).unwrap_or(&"?"), kind, ent)
                            };
                            if !sigs.contains(&sig) {
                                sigs.push(sig);
                            }
                        }
                    }
                    None => sigs.push("driver-rejected".into()),
                }
                for sig in sigs {
                    rep.count(&format!("spec_violation:{}", sig));
                    rep.spec_violation(&known, &sig, &format!("versioned-read specification violated ({}) on `{}`: {}", sig, rendered[k], s), &body);
                }
            }
            if *m != format!("ok {}", real[k]) {
                rep.count("model_mismatch");
                if first_break.is_none() {
                    first_break = Some(body);
                }
            }
        }
    }
    if let Some(body) = first_break {
        if rep.spec_violations.is_empty() {
            rep.correspondence_break(
                "SgModel.Mvcc.step = GraphStore versioning functions (dump of every versioned read after every step)",
                "model and implementation observations differ and no specification violation outside the known findings was found",
                &body,
            );
        }
    }
    rep.sample(json!({"ops": seqs.last().map(|s| render(s))}));
    rep.write(&args.out);
}
